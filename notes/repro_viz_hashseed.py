"""X02-F3: the text of get_dot_graph depends on the hash seed as soon as there
are two outputs (the output names are walked in frozenset order, functions in
set order): node numbering and statement order change from process to
process; the picture is the same.
Run: /venv/bin/python notes/repro_viz_hashseed.py"""
import os
import subprocess
import sys

PROG = """
import hashlib, re, pytato as pt
x = pt.make_placeholder("x", (4,))
g = pt.make_dict_of_named_arrays({"first": x + 1, "second": x * 2, "third": pt.sin(x)})
s = re.sub(r"0x[0-9a-f]+", "0xADDR", pt.get_dot_graph(g))
print(hashlib.sha256(s.encode()).hexdigest()[:12],
      [ln.strip() for ln in s.splitlines() if re.match(r"\\s+array_\\d+ -> \\w+$", ln)][:3])
"""
for seed in ("0", "1", "2", "3"):
    p = subprocess.run([sys.executable, "-W", "ignore", "-c", PROG],
                       env=dict(os.environ, PYTHONHASHSEED=seed), capture_output=True, text=True)
    print("PYTHONHASHSEED=" + seed, p.stdout.strip() or p.stderr[-300:])
