"""Reproduction (C10 / C09): a well-formed program is rejected by
find_distributed_partition with a bare AssertionError ("unable to find
suitable part for materialized or output array").

    /venv/bin/python /verif/notes/repro_nested_holder_later_round.py

Rank 0 sends A = f(h, x) to rank 1 (tag "a"), where h is the HOLDER of another
send B = g(x, r) (tag "b") and r is received from rank 1 (tag "c").  The value
of a holder is its pass-through data, so A does not depend on r: the message
graph is  c -> b,  a independent  (matched, acyclic, no self-communication).
_LocalSendRecvDepGatherer sees it that way too (it returns only
rec(passthrough_data) for a holder), so a is scheduled in the first batch and
b in the second.  But the SubsetDependencyMappers that place stored arrays
(partition.py, "assign each compulsorily materialized array to a part") walk
INTO the holder's send data (CombineMapper.map_distributed_send_ref_holder
combines send.data and passthrough_data), find the receive r below A's data,
and the assertion  last_dep_recv_part <= first_dep_send_part  fails.
"""
import os
import sys
sys.path[:0] = ["/verif", os.environ.get("PTVERIF_REPO", "/repo")]
import numpy as np
from ptverif import fakempi
fakempi.install()
import pytato as pt
from pytato.distributed.partition import find_distributed_partition


def dag(rank):
    x = pt.make_placeholder("x", (2,), np.int64)
    if rank == 0:
        r = pt.make_distributed_recv(src_rank=1, comm_tag="c", shape=(2,), dtype=np.int64)
        h = pt.staple_distributed_send(x + r, dest_rank=1, comm_tag="b", stapled_to=x)
        return pt.make_dict_of_named_arrays(
            {"out": pt.staple_distributed_send(h * 3 + x, dest_rank=1, comm_tag="a",
                                               stapled_to=x + 1)})
    a = pt.make_distributed_recv(src_rank=0, comm_tag="a", shape=(2,), dtype=np.int64)
    b = pt.make_distributed_recv(src_rank=0, comm_tag="b", shape=(2,), dtype=np.int64)
    return pt.make_dict_of_named_arrays(
        {"out": pt.staple_distributed_send(2 * x, dest_rank=0, comm_tag="c",
                                           stapled_to=a + b + x)})


def find(r):
    def f(comm):
        return find_distributed_partition(comm, dag(r))
    return f


for rr in fakempi.World(2).run([find(0), find(1)]):
    print("rank", rr.rank, rr.status, rr.reason, repr(rr.exc))
