"""Minimal reproduction (C09 / C10): a received array that is sent on unchanged.

    /venv/bin/python /verif/notes/repro_forwarded_recv.py
    PTVERIF_REPO=<tree before commit 03abe20> /venv/bin/python /verif/notes/repro_forwarded_recv.py

(/repo has the fix since 03abe20: there the script shows a fresh output name
and verify accepting; on an older tree it shows the defect described here.)

Three ranks: 0 sends a to 1; rank 1 forwards exactly what it received to 2.
Matched, acyclic, no self-communication -- a well-formed program.
find_distributed_partition gives the received array ONE name that is both a
key of name_to_recv_node and an element of output_names of the same part
(the DistributedGraphPart docstring: "Names specified in name_to_recv_node
*must not* occur in output_names"), the stored expression of that name is a
placeholder reading itself, and verify_distributed_partition dies on the root
with a bare AssertionError.
"""
import sys
import os
sys.path[:0] = ["/verif", os.environ.get("PTVERIF_REPO", "/repo")]
import numpy as np
from ptverif import fakempi
fakempi.install()
import pytato as pt
from pytato.distributed.partition import find_distributed_partition
from pytato.distributed.verify import verify_distributed_partition


def dag(rank):
    x = pt.make_placeholder("x", (2,), np.int64)
    if rank == 0:
        return pt.make_dict_of_named_arrays(
            {"out": pt.staple_distributed_send(2 * x, dest_rank=1, comm_tag="a", stapled_to=x + 1)})
    if rank == 1:
        got = pt.make_distributed_recv(src_rank=0, comm_tag="a", shape=(2,), dtype=np.int64)
        return pt.make_dict_of_named_arrays(
            {"out": pt.staple_distributed_send(got, dest_rank=2, comm_tag="b", stapled_to=x + 1)})
    got = pt.make_distributed_recv(src_rank=1, comm_tag="b", shape=(2,), dtype=np.int64)
    return pt.make_dict_of_named_arrays({"out": got + x})


parts = [None] * 3


def find(r):
    def f(comm):
        parts[r] = find_distributed_partition(comm, dag(r))
    return f


def verify(r):
    def f(comm):
        verify_distributed_partition(comm, parts[r])
    return f


print([s.status for s in fakempi.World(3).run([find(r) for r in range(3)])])
p = parts[1].parts[0]
print("rank 1, part 0: received names", sorted(p.name_to_recv_node),
      "output names", sorted(p.output_names))
for nm in p.output_names:
    print("   ", nm, "=", type(parts[1].name_to_output[nm]).__name__,
          getattr(parts[1].name_to_output[nm], "name", ""))
for rr in fakempi.World(3).run([verify(r) for r in range(3)]):
    print("verify on rank", rr.rank, "->", rr.status, repr(rr.exc))
