import numpy as np, pytato as pt
from pytato.distributed.partition import find_distributed_partition
from pytato.distributed.verify import verify_distributed_partition
import sys
sys.path.insert(0,'/verif')
x = pt.make_placeholder("x",(3,),np.float64)
def rank0():
    s1 = pt.make_distributed_send(x*2, dest_rank=1, comm_tag=7)
    h1 = pt.make_distributed_send_ref_holder(s1, x+1)
    s2 = pt.make_distributed_send(h1*3, dest_rank=1, comm_tag=7)   # duplicate (dest, tag); its data contains holder 1
    h2 = pt.make_distributed_send_ref_holder(s2, x+5)
    return pt.make_dict_of_named_arrays({"o": h2})
def rank1():
    r = pt.make_distributed_recv(src_rank=0, comm_tag=7, shape=(3,), dtype=np.float64)
    return pt.make_dict_of_named_arrays({"o": r+1})
from ptverif import fakempi
fakempi.install()
dags=[rank0(), rank1()]
parts=[None,None]
def find(r):
    def f(comm): parts[r]=find_distributed_partition(comm, dags[r])
    return f
def verify(r):
    def f(comm): verify_distributed_partition(comm, parts[r])
    return f
w=fakempi.World(2, seed=0)
res=w.run([find(0),find(1)])
print([(r.status, r.exc_name, str(r.exc)[:200]) for r in res])
if all(r.status=="ok" for r in res):
    w=fakempi.World(2, seed=0)
    res=w.run([verify(0),verify(1)])
    print([(r.status, r.exc_name, str(r.exc)[:200]) for r in res])
