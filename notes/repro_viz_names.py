"""X02-F1: get_dot_graph / show_fancy_placeholder_data_flow write names into the
DOT text as unquoted identifiers.  Legal pytato names (Python identifiers such
as "edge", "node", "graph"; the identifier "<lambda>" that trace_call guesses
for a lambda; any hashable as FunctionIdentifier) then give text that graphviz
refuses.  Run: /venv/bin/python notes/repro_viz_names.py"""
import re
import shutil
import subprocess

import pytato as pt

x = pt.make_placeholder("x", (4,))
cases = {
    "an output named 'edge'": {"edge": x + 1},
    "a traced lambda": {"out": pt.trace_call(lambda a: a + 1, x) + 1},
    "a function identified by 'my-func'":
        {"out": pt.trace_call(lambda a: a + 1, x, identifier="my-func") + 1},
}
for what, outs in cases.items():
    text = pt.get_dot_graph(pt.make_dict_of_named_arrays(outs))
    bad = [ln.strip() for ln in text.splitlines()
           if re.search(r"(^|\s)(edge|&lt;lambda&gt;|my-func)(\s|$)", ln) and "->" in ln]
    print(f"{what}: {bad[:2]}")
    if shutil.which("dot"):
        p = subprocess.run(["dot", "-Tsvg"], input=text, capture_output=True, text=True)
        print("   graphviz:", p.returncode, p.stderr.strip().splitlines()[:1])
