"""X02-F2: get_dot_graph_from_partition dies with a bare AssertionError when a
part reads a name that ANOTHER part receives -- which DistributedGraphPart
documents as allowed ("Names that occur as keys in name_to_recv_node ... are
usable as input names by other parts"), and which find_distributed_partition
produces (ptverif.distprogs "lib/uneven_paths" rank 2,
"lib/send_in_data_later_round" rank 1).
Run: /venv/bin/python notes/repro_viz_recv_read_later.py"""
import numpy as np

import pytato as pt
from pytato.distributed.partition import DistributedGraphPart, DistributedGraphPartition
from pytato.visualization import get_dot_graph_from_partition

x = pt.make_placeholder("x", (4,))
recv = pt.make_distributed_recv(src_rank=1, comm_tag=5, shape=(4,), dtype=np.float64)
out = pt.make_placeholder("got", (4,)) * 2 + x


def part(pid, outs, user=(), pin=(), needed=(), recv=None):
    return DistributedGraphPart(
        pid=pid, needed_pids=frozenset(needed), user_input_names=frozenset(user),
        partition_input_names=frozenset(pin), output_names=frozenset(outs),
        name_to_recv_node=recv or {}, name_to_send_nodes={})


partition = DistributedGraphPartition(
    parts={0: part(0, [], recv={"got": recv}),            # part 0 only receives
           1: part(1, ["out"], ["x"], ["got"], [0])},     # part 1 reads what part 0 received
    name_to_output={"out": out}, overall_output_names=("out",))
get_dot_graph_from_partition(partition)     # AssertionError (computing_pid is None)
