"""C17 on the unchanged tree: the code generate_code_for_partition emits for a
part in which ONE array is a part output under TWO names depends on
PYTHONHASHSEED (part.output_names is a frozenset; which name is computed and
which is copied from the other follows its iteration order).

run:  for s in 0 1 2 3 4 5; do PYTHONHASHSEED=$s PYTHONPATH=/repo /venv/bin/python \
          /verif/notes/repro_partcode_output_order.py; done | sort | uniq -c
      -> two different digests (one on a fixed tree)
"""
import hashlib
import warnings

import numpy as np

warnings.simplefilter("ignore")
import loopy as lp  # noqa: E402
import pytato as pt  # noqa: E402
from pytato.distributed.execute import generate_code_for_partition  # noqa: E402
from pytato.distributed.partition import (  # noqa: E402
    DistributedGraphPart,
    DistributedGraphPartition,
)

x = pt.make_placeholder("x", (2,), np.int64)
e = 7 * x + 47
names = ["alpha", "beta", "gamma", "delta"]          # four names, one array
part = DistributedGraphPart(
    pid=0, needed_pids=frozenset(), user_input_names=frozenset({"x"}),
    partition_input_names=frozenset(), output_names=frozenset(names),
    name_to_recv_node={}, name_to_send_nodes={})
partition = DistributedGraphPartition(
    parts={0: part}, name_to_output={n: e for n in names},
    overall_output_names=tuple(names))
prg = generate_code_for_partition(partition)[0]
knl = prg.program.default_entrypoint
text = "\n".join(f"{i.id}: {i.assignee} = {i.expression}" for i in knl.instructions)
print(hashlib.sha256(text.encode()).hexdigest()[:12], "|", text.replace("\n", " ; "))
