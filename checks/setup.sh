#!/bin/sh
# Offline setup: syntax-check every TLA+ module with SANY.  Nothing is fetched or built.
set -e
cd "$(dirname "$0")/../spec"
rc=0
for f in *.tla; do
  out=$(java -cp /opt/veriftools/tla/tla2tools.jar:/opt/veriftools/tla/CommunityModules-deps.jar tla2sany.SANY "$f" 2>&1) || { echo "$out" | tail -20; rc=1; }
  if echo "$out" | grep -q -E "\*\*\* Errors|Fatal errors|Could not find module"; then echo "SANY failed on $f"; echo "$out" | tail -20; rc=1; fi
done
[ $rc -eq 0 ] && echo "setup ok: all TLA+ modules parse"
exit $rc
