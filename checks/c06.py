"""C06 -- algebraic einsum rewrites never change the computed value.

M (design level): spec/PtDistLaw.tla states the rule -- an operation may be
   pushed through an einsum iff it is x+y, x-y (same shape), c*x, x*c or x/c
   with c scalar -- and TLC verifies its soundness, and the UNsoundness of
   each neighbour (c/x, x**c, f(x), broadcasting sums), by exhaustive
   evaluation over GF(5) (quick) / GF(7) (thorough) on a row of an einsum (1x2 by 2).
G: expressions with 1..3 (possibly nested) einsums / matmuls whose operands
   are trees over + - * / with array and scalar operands in either position,
   powers, math functions, indexing, reshapes, transposes and broadcast unit
   axes: every single-operation form at every operand position of every
   einsum template (systematic part) plus seeded random deeper trees; and
   EVERY distribution policy (per einsum: do not distribute / distribute over
   operand i, all mixtures).
E: the real apply_distributive_property_to_einsums (with a callback
   implementing the policy) and rewrite_einsums_with_no_broadcasts are
   applied; original and rewritten graphs are exported and TLC decides
   equality of all outputs under PtSem in GF(10007) at 3 valuations.
   Documented refusals (RuntimeError for composed distribution, an index
   lambda that cannot be raised) constrain nothing.
"""
from __future__ import annotations

import itertools
import multiprocessing as mp
from typing import Any

import numpy as np

from ptverif import export, progspace, tlc
from ptverif import replay as rp
from ptverif.common import NCPU, MachineryError, Run, seed

PROP = "C06"

# einsum templates: (spec, operand shapes)
TEMPLATES = [
    ("ij,j->i", [(2, 3), (3,)]),
    ("ij,jk->ik", [(2, 3), (3, 2)]),
    ("i,i->", [(3,), (3,)]),
    ("ij,ij->ij", [(2, 3), (2, 3)]),
    ("ij,j->ij", [(2, 3), (3,)]),
    ("ij,kj,k->i", [(2, 3), (2, 3), (2,)]),
    ("ij,ij->ij", [(2, 1), (2, 3)]),          # broadcast unit axis inside the einsum
    ("ii->i", [(3, 3)]),
    ("ij->i", [(2, 3)]),                      # single operand, reduced last axis
    ("ij->", [(2, 3)]),
    ("ij,i->i", [(2, 3), (2,)]),              # the reduced axis is fixed by no other operand
    ("ij,->ij", [(2, 3), ()]),                # a 0-d operand (scalar-like ARRAY)
    (",i->i", [(), (3,)]),
    (",->", [(), ()]),
    ("ijk,ijk->ik", [(1, 1, 3), (2, 2, 3)]),  # two broadcast unit axes, then a real one
    ("ijk,ijk->ijk", [(2, 1, 1), (2, 2, 3)]),  # ... at the end
    ("ijkl,ijkl->il", [(2, 1, 1, 3), (2, 2, 2, 3)]),
    ("ijk,jk,ik->k", [(2, 2, 3), (1, 3), (1, 1)]),
]
S_INT = {"py": "int", "v": "3"}
S_FLT = {"py": "float", "v": "0.5"}
S_NP = {"np": "f8", "v": "1.5"}


class Builder:
    """Grows a program (replay format) while tracking shapes with NumPy."""

    def __init__(self, rng: np.random.Generator) -> None:
        self.g = progspace._Gen(rng, ("f8",))
        self.rng = rng

    share = 0.0

    def leaf(self, shape: tuple) -> int:
        if self.share and self.rng.random() < self.share:
            same = self.g.arrays(lambda a: a.shape == tuple(shape))
            if same:
                return same[int(self.rng.integers(len(same)))]
        return self.g.add_input(tuple(shape), "f8")

    def call(self, c: dict) -> int:
        if not self.g.try_call(c):
            raise ValueError(f"invalid call {c}")
        return len(self.g.items)

    def shape(self, ref: int) -> tuple:
        return self.g.np_of(ref).shape

    # one operation applied at the root of an operand of the given shape
    def form(self, name: str, shape: tuple, sub: Any) -> int:
        """sub(shape) -> ref builds a sub-tree of that shape"""
        c = self.call
        if name == "leaf":
            return sub(shape)
        if name in ("add", "sub", "mul_xy", "div_xy"):
            a, b = sub(shape), sub(shape)
            op = {"add": "add", "sub": "sub", "mul_xy": "mul", "div_xy": "truediv"}[name]
            return c({"op": op, "a": a, "b": b})
        if name in ("c_mul", "mul_c", "div_c", "c_div", "c_add", "add_c", "c_sub", "sub_c",
                    "npc_mul", "mul_fc"):
            a = sub(shape)
            s = {"npc_mul": S_NP, "mul_fc": S_FLT}.get(name, S_INT)
            op = {"c_mul": "mul", "mul_c": "mul", "npc_mul": "mul", "mul_fc": "mul",
                  "div_c": "truediv", "c_div": "truediv", "c_add": "add", "add_c": "add",
                  "c_sub": "sub", "sub_c": "sub"}[name]
            if name in ("c_mul", "c_div", "c_add", "c_sub", "npc_mul"):
                return c({"op": op, "a": s, "b": a})
            return c({"op": op, "a": a, "b": s})
        if name == "neg":
            return c({"op": "neg", "a": sub(shape)})
        if name == "pow_c":
            return c({"op": "pow", "a": sub(shape), "b": {"py": "int", "v": "2"}})
        if name == "c_pow":
            return c({"op": "pow", "a": {"py": "int", "v": "2"}, "b": sub(shape)})
        if name == "sin":
            return c({"op": "sin", "a": sub(shape)})
        if name == "add_bcast":
            if not shape:
                raise ValueError("no axes")
            small = tuple(1 if k == 0 else n for k, n in enumerate(shape))
            return c({"op": "add", "a": sub(shape), "b": sub(small)})
        if name in ("add_bcast_last", "sub_bcast_last"):
            if not shape:
                raise ValueError("no axes")
            small = tuple(1 if k == len(shape) - 1 else n for k, n in enumerate(shape))
            return c({"op": "add" if name == "add_bcast_last" else "sub",
                      "a": sub(small), "b": sub(shape)})
        if name == "add_scalar_array":
            return c({"op": "add", "a": sub(shape), "b": sub(())})
        if name == "mul_scalar_array":
            return c({"op": "mul", "a": sub(shape), "b": sub(())})
        if name == "rev":
            if not shape:
                raise ValueError("no axes")
            return c({"op": "index", "a": sub(shape),
                      "idx": [{"t": "slice", "start": [], "stop": [], "step": [-1]}]})
        if name == "transpose":
            if len(shape) != 2:
                raise ValueError("not 2d")
            return c({"op": "transpose", "a": sub(shape[::-1]), "axes": [1, 0]})
        if name == "reshape":
            n = int(np.prod(shape, dtype=np.int64))
            return c({"op": "reshape", "a": sub((n,)), "newshape": list(shape)})
        if name == "roll":
            if not shape:
                raise ValueError("no axes")
            return c({"op": "roll", "a": sub(shape), "shift": 1, "axis": 0})
        if name == "where":
            a, b = sub(shape), sub(shape)
            cond = c({"op": "gt", "a": a, "b": S_FLT})
            return c({"op": "where", "c": cond, "a": a, "b": b})
        if name == "sum_of_three":
            a, b, d = sub(shape), sub(shape), sub(shape)
            return c({"op": "add", "a": c({"op": "add", "a": a, "b": b}), "b": d})
        if name == "matvec":
            if len(shape) != 1:
                raise ValueError("not 1d")
            m = sub((shape[0], 2))
            v = sub((2,))
            return c({"op": "matmul", "a": m, "b": v})
        if name == "stack":
            if not shape or shape[0] != 2:
                raise ValueError("first axis must be 2")
            return c({"op": "stack", "arrays": [sub(shape[1:]), sub(shape[1:])], "axis": 0})
        raise ValueError(name)


FORMS = ["leaf", "add", "sub", "mul_xy", "div_xy", "c_mul", "mul_c", "npc_mul", "mul_fc",
         "div_c", "c_div", "c_add", "add_c", "c_sub", "sub_c", "neg", "pow_c", "c_pow", "sin",
         "add_bcast", "add_bcast_last", "sub_bcast_last", "add_scalar_array", "mul_scalar_array", "rev", "transpose", "reshape",
         "roll", "where", "sum_of_three", "matvec", "stack"]


def systematic(tier: str = "thorough") -> list[dict]:
    progs = []
    rng = np.random.default_rng(0)
    for (ti, (spec, shapes)), pos, f1, f2 in itertools.product(
            enumerate(TEMPLATES), range(3), FORMS,
            ["leaf", "add", "c_mul", "c_div", "div_c", "sub"] if tier == "thorough"
            else ["leaf", "c_div"]):
        if pos >= len(shapes):
            continue
        if tier != "thorough" and ti >= 11 and (f2 != "leaf" or len(shapes[-1]) == 4):
            continue            # quick: the 0-d / multi-unit-axis templates once per form
        if f2 != "leaf" and f1 in ("leaf",):
            continue
        if f2 != "leaf" and f1 not in ("add", "sub", "c_mul", "mul_c", "div_c", "c_div",
                                       "neg", "mul_xy", "matvec", "rev"):
            continue
        b = Builder(rng)
        try:
            args = []
            for k, sh in enumerate(shapes):
                if k == pos:
                    args.append(b.form(f1, sh, lambda s, b=b, f2=f2: b.form(f2, s, b.leaf)))
                else:
                    args.append(b.leaf(sh))
            b.call({"op": "einsum", "spec": spec, "args": args})
        except ValueError:
            continue
        progs.append(b.g.finalize(f"sys/{ti}:{spec}/{pos}/{f1}/{f2}", 1))
    return progs


def shared_operand(tier: str = "thorough") -> list[dict]:
    """ONE sub-expression object is an operand of TWO einsums (same template,
    different other operands): E(A.., s) + E(B.., s), and both as separate
    outputs -- what a rewrite cache keyed too coarsely would confuse."""
    progs = []
    rng = np.random.default_rng(1)
    for (ti, (spec, shapes)), pos, f1 in itertools.product(
            enumerate(TEMPLATES), range(3),
            ["add", "sub", "c_mul", "div_c", "neg", "mul_c"] if tier == "thorough"
            else ["add", "c_mul", "div_c"]):
        if pos >= len(shapes) or len(shapes) < 2:
            continue
        b = Builder(rng)
        try:
            s_ref = b.form(f1, shapes[pos], b.leaf)
            es = []
            for _ in range(2):
                args = [s_ref if k == pos else b.leaf(sh) for k, sh in enumerate(shapes)]
                es.append(b.call({"op": "einsum", "spec": spec, "args": args}))
            total = b.call({"op": "add", "a": es[0], "b": es[1]})
        except ValueError:
            continue
        prog = b.g.finalize(f"shared/{ti}:{spec}/{pos}/{f1}", 1)
        # also return the two einsums themselves (ids shift by the input reordering:
        # the last three calls are E1, E2, E1+E2)
        n = len(prog["inputs"]) + len(prog["calls"])
        prog["outs"] = {"out0": n, "out1": n - 1, "out2": n - 2}
        progs.append(prog)
    return progs


def same_object_twice(tier: str = "thorough") -> list[dict]:
    """ONE array object in TWO operand slots of one einsum (v^T M v, s * s, <v, v>), the
    shared operand being a sum / difference / scaled array, so that a policy may distribute
    over either slot: the other slot must keep the undistributed operand."""
    progs = []
    rng = np.random.default_rng(2)
    twice = [("i,ij,j->", [(3,), (3, 3), (3,)], (0, 2)), ("ij,ij->ij", [(2, 3), (2, 3)], (0, 1)),
             ("i,i->", [(3,), (3,)], (0, 1)), ("ij,jk,kl->il", [(2, 2), (2, 2), (2, 2)], (0, 2)),
             ("ij,jk,kl->il", [(2, 2), (2, 2), (2, 2)], (0, 1)),
             ("i,i,i->i", [(3,), (3,), (3,)], (0, 1, 2))]
    for (ti, (spec, shapes, slots)), f1 in itertools.product(
            enumerate(twice), ["add", "sub", "c_mul", "div_c", "neg", "mul_c"]
            if tier == "thorough" else ["sub", "c_mul", "add"]):
        b = Builder(rng)
        try:
            s_ref = b.form(f1, shapes[slots[0]], b.leaf)
            args = [s_ref if k in slots else b.leaf(sh) for k, sh in enumerate(shapes)]
            b.call({"op": "einsum", "spec": spec, "args": args})
        except ValueError:
            continue
        progs.append(b.g.finalize(f"twice/{ti}:{spec}/{f1}", 1))
    return progs


def complex_parts(tier: str = "thorough") -> list[dict]:
    """COMPLEX operands with real / imag / conj / abs inside the operand a policy may
    distribute over (real(x) + r, real(x) + 2 imag(y), imag(x - y), real(x + y), conj(x) - y):
    none of these functions commutes with a contraction against a complex co-operand."""
    progs = []
    rng = np.random.default_rng(3)
    tmpl = [("ij,j->i", [(2, 3), (3,)]), ("i,i->", [(3,), (3,)]), ("ij,ij->ij", [(2, 3), (2, 3)])]
    inner = {
        "real+r": lambda b, sh, L: b.call({"op": "add", "a": b.call({"op": "real", "a": L(sh)}),
                                           "b": L(sh)}),
        "real+2imag": lambda b, sh, L: b.call({
            "op": "add", "a": b.call({"op": "real", "a": L(sh)}),
            "b": b.call({"op": "mul", "a": S_INT, "b": b.call({"op": "imag", "a": L(sh)})})}),
        "imag(x-y)": lambda b, sh, L: b.call({"op": "imag", "a": b.call(
            {"op": "sub", "a": L(sh), "b": L(sh)})}),
        "real(x+y)": lambda b, sh, L: b.call({"op": "real", "a": b.call(
            {"op": "add", "a": L(sh), "b": L(sh)})}),
        "conj(x)-y": lambda b, sh, L: b.call({"op": "sub", "a": b.call(
            {"op": "conj", "a": L(sh)}), "b": L(sh)}),
        "real(3x)": lambda b, sh, L: b.call({"op": "real", "a": b.call(
            {"op": "mul", "a": S_INT, "b": L(sh)})}),
    }
    for (ti, (spec, shapes)), pos, (iname, mk) in itertools.product(
            enumerate(tmpl), range(2), inner.items()):
        b = Builder(rng)
        L = lambda sh, b=b: b.g.add_input(tuple(sh), "c16")      # noqa: E731
        try:
            args = [mk(b, sh, L) if k == pos else L(sh) for k, sh in enumerate(shapes)]
            b.call({"op": "einsum", "spec": spec, "args": args})
        except ValueError:
            continue
        progs.append({**b.g.finalize(f"cplx/{ti}:{spec}/{pos}/{iname}", 1), "nocast": True})
    return progs


def random_nested(rng: np.random.Generator, n: int) -> list[dict]:
    progs = []
    tries = 0
    while len(progs) < n and tries < n * 10:
        tries += 1
        b = Builder(rng)
        b.share = 0.4

        def tree(shape: tuple, depth: int) -> int:
            if depth == 0 or rng.random() < 0.25:
                return b.leaf(shape)
            cands = list(FORMS[1:])
            f = cands[int(rng.integers(len(cands)))]
            # an einsum as an operand of the tree: nesting
            if rng.random() < 0.3 and len(shape) == 1:
                m = tree((shape[0], 3), depth - 1)
                v = tree((3,), depth - 1)
                return b.call({"op": "einsum", "spec": "ij,j->i", "args": [m, v]})
            try:
                return b.form(f, shape, lambda s: tree(s, depth - 1))
            except ValueError:
                return b.leaf(shape)
        try:
            spec, shapes = TEMPLATES[int(rng.integers(len(TEMPLATES)))]
            args = [tree(sh, 2) for sh in shapes]
            e = b.call({"op": "einsum", "spec": spec, "args": args})
            r = rng.random()
            if r < 0.3:
                b.call({"op": "mul", "a": S_INT, "b": e})
            elif r < 0.5:
                spec2, shapes2 = TEMPLATES[int(rng.integers(len(TEMPLATES)))]
                if tuple(shapes2[0]) == b.shape(e) or True:
                    try:
                        args2 = [e if tuple(sh) == b.shape(e) and k == 0 else tree(sh, 1)
                                 for k, sh in enumerate(shapes2)]
                        b.call({"op": "einsum", "spec": spec2, "args": args2})
                    except ValueError:
                        pass
        except ValueError:
            continue
        nein = sum(1 for it in b.g.items if it["kind"] == "call"
                   and it["desc"]["op"] in ("einsum", "matmul"))
        if 1 <= nein <= 3 and len(b.g.items) <= 40:
            progs.append(b.g.finalize(f"rnd/{len(progs)}", 1))
    return progs


# --------------------------------------------------------------------------

def einsums_of(expr: Any) -> list[Any]:
    """Every Einsum node reachable from expr (reflective walk, stable order)."""
    import dataclasses

    import pytato as pt
    seen: dict[int, Any] = {}
    order: list[Any] = []

    def walk(x: Any) -> None:
        if isinstance(x, pt.Array):
            if id(x) in seen:
                return
            seen[id(x)] = x
            for f in dataclasses.fields(x):
                walk(getattr(x, f.name))
            if isinstance(x, pt.Einsum):
                order.append(x)
        elif isinstance(x, (tuple, list)):
            for v in x:
                walk(v)
        elif isinstance(x, dict) or hasattr(x, "items"):
            try:
                for _, v in sorted(x.items()):
                    walk(v)
            except Exception:      # noqa: BLE001
                pass
    for root in export.roots_of(expr).values():
        walk(root)
    # distinct by equality
    uniq: list[Any] = []
    for e in order:
        if not any(e == u for u in uniq):
            uniq.append(e)
    return uniq


def build(prog: dict) -> dict:
    import pytato as pt
    from pytato.diagnostic import UnknownIndexLambdaExpr
    from pytato.transform.einsum_distributive_law import (
        DoDistribute,
        DoNotDistribute,
        apply_distributive_property_to_einsums,
    )
    from pytato.transform.remove_broadcasts_einsum import rewrite_einsums_with_no_broadcasts
    pid = prog["id"]
    rng = np.random.default_rng([seed(), abs(hash(pid)) % (2 ** 31)])
    res: dict[str, Any] = {"id": pid, "records": [], "problems": [], "status": "ok",
                           "policies": 0, "refused": {}, "changed": 0}
    pb = rp.PtBackend()
    pb.run(prog)
    if pb.rejections:
        res["status"] = "pytato_rejects:" + str(next(iter(pb.rejections.values())))[:80]
        return res
    expr = pt.transform.deduplicate(pt.make_dict_of_named_arrays(pb.outs()))
    try:
        ga, inputs = export.export_graph(expr)
        vals = export.make_valuations(inputs, 3, rng)
    except export.Unsupported as ex:
        res["status"] = f"unsupported:{ex}"
        return res
    eins = einsums_of(expr)
    options = [[None, *range(len(e.args))] for e in eins]
    policies = list(itertools.product(*options)) if prog.get("policy") is None \
        else [tuple(prog["policy"])]
    if len(policies) > 80:
        idx = rng.permutation(len(policies))[:80]
        policies = [policies[i] for i in sorted(idx)]

    def transformed(name: str, fn: Any) -> None:
        try:
            new = fn()
        except (RuntimeError, UnknownIndexLambdaExpr, NotImplementedError) as ex:
            k = type(ex).__name__
            res["refused"][k] = res["refused"].get(k, 0) + 1
            return
        except Exception as ex:      # noqa: BLE001
            res["problems"].append({"policy": name, "clause": "raised",
                                    "what": f"{type(ex).__name__}: {ex}"[:300]})
            return
        try:
            gb, ib = export.export_graph(new)
        except export.Unsupported as ex:
            res["refused"]["unsupported_export"] = res["refused"].get(
                "unsupported_export", 0) + 1
            return
        if set(ib) - set(inputs):
            res["problems"].append({"policy": name, "clause": "new_inputs",
                                    "what": str(sorted(set(ib) - set(inputs)))})
            return
        if new is not expr:
            res["changed"] += 1
        # (mixed real / complex programs: the only casts are WIDENING ones, which exact
        # algebra reads as the identity -- PtSem would otherwise treat them as
        # uninterpreted functions, and a rewrite legitimately moves them)
        res["records"].append({"id": f"{pid}|{name}", "rel": "eq", "a": ga, "b": gb,
                               **({"nocast": True} if prog.get("nocast") else {}),
                               "vals": vals, "dtype": True})

    for pol in policies:
        res["policies"] += 1

        def how(e: Any, pol: tuple = pol) -> Any:
            for k, orig in enumerate(eins):
                if e == orig:
                    return DoNotDistribute() if pol[k] is None else DoDistribute(pol[k])
            return DoNotDistribute()
        transformed("dist:" + ",".join("-" if p is None else str(p) for p in pol),
                    lambda how=how: apply_distributive_property_to_einsums(expr, how))
    transformed("nobroadcast", lambda: rewrite_einsums_with_no_broadcasts(expr))
    return res


def _build_many(progs: list[dict]) -> list[dict]:
    return [build(p) for p in progs]


def design_check(run: Run, tier: str = "quick") -> None:
    """M: the rule itself, model-checked (soundness of the allowed operations,
    unsoundness of each neighbour) over GF(5) (quick) / GF(7) (thorough) on a row of an einsum (1x2 by 2)."""
    res = tlc.run_tlc("PtDistLaw", "PtDistLaw.cfg" if tier == "quick" else "PtDistLaw5.cfg",
                      workers=4, timeout=900)
    if res.error or res.violated:
        raise MachineryError(f"design-level check of the distributive rule failed: "
                             f"{res.violated} {res.error}")
    run.coverage["design_states"] = res.distinct
    run.coverage["design_model"] = "PtDistLaw: rule soundness + neighbour unsoundness over GF(5) (quick) / GF(7) (thorough)"


def main(tier: str, only: list[dict] | None = None) -> int:
    run = Run(PROP, tier, "model_checking")
    rng = np.random.default_rng(seed())
    if only is not None:
        progs = only
    else:
        progs = systematic(tier) + shared_operand(tier) + same_object_twice(tier) + complex_parts(tier) + random_nested(
            rng, 60 if tier == "quick" else 2500)
        design_check(run, tier)
    n = NCPU * 4
    with mp.Pool(NCPU) as pool:
        built = [b for chunk in pool.map(_build_many,
                                         [progs[i::n] for i in range(n) if progs[i::n]])
                 for b in chunk]
    by_id = {p["id"]: p for p in progs}
    records: list[dict] = []
    status: dict[str, int] = {}
    refused: dict[str, int] = {}
    npol = changed = 0
    for b in built:
        st = b["status"].split(":")[0]
        status[st] = status.get(st, 0) + 1
        npol += b["policies"]
        changed += b["changed"]
        for k, v in b["refused"].items():
            refused[k] = refused.get(k, 0) + v
        for pr in b["problems"]:
            run.violation(f"{b['id']}|{pr['policy']}|{pr['clause']}",
                          f"{b['id']} policy {pr['policy']}: {pr['clause']}: {pr['what']}",
                          record=dict(by_id[b["id"]]),
                          sig={"clause": pr["clause"], "exc": pr["what"].split(":")[0]})
        records += b["records"]
    val = tlc.validate_records("PtCheck", "PtCheck.cfg", records, timeout=3000, shards=NCPU)
    for rec in records:
        v = val.verdicts[rec["id"]]
        if v == "ok":
            continue
        pid, pol = rec["id"].split("|")
        if v in ("shaperule_a", "poison_a"):
            raise MachineryError(f"the specification cannot evaluate the ORIGINAL graph of "
                                 f"{pid} (clause {v})")
        prog = dict(by_id[pid])
        if pol.startswith("dist:"):
            prog["policy"] = [None if p == "-" else int(p) for p in pol[5:].split(",")]
        forms = pid.split("/")[3:] if pid.startswith("sys/") else []
        run.violation(rec["id"],
                      f"{pid}: rewritten expression ({pol}) differs from the original "
                      f"(clause {v}); calls: {by_id[pid]['calls'][-3:]}",
                      record=prog, observed=v,
                      sig={"clause": v, "rewrite": pol.split(":")[0],
                           "forms": "/".join(forms), "distributed": "dist:" in pol
                           and any(ch.isdigit() for ch in pol)})
    run.coverage.update({
        "states": val.states + run.coverage.get("design_states", 0),
        "transitions": val.transitions,
        "traces_validated_against_impl": len(records),
        "evaluations": npol + len(progs), "distinct_nontrivial": changed,
        "rule": "(expression, policy) pairs; systematic = every operation form at every "
                "operand position of every einsum template x 6 inner forms, all policies; "
                "plus seeded random nested trees; non-trivial = the rewrite returned a "
                "graph different from its input",
        "expressions": len(progs), "policies": npol, "refused": refused, "status": status,
        "exhaustive": False,
    })
    for rec in records[:3]:
        pid = rec["id"].split("|")[0]
        run.sample({"id": rec["id"], "calls": by_id[pid]["calls"],
                    "verdict": val.verdicts[rec["id"]]})
    run.assumptions += ["exact arithmetic in GF(10007), 3 valuations: a false identity of "
                        "degree d passes with probability <= (d/10007)^3",
                        "x/0 := 0 in the field (identities used by the rule hold regardless)"]
    return run.finish()


def replay(rep: dict) -> int:
    return main("quick", only=[rep["record"]])


def selftest(tier: str) -> int:
    """A hand-made wrong rewrite (A@(c/x) -> c/(A@x)) must be rejected."""
    import pytato as pt
    A = pt.make_placeholder("A", (2, 3))
    x = pt.make_placeholder("x", (3,))
    good = pt.make_dict_of_named_arrays({"out0": A @ (x / 3)})
    same = pt.make_dict_of_named_arrays({"out0": (A @ x) / 3})
    wrong_src = pt.make_dict_of_named_arrays({"out0": A @ (3 / x)})
    wrong = pt.make_dict_of_named_arrays({"out0": 3 / (A @ x)})
    rng = np.random.default_rng(0)
    recs = []
    for rid, a, b in [("sound", good, same), ("unsound", wrong_src, wrong)]:
        ga, ia = export.export_graph(a)
        gb, _ = export.export_graph(b)
        recs.append({"id": rid, "rel": "eq", "a": ga, "b": gb,
                     "vals": export.make_valuations(ia, 3, rng)})
    val = tlc.validate_records("PtCheck", "PtCheck.cfg", recs, shards=1)
    ok = val.verdicts["sound"] == "ok" and val.verdicts["unsound"] == "value"
    print("selftest", "passed" if ok else "FAILED", val.verdicts)
    return 0 if ok else 2
