"""C12 -- outlining a function (trace_call) and inlining its calls are
inverse and value-preserving.

G: seeded random caller programs with 1..3 call sites; function bodies are
   random programs over 1..4 parameters, returning an array, a tuple or a
   dict; call sites use positional, keyword and mixed arguments; one
   definition may be called several times with different arguments; bodies
   may call further traced functions (nesting depth <= 3); caller
   placeholders are named like parameters (in__pt_0, in_x, x, ...).
E: each program is replayed three ways through the real code --
     (a) direct application f(args),
     (b) trace_call(f, args),
     (c) inline_calls(tag_all_calls_to_be_inlined(b)) --
   and TLC decides, on the exported graphs, (a) = (b) (PtSem's call
   semantics: the body evaluated under the parameter binding, in its own name
   space) and (a) = (c), same shapes and dtypes, and that (c) is call-free.
   NumPy executing the same program directly is the third voice for shapes
   and dtypes.
"""
from __future__ import annotations

import multiprocessing as mp
from typing import Any

import numpy as np

from ptverif import export, progspace, tlc
from ptverif import replay as rp
from ptverif.common import NCPU, MachineryError, Run, seed

PROP = "C12"

BODY_OPS = (progspace.ALPHABET["elementwise"] + progspace.ALPHABET["reduce"]
            + progspace.ALPHABET["remap"] + ["matmul", "zeros_like", "ones_like"])
ADVERSARIAL_NAMES = ["x", "y", "in_x", "in__pt_0", "in__pt_1", "in_a", "a", "_", "_0"]
KW_NAMES = ["x", "a", "b", "in_x", "y"]


# --------------------------------------------------------------------------
# backends that understand function definitions

class CallMixin:
    """Adds {"op": "trace_call"} and {"op": "item"} to a backend.
    self.mode: "direct" | "trace" | "numpy" """

    mode = "direct"

    def run_body(self, fi: int, args: list, kwargs: dict) -> Any:
        body = self.prog["funcs"][fi]
        sub = type(self).__new__(type(self))
        sub.__dict__.update({k: v for k, v in self.__dict__.items()
                             if k not in ("values", "rejections")})
        sub.values = list(args) + [kwargs[k] for k in body["kwparams"]]
        sub.rejections = {}
        for call in body["calls"]:
            sub.values.append(sub.call(call))
        r = body["ret"]
        if r["type"] == "array":
            return sub.values[r["v"] - 1]
        if r["type"] == "tuple":
            return tuple(sub.values[k - 1] for k in r["v"])
        return {k: sub.values[v - 1] for k, v in r["v"].items()}

    def _call(self, c: dict) -> Any:
        if c["op"] == "trace_call":
            args = [self.get(a) for a in c["args"]]
            kwargs = {k: self.get(v) for k, v in c["kw"].items()}
            if self.mode == "trace":
                import pytato as pt

                def f(*a: Any, **kw: Any) -> Any:
                    return self.run_body(c["f"], list(a), kw)
                # identifier dimension: every definition its own name (default), ONE name
                # for all definitions of the program (two closures of one factory, two
                # lambdas, one function traced for other shapes), or no identifier tag
                ident = self.prog.get("ident", "own")
                f.__name__ = "fn" if ident == "shared" else f"fn{c['f']}"
                if ident == "none":
                    return pt.trace_call(f, *args, identifier=None, **kwargs)
                return pt.trace_call(f, *args, **kwargs)
            return self.run_body(c["f"], args, kwargs)
        if c["op"] == "item":
            v = self.get(c["a"])
            if c["key"] is None:
                return v
            return v[c["key"]]
        return super()._call(c)       # type: ignore[misc]


class PtCalls(CallMixin, rp.PtBackend):
    pass


class NpCalls(CallMixin, rp.NpBackend):
    mode = "numpy"


# --------------------------------------------------------------------------
# generation

class Gen(progspace._Gen):
    """_Gen that can also emit trace_call / item (evaluated with NumPy)."""

    def __init__(self, rng: np.random.Generator, funcs: list[dict]) -> None:
        super().__init__(rng, ("f8", "f8", "f4", "i4", "b1"))
        self.funcs = funcs

    def try_call(self, call: dict) -> bool:
        if call["op"] not in ("trace_call", "item"):
            return super().try_call(call)
        import warnings
        nb = NpCalls({})
        nb.prog = {"funcs": self.funcs}
        nb.values = [it["np"] for it in self.items]
        nb.rejections = {}
        try:
            with warnings.catch_warnings():
                warnings.simplefilter("ignore")
                v = nb._call(call)
        except Exception:      # noqa: BLE001
            return False
        self.items.append({"kind": "call", "desc": call,
                           "np": v if isinstance(v, np.ndarray) or np.isscalar(v)
                           else None, "bundle": v})
        if isinstance(v, np.generic):
            self.items[-1]["np"] = np.asarray(v)
        return True


def make_function(rng: np.random.Generator, funcs: list[dict], arg_arrays: list[np.ndarray],
                  nkw: int, depth: int) -> int | None:
    """Append a new function definition over parameters typed like arg_arrays."""
    g = Gen(rng, funcs)
    for a in arg_arrays:
        g.add_input(a.shape, export.dt(a.dtype), "ph")
    ncalls = int(rng.integers(1, 5))
    made = tries = 0
    while made < ncalls and tries < 60:
        tries += 1
        if depth > 1 and rng.random() < 0.25:
            if add_call_site(rng, g, funcs, depth - 1):
                made += 1
            continue
        if g.step(BODY_OPS):
            made += 1
    if any(it["kind"] == "input" for it in g.items[len(arg_arrays):]):
        return None       # the body grew extra inputs (not generated here)
    arrs = [k + 1 for k, it in enumerate(g.items) if it["np"] is not None
            and k >= len(arg_arrays)]
    if not arrs:
        return None
    rt = str(rng.choice(["array", "tuple", "dict"]))
    if rt == "array":
        ret: dict[str, Any] = {"type": "array", "v": arrs[-1]}
    elif rt == "tuple":
        k = int(rng.integers(1, 4))
        ret = {"type": "tuple", "v": [arrs[-1]] + [g.pick(arrs + list(range(
            1, len(arg_arrays) + 1))) for _ in range(k - 1)]}
    else:
        names = ["r", "s", "x", "_"][:int(rng.integers(1, 4))]
        ret = {"type": "dict", "v": {n: (arrs[-1] if j == 0 else g.pick(arrs))
                                      for j, n in enumerate(names)}}
    kwnames = [str(n) for n in rng.permutation(KW_NAMES)[:nkw]]
    funcs.append({"nparams": len(arg_arrays), "kwparams": kwnames,
                  "calls": [it["desc"] for it in g.items[len(arg_arrays):]],
                  "ret": ret,
                  "sig": [(list(a.shape), export.dt(a.dtype)) for a in arg_arrays]})
    return len(funcs) - 1


def add_call_site(rng: np.random.Generator, g: Gen, funcs: list[dict], depth: int) -> bool:
    arrs = g.arrays()
    if not arrs:
        return False
    # reuse an existing definition whose signature can be matched, or make one
    fi = None
    if funcs and rng.random() < 0.4:
        cand = int(rng.integers(len(funcs)))
        sig = funcs[cand]["sig"]
        picks = []
        for shape, dtype in sig:
            m = [a for a in arrs if list(g.np_of(a).shape) == shape
                 and export.dt(g.np_of(a).dtype) == dtype]
            if not m:
                picks = []
                break
            picks.append(g.pick(m))
        if picks:
            fi, args = cand, picks
    if fi is None:
        n = int(rng.integers(1, min(4, len(arrs)) + 1))
        args = [g.pick(arrs) for _ in range(n)]
        nkw = int(rng.integers(0, n + 1)) if rng.random() < 0.6 else 0
        fi = make_function(rng, funcs, [g.np_of(a) for a in args], nkw, depth)
        if fi is None:
            return False
    f = funcs[fi]
    npos = f["nparams"] - len(f["kwparams"])
    call = {"op": "trace_call", "f": fi, "args": args[:npos],
            "kw": dict(zip(f["kwparams"], args[npos:]))}
    if not g.try_call(call):
        return False
    bundle_ref = len(g.items)
    keys: list[Any]
    if f["ret"]["type"] == "array":
        keys = [None]
    elif f["ret"]["type"] == "tuple":
        keys = list(range(len(f["ret"]["v"])))
    else:
        keys = list(f["ret"]["v"])
    ok = False
    for key in keys:
        ok = g.try_call({"op": "item", "a": bundle_ref, "key": key}) or ok
    return ok


def random_call_program(rng: np.random.Generator, pid: str) -> dict | None:
    funcs: list[dict] = []
    g = Gen(rng, funcs)
    names = [str(n) for n in rng.permutation(ADVERSARIAL_NAMES)]
    for k in range(int(rng.integers(1, 4))):
        g.add_input(g.pick(progspace._SHAPES[:14]), g.pick(("f8", "f8", "f4", "i4")), "ph")
        g.items[-1]["desc"]["name"] = names[k]
    for _ in range(int(rng.integers(0, 3))):
        g.step(BODY_OPS)
    sites = 0
    for _ in range(int(rng.integers(1, 4))):
        if add_call_site(rng, g, funcs, 3):
            sites += 1
        if rng.random() < 0.5:
            g.step(BODY_OPS)
    if sites == 0:
        return None
    if any(it["kind"] == "input" and it["desc"].get("kind") == "dw" for it in g.items):
        return None
    # outputs: every extracted call result that is an array, plus the last value
    n_in = sum(1 for it in g.items if it["kind"] == "input")
    if any(it["kind"] == "input" for it in g.items[n_in:]):
        return None
    outs = {}
    for k, it in enumerate(g.items):
        if it["kind"] == "call" and it["desc"]["op"] == "item" and it["np"] is not None:
            outs[f"out{len(outs)}"] = k + 1
    last = [k + 1 for k, it in enumerate(g.items) if it["np"] is not None][-1]
    outs[f"out{len(outs)}"] = last
    return {"id": pid, "inputs": [it["desc"] for it in g.items[:n_in]],
            "calls": [it["desc"] for it in g.items[n_in:]], "outs": outs, "funcs": funcs}


# --------------------------------------------------------------------------

def count_kinds(g: dict, kind: str) -> int:
    return sum(1 for nd in g["nodes"] if nd["kind"] == kind)


def build(prog: dict) -> dict:
    import pytato as pt
    from pytato.transform.calls import inline_calls, tag_all_calls_to_be_inlined
    pid = prog["id"]
    rng = np.random.default_rng([seed(), abs(hash(pid)) % (2 ** 31)])
    res: dict[str, Any] = {"id": pid, "records": [], "problems": [], "status": "ok"}
    direct = PtCalls()
    direct.mode = "direct"
    direct.run(prog)
    if direct.rejections:
        res["status"] = "direct_rejected:" + str(next(iter(direct.rejections.values())))[:100]
        return res
    traced = PtCalls()
    traced.mode = "trace"
    traced.run(prog)
    if traced.rejections:
        exc = next(iter(traced.rejections.values()))
        res["problems"].append({"clause": "trace_call_raised",
                                "what": str(exc)[:300],
                                "kw": any(c.get("kw") for c in prog["calls"]
                                          if c["op"] == "trace_call")})
        return res
    a_outs = direct.outs()
    b_outs = traced.outs()
    if not all(isinstance(v, pt.Array) for v in list(a_outs.values()) + list(b_outs.values())):
        res["status"] = "non_array_output"
        return res
    ga_dict = pt.make_dict_of_named_arrays(a_outs)
    gb_dict = pt.make_dict_of_named_arrays(b_outs)
    try:
        # cached mappers report structural duplicates (two equal call sites) as
        # cache collisions by design, so deduplicate first, as code generation does
        gc_dict = inline_calls(tag_all_calls_to_be_inlined(pt.transform.deduplicate(gb_dict)))
    except Exception as ex:      # noqa: BLE001
        res["problems"].append({"clause": "inline_raised",
                                "what": f"{type(ex).__name__}: {ex}"[:300],
                                "detail": ("collision" if "collision" in str(ex) else
                                           "created_duplicate" if "duplicate" in str(ex)
                                           else "other")})
        gc_dict = None
    # a traced / inlined graph that cannot even be READ (a node whose shape or dtype
    # property raises: an operand of the wrong rank substituted in) is ill-formed
    for which, gd in (("traced", gb_dict), ("inlined", gc_dict)):
        if gd is None:
            continue
        try:
            export.export_graph(gd)
        except export.Unsupported:
            pass
        except Exception as ex:      # noqa: BLE001
            res["problems"].append({"clause": f"{which}_graph_ill_formed",
                                    "what": f"{type(ex).__name__}: {ex}"[:300]})
            return res
    # HISTORY: the call sites of the caller's graph were tagged InlineCallTag BY HAND before
    # (the calls inside function bodies were not): tag_all_calls_to_be_inlined must still
    # reach every other call, and inlining must leave no call behind
    gd_dict = None
    try:
        from pytato.tags import InlineCallTag

        class PreTagger(pt.transform.CopyMapper):
            def map_call(self, expr: Any) -> Any:
                return super().map_call(expr).tagged(InlineCallTag())

            def clone_for_callee(self, function: Any) -> Any:
                return pt.transform.CopyMapper(_function_cache=self._function_cache)
        pre = PreTagger()(pt.transform.deduplicate(gb_dict))
        gd_dict = inline_calls(tag_all_calls_to_be_inlined(pre))
    except Exception as ex:      # noqa: BLE001
        res["problems"].append({"clause": "inline_after_pretagging_raised",
                                "what": f"{type(ex).__name__}: {ex}"[:300], "detail": "other"})
    if gd_dict is not None:
        try:
            gdx = export.export_graph(gd_dict)[0]
            if count_kinds(gdx, "ncr") or gdx["funcs"]:
                res["problems"].append({
                    "clause": "calls_left_after_inlining_pretagged",
                    "what": f"{count_kinds(gdx, 'ncr')} call results remain when the caller's "
                            f"call sites had been tagged by hand beforehand"})
        except export.Unsupported:
            pass
        except Exception as ex:      # noqa: BLE001
            res["problems"].append({"clause": "pretagged_graph_ill_formed",
                                    "what": f"{type(ex).__name__}: {ex}"[:300]})
    try:
        ga, ia = export.export_graph(ga_dict)
        gb, ib = export.export_graph(gb_dict)
        gc = export.export_graph(gc_dict)[0] if gc_dict is not None else None
        inputs = dict(ia)
        inputs.update(ib)
        vals = export.make_valuations(inputs, 2, rng)
    except export.Unsupported as ex:
        res["status"] = f"unsupported:{ex}"
        return res
    res["ncalls_traced"] = count_kinds(gb, "ncr")
    res["records"].append({"id": pid + "#traced", "rel": "eq", "a": ga, "b": gb,
                           "vals": vals, "dtype": True})
    if gc is not None:
        res["records"].append({"id": pid + "#inlined", "rel": "eq", "a": ga, "b": gc,
                               "vals": vals, "dtype": True})
        if count_kinds(gc, "ncr") or gc["funcs"]:
            res["problems"].append({"clause": "calls_left_after_inlining",
                                    "what": f"{count_kinds(gc, 'ncr')} call results remain"})
    # NumPy voice for shapes / dtypes of (a)
    import warnings
    nb = NpCalls({i["name"]: np.ones(i["shape"], rp.DT[i["dtype"]]) for i in prog["inputs"]})
    with warnings.catch_warnings():
        warnings.simplefilter("ignore")
        nb.run(prog)
    if not nb.rejections:
        for k, v in nb.outs().items():
            v = np.asarray(v)
            if tuple(v.shape) != tuple(b_outs[k].shape):
                res["problems"].append({"clause": "shape_vs_numpy",
                                        "what": f"{k}: {b_outs[k].shape} vs {v.shape}"})
    return res


def _build_many(progs: list[dict]) -> list[dict]:
    return [build(p) for p in progs]


def directed_ident() -> list[dict]:
    """DIFFERENT definitions with one FunctionIdentifier, the same parameter names and
    the same return type in one graph (closures of one factory, two lambdas, one Python
    function traced for other shapes / dtypes): they must stay different functions in
    every mapper that caches per definition."""
    def inp(name: str, shape: tuple, dtype: str = "f8") -> dict:
        return {"kind": "ph", "name": name, "shape": list(shape), "dtype": dtype}
    two = 2
    bodies = {
        "closures": ([{"op": "mul", "a": 1, "b": {"py": "float", "v": "2.0"}}],
                     [{"op": "mul", "a": 1, "b": {"py": "float", "v": "-3.0"}}], 1),
        "lambdas": ([{"op": "add", "a": 1, "b": 2}, {"op": "mul", "a": 3, "b": 3}],
                    [{"op": "add", "a": 1, "b": 2}, {"op": "sub", "a": 1, "b": 2},
                     {"op": "mul", "a": 3, "b": 4}], two),
        "swapped": ([{"op": "sub", "a": 1, "b": 2}], [{"op": "sub", "a": 2, "b": 1}], two),
    }
    out = []
    for name, (b0, b1, nparams) in bodies.items():
        for rt in ("array", "tuple", "dict"):
            def ret(body: list) -> dict:
                v = nparams + len(body)
                return {"array": {"type": "array", "v": v}, "tuple": {"type": "tuple", "v": [v]},
                        "dict": {"type": "dict", "v": {"r": v}}}[rt]
            key = {"array": None, "tuple": 0, "dict": "r"}[rt]
            sig = [([3], "f8")] * nparams
            funcs = [{"nparams": nparams, "kwparams": [], "calls": b, "ret": ret(b), "sig": sig}
                     for b in (b0, b1)]
            args = [1, 2][:nparams]
            calls = [{"op": "trace_call", "f": 0, "args": args, "kw": {}},
                     {"op": "item", "a": 3, "key": key},
                     {"op": "trace_call", "f": 1, "args": args, "kw": {}},
                     {"op": "item", "a": 5, "key": key},
                     {"op": "add", "a": 4, "b": 6}]
            for ident in ("shared", "own", "none"):
                out.append({"id": f"ident_{name}_{rt}_{ident}", "ident": ident,
                            "inputs": [inp("x", (3,)), inp("y", (3,))], "calls": calls,
                            "outs": {"out0": 4, "out1": 6, "out2": 7}, "funcs": funcs})
    # one body traced for operands of another shape / dtype
    body = [{"op": "add", "a": 1, "b": {"py": "float", "v": "1.0"}},
            {"op": "sum", "a": 2, "axis": None}]
    for sh, dt2 in (((2, 3), "f8"), ((3,), "f4")):
        funcs = [{"nparams": 1, "kwparams": [], "calls": body, "ret": {"type": "array", "v": 3},
                  "sig": [([3], "f8")]},
                 {"nparams": 1, "kwparams": [], "calls": body, "ret": {"type": "array", "v": 3},
                  "sig": [(list(sh), dt2)]}]
        calls = [{"op": "trace_call", "f": 0, "args": [1], "kw": {}},
                 {"op": "item", "a": 3, "key": None},
                 {"op": "trace_call", "f": 1, "args": [2], "kw": {}},
                 {"op": "item", "a": 5, "key": None}]
        for ident in ("shared", "own"):
            out.append({"id": f"ident_poly_{'x'.join(map(str, sh))}_{dt2}_{ident}", "ident": ident,
                        "inputs": [inp("x", (3,)), inp("y", sh, dt2)], "calls": calls,
                        "outs": {"out0": 4, "out1": 6}, "funcs": funcs})
    return out


def directed_nested() -> list[dict]:
    """(i) a NESTED call whose k-th argument is not the enclosing function's k-th parameter
    (g(b, a) inside f(a, b); g(b, a*b, a); three levels); (ii) a tuple / dict-returning
    function in which an EQUAL sub-term is written out once per output (two equal but
    distinct objects in one body), or both results of one nested call feed different
    outputs."""
    def inp(name: str, shape: tuple = (3,), dtype: str = "f8") -> dict:
        return {"kind": "ph", "name": name, "shape": list(shape), "dtype": dtype}
    sig2 = [([3], "f8")] * 2
    two = {"py": "float", "v": "2.0"}
    out = []
    # g(u, v) = u - 2 v ;  f(a, b) = g(b, a) * a
    g = {"nparams": 2, "kwparams": [], "sig": sig2, "ret": {"type": "array", "v": 4},
         "calls": [{"op": "mul", "a": 2, "b": two}, {"op": "sub", "a": 1, "b": 3}]}
    f_swap = {"nparams": 2, "kwparams": [], "sig": sig2, "ret": {"type": "array", "v": 5},
              "calls": [{"op": "trace_call", "f": 0, "args": [2, 1], "kw": {}},
                        {"op": "item", "a": 3, "key": None}, {"op": "mul", "a": 4, "b": 1}]}
    # g3(u, v, w) = u - 2 v + w ;  f3(a, b) = g3(b, a*b, a)
    g3 = {"nparams": 3, "kwparams": [], "sig": [([3], "f8")] * 3,
          "ret": {"type": "array", "v": 6},
          "calls": [{"op": "mul", "a": 2, "b": two}, {"op": "sub", "a": 1, "b": 4},
                    {"op": "add", "a": 5, "b": 3}]}
    f3 = {"nparams": 2, "kwparams": [], "sig": sig2, "ret": {"type": "array", "v": 5},
          "calls": [{"op": "mul", "a": 1, "b": 2},
                    {"op": "trace_call", "f": 0, "args": [2, 3, 1], "kw": {}},
                    {"op": "item", "a": 4, "key": None}]}
    # third level: h(a, b) = f_swap(b, a) + a
    h = {"nparams": 2, "kwparams": [], "sig": sig2, "ret": {"type": "array", "v": 5},
         "calls": [{"op": "trace_call", "f": 1, "args": [2, 1], "kw": {}},
                   {"op": "item", "a": 3, "key": None}, {"op": "add", "a": 4, "b": 1}]}
    top = [{"op": "trace_call", "f": None, "args": [1, 2], "kw": {}},
           {"op": "item", "a": 3, "key": None}]
    for name, funcs, fi in (("swap", [g, f_swap], 1), ("three_args", [g3, f3], 1),
                            ("depth3", [g, f_swap, h], 2)):
        calls = [dict(top[0], f=fi), top[1]]
        out.append({"id": f"nested_{name}", "inputs": [inp("x"), inp("y")], "calls": calls,
                    "outs": {"out0": 4}, "funcs": funcs})
    # equal sub-terms written out once per output
    for rt in ("tuple", "dict"):
        ret = {"type": "tuple", "v": [4, 6]} if rt == "tuple" else \
            {"type": "dict", "v": {"r": 4, "s": 6}}
        keys = [0, 1] if rt == "tuple" else ["r", "s"]
        eqf = {"nparams": 2, "kwparams": [], "sig": sig2, "ret": ret,
               "calls": [{"op": "add", "a": 1, "b": 2}, {"op": "mul", "a": 3, "b": two},
                         {"op": "add", "a": 1, "b": 2}, {"op": "mul", "a": 5, "b": 2}]}
        calls = [{"op": "trace_call", "f": 0, "args": [1, 2], "kw": {}},
                 {"op": "item", "a": 3, "key": keys[0]}, {"op": "item", "a": 3, "key": keys[1]},
                 {"op": "sub", "a": 4, "b": 5}]
        out.append({"id": f"equal_subterm_per_output_{rt}", "inputs": [inp("x"), inp("y")],
                    "calls": calls, "outs": {"out0": 4, "out1": 5, "out2": 6}, "funcs": [eqf]})
    # both results of ONE nested call used by different outputs of the caller function
    g2 = {"nparams": 2, "kwparams": [], "sig": sig2, "ret": {"type": "tuple", "v": [3, 4]},
          "calls": [{"op": "add", "a": 1, "b": 2}, {"op": "mul", "a": 1, "b": 2}]}
    f2 = {"nparams": 2, "kwparams": [], "sig": sig2, "ret": {"type": "tuple", "v": [6, 7]},
          "calls": [{"op": "trace_call", "f": 0, "args": [1, 2], "kw": {}},
                    {"op": "item", "a": 3, "key": 0}, {"op": "item", "a": 3, "key": 1},
                    {"op": "mul", "a": 4, "b": two}, {"op": "sub", "a": 5, "b": 1}]}
    calls = [{"op": "trace_call", "f": 1, "args": [1, 2], "kw": {}},
             {"op": "item", "a": 3, "key": 0}, {"op": "item", "a": 3, "key": 1}]
    out.append({"id": "nested_both_results", "inputs": [inp("x"), inp("y")], "calls": calls,
                "outs": {"out0": 4, "out1": 5}, "funcs": [g2, f2]})
    return out


def programs(tier: str) -> list[dict]:
    rng = np.random.default_rng(seed())
    n = 300 if tier == "quick" else 4000
    out: list[dict] = []
    tries = 0
    while len(out) < n and tries < n * 5:
        tries += 1
        p = random_call_program(rng, f"c{len(out)}")
        if p is not None:
            p["ident"] = ("own", "own", "shared", "none")[len(out) % 4]
            out.append(p)
    return directed_ident() + directed_nested() + out


def main(tier: str, only: list[dict] | None = None) -> int:
    run = Run(PROP, tier, "model_checking")
    progs = only if only is not None else programs(tier)
    n = NCPU * 4
    with mp.Pool(NCPU) as pool:
        built = [b for chunk in pool.map(_build_many,
                                         [progs[i::n] for i in range(n) if progs[i::n]])
                 for b in chunk]
    by_id = {p["id"]: p for p in progs}
    records: list[dict] = []
    status: dict[str, int] = {}
    feats = {"kw_sites": 0, "nested": 0, "repeated_def": 0, "tuple_ret": 0, "dict_ret": 0}
    for p in progs:
        sites = [c for c in p["calls"] if c["op"] == "trace_call"]
        feats["kw_sites"] += any(c["kw"] for c in sites)
        feats["nested"] += any(c["op"] == "trace_call" for f in p["funcs"] for c in f["calls"])
        feats["repeated_def"] += len({c["f"] for c in sites}) < len(sites)
        feats["tuple_ret"] += any(f["ret"]["type"] == "tuple" for f in p["funcs"])
        feats["dict_ret"] += any(f["ret"]["type"] == "dict" for f in p["funcs"])
    ncr = 0
    for b in built:
        st = b["status"].split(":")[0]
        status[st] = status.get(st, 0) + 1
        ncr += b.get("ncalls_traced", 0)
        for pr in b["problems"]:
            run.violation(f"{b['id']}|{pr['clause']}",
                          f"{b['id']}: {pr['clause']}: {pr['what']}", record=by_id[b["id"]],
                          sig={"clause": pr["clause"], "kw": pr.get("kw"),
                               "detail": pr.get("detail"),
                               "exc": pr["what"].split(":")[0][:40]})
        records += b["records"]
    val = tlc.validate_records("PtCheck", "PtCheck.cfg", records, timeout=3000, shards=NCPU)
    for rec in records:
        v = val.verdicts[rec["id"]]
        if v == "ok":
            continue
        pid, which = rec["id"].split("#")
        if v in ("shaperule_a", "poison_a"):
            raise MachineryError(f"the specification cannot evaluate the directly applied "
                                 f"program {pid} (clause {v})")
        run.violation(rec["id"], f"{pid}: {which} graph differs from direct application "
                                 f"(clause {v})", record=by_id[pid], observed=v,
                      sig={"clause": v, "which": which})
    run.coverage.update({
        "states": val.states, "transitions": val.transitions,
        "traces_validated_against_impl": len(records),
        "evaluations": len(progs), "distinct_nontrivial": sum(
            1 for b in built if len(b["records"]) == 2),
        "rule": "seeded random caller programs with 1..3 call sites; non-trivial = both the "
                "traced and the inlined graph reached TLC",
        "status": status, "features": feats, "call_results_in_traced_graphs": ncr,
        "exhaustive": False,
    })
    for p in progs[:2]:
        run.sample({k: p[k] for k in ("id", "inputs", "calls", "funcs", "outs")})
    run.assumptions += ["values exact in GF(10007) with uninterpreted functions, 2 injective "
                        "valuations", "function bodies are restricted to static shapes"]
    return run.finish()


def replay(rep: dict) -> int:
    return main("quick", only=[rep["record"]])


def selftest(tier: str) -> int:
    """Swap two bindings of an exported call and require rejection."""
    import copy
    prog = {"id": "st", "inputs": [progspace.inp("x", (3,)), progspace.inp("y", (3,))],
            "funcs": [{"nparams": 2, "kwparams": [], "sig": [],
                       "calls": [{"op": "sub", "a": 1, "b": 2}],
                       "ret": {"type": "array", "v": 3}}],
            "calls": [{"op": "trace_call", "f": 0, "args": [1, 2], "kw": {}},
                      {"op": "item", "a": 3, "key": None}],
            "outs": {"out0": 4}}
    b = build(prog)
    rec = b["records"][0]
    bad = copy.deepcopy(rec)
    bad["id"] = "corrupted"
    for nd in bad["b"]["nodes"]:
        if nd["kind"] == "ncr":
            ks = sorted(nd["bind"])
            nd["bind"][ks[0]], nd["bind"][ks[1]] = nd["bind"][ks[1]], nd["bind"][ks[0]]
    val = tlc.validate_records("PtCheck", "PtCheck.cfg", [rec, bad], shards=1)
    ok = val.verdicts[rec["id"]] == "ok" and val.verdicts["corrupted"] == "value"
    print("selftest", "passed" if ok else "FAILED", val.verdicts)
    return 0 if ok else 2
