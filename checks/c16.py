"""C16 -- symbolic shapes: decisions are sound and one kernel serves every
size.

M: spec/PtAffine.tla -- TLC proves over ALL pairs of affine forms with
   coefficients in [-3,3] over 1 and 2 parameters that coefficient equality
   coincides with equality on an affinely spanning grid of non-negative
   valuations (so "equal for all non-negative parameter values" is decided
   completely by the coefficients).
E: the same pairs (exhaustive for 1 and 2 parameters in the thorough tier,
   sampled for 3) are built from SizeParam arithmetic and the real
   are_shape_components_equal is asked; each pair is also used as axis lengths
   in broadcasting, stacking and einsum axis matching, whose accept/reject
   must follow the verdict; TLC validates every recorded decision against
   PtAffine!CoeffEq.
G: templates over symbolic-shape placeholders (elementwise with
   broadcasting, transpose, roll, stack, concatenate, einsum, reductions over
   static axes, full/zeros, where): the inferred shape of every output,
   evaluated by TLC (PtSem on the exported shape expressions) at every
   valuation, must equal the concrete NumPy shape; ONE compiled kernel per
   template is executed at all those sizes and compared with NumPy.
"""
from __future__ import annotations

import itertools
import multiprocessing as mp
from typing import Any

import numpy as np

from ptverif import export, runprog, tlc
from ptverif.common import NCPU, MachineryError, Run, robust_map, seed

PROP = "C16"
PARAMS = ["n", "m", "k"]


# --------------------------------------------------------------------------
# (1) equality decisions

def form_to_pt(f: tuple[int, ...], params: list[Any]) -> Any:
    """c0 + sum c_i * p_i as a pytato shape component (int when constant)."""
    expr: Any = int(f[0])
    for c, p in zip(f[1:], params):
        if c:
            expr = expr + int(c) * p
    return expr


def presentation(f: tuple[int, ...], params: list[Any], how: str) -> Any:
    """The same affine function, written differently: a parameter that cancels
    (.. + p - p), a coefficient split ((c+1)*p - p), summands in reverse order."""
    if how == "canonical":
        return form_to_pt(f, params)
    if how == "cancel":
        k = next((i for i, c in enumerate(f[1:]) if c == 0), len(f) - 2)
        return (form_to_pt(f, params) + params[k]) - params[k]
    if how == "split":
        expr: Any = int(f[0])
        for c, p in zip(f[1:], params):
            expr = (expr + (int(c) + 1) * p) - p
        return expr
    if how == "reversed":
        expr = 0
        for c, p in reversed(list(zip(f[1:], params))):
            if c:
                expr = int(c) * p + expr
        return expr + int(f[0])
    raise ValueError(how)


def decide(pair: tuple) -> dict:
    import pytato as pt
    from pytato.utils import are_shape_components_equal
    pid, f, g = pair[:3]
    how = pair[3] if len(pair) > 3 else ("canonical", "canonical")
    params = [pt.make_size_param(nm) for nm in PARAMS[:len(f) - 1]]
    a, b = presentation(f, params, how[0]), presentation(g, params, how[1])
    rec: dict[str, Any] = {"id": pid, "a": list(f), "b": list(g)}
    try:
        rec["equal"] = bool(are_shape_components_equal(a, b))
    except Exception as ex:      # noqa: BLE001
        rec["equal"] = False
        rec["error"] = f"{type(ex).__name__}: {ex}"[:200]
        return rec
    # use the two forms as axis lengths (only forms that are positive on the grid
    # make sense as shapes; the decision itself does not depend on that)
    if all(c >= 0 for c in f) and all(c >= 0 for c in g) and f[0] + sum(f[1:]) > 0 \
            and g[0] + sum(g[1:]) > 0 and (f[0] > 0 or any(f[1:])) and (g[0] > 0 or any(g[1:])):
        try:
            x = pt.make_placeholder("x", (a,), np.float64)
            y = pt.make_placeholder("y", (b,), np.float64)
        except Exception:      # noqa: BLE001
            return rec
        for key, fn in [("bcast", lambda: x + y), ("stack", lambda: pt.stack([x, y])),
                        ("einsum", lambda: pt.einsum("i,i->i", x, y))]:
            try:
                fn()
                rec[key] = True
            except Exception:      # noqa: BLE001
                rec[key] = False
    return rec


def _decide_many(pairs: list) -> list[dict]:
    return [decide(p) for p in pairs]


def pairs(tier: str) -> tuple[list, bool]:
    rng = np.random.default_rng(seed())
    C = range(-3, 4)
    out = []
    f1 = list(itertools.product(C, repeat=2))
    out += [(f"p1/{f}/{g}", f, g) for f in f1 for g in f1]
    f2 = list(itertools.product(C, repeat=3))
    all2 = [(f"p2/{f}/{g}", f, g) for f in f2 for g in f2]
    if tier == "thorough":
        out += all2
    else:
        out += [all2[i] for i in sorted(rng.permutation(len(all2))[:3000])]
        # near-equal pairs are what matters: differ in exactly one coefficient
        for f in f2[::3]:
            k = int(rng.integers(3))
            g = list(f)
            g[k] = max(-3, min(3, g[k] + int(rng.choice([-1, 1]))))
            out.append((f"p2n/{f}/{tuple(g)}", f, tuple(g)))
            out.append((f"p2e/{f}", f, f))
    f3 = list(itertools.product(C, repeat=4))
    for i in rng.permutation(len(f3))[:(1500 if tier == "quick" else 20000)]:
        f = f3[int(i)]
        g = list(f)
        if rng.random() < 0.6:
            k = int(rng.integers(4))
            g[k] = max(-3, min(3, g[k] + int(rng.choice([-1, 1]))))
        out.append((f"p3/{f}/{tuple(g)}", f, tuple(g)))
    # the same pairs in other syntactic presentations (the decision must not depend
    # on how a form is written)
    hows = ["cancel", "split", "reversed"]
    base = [p for p in out if p[0].startswith(("p2n", "p2e", "p3"))]
    base += [p for p in out if p[0].startswith("p2/")][:(400 if tier == "quick" else 20000)]
    for q, (pid, f, g) in enumerate(base):
        h = (hows[q % 3], "canonical") if q % 2 else ("canonical", hows[q % 3])
        out.append((f"{pid}~{h[0]}-{h[1]}", f, g, h))
    seen = set()
    out = [p for p in out if not (p[0] in seen or seen.add(p[0]))]
    return out, tier == "thorough"


# --------------------------------------------------------------------------
# (2) programs over symbolic shapes

def templates() -> list[dict]:
    """Each template: params, inputs {name: (shape spec, dtype)}, build(pt, ins,
    params) -> dict of outputs, ref(np inputs, sizes) -> dict."""
    T = []

    def add(name: str, params: list[str], inputs: dict, build: Any, ref: Any) -> None:
        T.append({"name": name, "params": params, "inputs": inputs, "build": build,
                  "ref": ref})

    add("add", ["n"], {"x": (("n",), "f8"), "y": (("n",), "f8")},
        lambda pt, i, p: {"o": i["x"] + i["y"] * 2},
        lambda v, s: {"o": v["x"] + v["y"] * 2})
    add("bcast", ["n", "m"], {"x": (("n", "m"), "f8"), "y": (("m",), "f8")},
        lambda pt, i, p: {"o": i["x"] + i["y"], "q": i["x"] * 2},
        lambda v, s: {"o": v["x"] + v["y"], "q": v["x"] * 2})
    add("outer", ["n", "m"], {"x": (("n", 1), "f8"), "y": ((1, "m"), "f8")},
        lambda pt, i, p: {"o": i["x"] * i["y"]},
        lambda v, s: {"o": v["x"] * v["y"]})
    add("transpose", ["n", "m"], {"x": (("n", "m"), "f8")},
        lambda pt, i, p: {"o": pt.transpose(i["x"], (1, 0)) + 1},
        lambda v, s: {"o": v["x"].T + 1})
    add("roll", ["n"], {"x": (("n", 3), "f8")},
        lambda pt, i, p: {"o": pt.roll(i["x"], 2, 0), "q": pt.roll(i["x"], -1, 1)},
        lambda v, s: {"o": np.roll(v["x"], 2, 0), "q": np.roll(v["x"], -1, 1)})
    add("stack", ["n"], {"x": (("n",), "f8"), "y": (("n",), "f8")},
        lambda pt, i, p: {"o": pt.stack([i["x"], i["y"]], axis=0),
                          "q": pt.stack([i["x"], i["y"]], axis=1)},
        lambda v, s: {"o": np.stack([v["x"], v["y"]], 0), "q": np.stack([v["x"], v["y"]], 1)})
    # (concatenate along a symbolic axis is not among the operations the property
    # lists as admitting symbolic axes; its lowering subtracts an Array offset)
    add("matvec", ["n", "m"], {"A": (("n", "m"), "f8"), "v": (("m",), "f8")},
        lambda pt, i, p: {"o": pt.einsum("ij,j->i", i["A"], i["v"])},
        lambda v, s: {"o": v["A"] @ v["v"]})
    add("matmul", ["n", "m"], {"A": (("n", "m"), "f8"), "B": (("m", 3), "f8")},
        lambda pt, i, p: {"o": i["A"] @ i["B"]},
        lambda v, s: {"o": v["A"] @ v["B"]})
    add("frob", ["n", "m"], {"A": (("n", "m"), "f8"), "B": (("n", "m"), "f8")},
        lambda pt, i, p: {"o": pt.einsum("ij,ij->", i["A"], i["B"])},
        lambda v, s: {"o": (v["A"] * v["B"]).sum()})
    add("redn_static", ["n"], {"x": (("n", 3), "f8")},
        lambda pt, i, p: {"o": pt.sum(i["x"], axis=1), "q": pt.amax(i["x"], axis=1)},
        lambda v, s: {"o": v["x"].sum(1), "q": v["x"].max(1)})
    add("zeros_full", ["n", "m"], {"x": (("n", "m"), "f8")},
        lambda pt, i, p: {"o": pt.zeros((p["n"], p["m"])) + i["x"],
                          "q": pt.full((p["m"],), 2.5) * 2},
        lambda v, s: {"o": v["x"], "q": np.full((s["m"],), 5.0)})
    add("where", ["n"], {"x": (("n",), "f8"), "y": (("n",), "f8")},
        lambda pt, i, p: {"o": pt.where(pt.greater(i["x"], 0), i["x"], i["y"])},
        lambda v, s: {"o": np.where(v["x"] > 0, v["x"], v["y"])})
    add("affine_len", ["n"], {"x": ((("n", 2, 1),), "f8"), "y": ((("n", 2, 1),), "f8")},
        lambda pt, i, p: {"o": i["x"] - i["y"]},
        lambda v, s: {"o": v["x"] - v["y"]})
    add("maximum", ["n", "m"], {"x": (("n", "m"), "f8"), "y": (("n", 1), "f8")},
        lambda pt, i, p: {"o": pt.maximum(i["x"], i["y"])},
        lambda v, s: {"o": np.maximum(v["x"], v["y"])})
    # the SAME length written in two ways on the two operands of one operation
    # (n+m / m+n, 2n / n+n, n+1 / 1+n): the decision "equal" must also reach the
    # generated subscripts (a[i] + b[i], not a[i] + b[0])
    nm_f = {"coef": [("n", 1), ("m", 1)], "off": 0, "how": "fwd"}
    nm_r = {"coef": [("n", 1), ("m", 1)], "off": 0, "how": "rev"}
    n2_f = {"coef": [("n", 2)], "off": 0, "how": "fwd"}
    n2_s = {"coef": [("n", 2)], "off": 0, "how": "addself"}
    n1_f = {"coef": [("n", 1)], "off": 1, "how": "fwd"}
    n1_r = {"coef": [("n", 1)], "off": 1, "how": "rev"}
    add("written_nm", ["n", "m"], {"x": ((nm_f,), "f8"), "y": ((nm_r,), "f8")},
        lambda pt, i, p: {"o": i["x"] + i["y"], "q": pt.where(pt.greater(i["x"], 0), i["y"],
                                                              i["x"])},
        lambda v, s: {"o": v["x"] + v["y"], "q": np.where(v["x"] > 0, v["y"], v["x"])})
    add("written_2n", ["n"], {"x": ((n2_f, 3), "f8"), "y": ((n2_s, 1), "f8")},
        lambda pt, i, p: {"o": i["x"] * i["y"], "q": pt.maximum(i["y"], i["x"])},
        lambda v, s: {"o": v["x"] * v["y"], "q": np.maximum(v["y"], v["x"])})
    add("written_n1", ["n"], {"x": ((n1_f,), "f8"), "y": ((n1_r,), "f8"),
                              "A": ((n1_r, n1_f), "f8")},
        lambda pt, i, p: {"o": i["x"] - i["y"], "q": pt.einsum("ij,j->i", i["A"], i["x"]),
                          "r": pt.stack([i["x"], i["y"]], axis=0)},
        lambda v, s: {"o": v["x"] - v["y"], "q": v["A"] @ v["x"],
                      "r": np.stack([v["x"], v["y"]], 0)})
    # a contracted einsum index on a unit axis of one operand and a symbolic
    # extent in the other (the reduction runs over the LONGER extent)
    add("einsum_bcast_redn", ["n", "m"], {"a": (("n", 1), "f8"), "b": (("n", "m"), "f8")},
        lambda pt, i, p: {"o": pt.einsum("ij,ij->i", i["a"], i["b"]),
                          "q": pt.einsum("ij,ij->i", i["b"], i["a"]),
                          "r": pt.einsum("ij,ij->", i["a"], i["b"])},
        lambda v, s: {"o": np.einsum("ij,ij->i", v["a"], v["b"]),
                      "q": np.einsum("ij,ij->i", v["b"], v["a"]),
                      "r": np.einsum("ij,ij->", v["a"], v["b"])})
    add("einsum_bcast_redn3", ["m"], {"a": ((2, 1), "f8"), "b": ((1, "m"), "f8"),
                                      "c": ((2, "m"), "f8")},
        lambda pt, i, p: {"o": pt.einsum("ij,ij,ij->i", i["a"], i["b"], i["c"]),
                          "q": pt.einsum("ij,ij->j", i["a"], i["c"])},
        lambda v, s: {"o": np.einsum("ij,ij,ij->i", v["a"], v["b"], v["c"]),
                      "q": np.einsum("ij,ij->j", v["a"], v["c"])})
    add("two_stage", ["n", "m"], {"A": (("n", "m"), "f8"), "v": (("m",), "f8"),
                                 "w": (("n",), "f8")},
        lambda pt, i, p: {"o": pt.sin(pt.einsum("ij,j->i", i["A"], i["v"])) + i["w"]},
        lambda v, s: {"o": np.sin(v["A"] @ v["v"]) + v["w"]})
    return T


# generated programs over symbolic shapes: a concrete random program is grown
# with MARKER axis lengths (5 and 7, which no static source produces); every
# input axis of length 5 / 7 then becomes the size parameter n / m.  Only
# operations whose parameters do not mention an axis length are used.
MARK = {5: "n", 7: "m"}
GEN_OPS = ["add", "sub", "mul", "truediv", "lt", "where", "maximum", "minimum", "neg", "abs",
           "sin", "exp", "scalar_add", "scalar_mul", "scalar_rsub", "transpose", "roll",
           "stack", "expand_dims", "sum", "sum", "einsum", "matmul"]
GEN_SHAPES = [(5,), (7,), (5, 7), (7, 5), (5, 1), (1, 7), (5, 3), (2, 5), (3, 7), (5, 5),
              (2, 5, 7), (), (3,)]


def generated(rng: np.random.Generator, count: int) -> list[dict]:
    from ptverif import progspace
    out = []
    tries = 0
    while len(out) < count and tries < count * 5:
        tries += 1
        g = progspace._Gen(rng, ("f8",))
        for _ in range(int(rng.integers(1, 4))):
            g.add_input(GEN_SHAPES[int(rng.integers(len(GEN_SHAPES)))], "f8", "ph")
        made = 0
        for _ in range(60):
            before = len(g.items)
            if g.step(GEN_OPS):
                made += sum(1 for it in g.items[before:] if it["kind"] == "call")
            if made >= int(rng.integers(2, 7)):
                break
        if not made:
            continue
        prog = g.finalize(f"gen{len(out)}", int(rng.integers(1, 3)))
        if any(i.get("kind") != "ph" for i in prog["inputs"]):
            continue
        if not any(d in MARK for i in prog["inputs"] for d in i["shape"]):
            continue
        # no call parameter may carry a marker length (shift / axis are small ints)
        import json
        if any(c["op"] not in ("roll",) and (" 5" in json.dumps(c) or " 7" in json.dumps(c))
               and c["op"] in ("reshape", "broadcast_to", "full", "zeros", "ones", "index", "pad")
               for c in prog["calls"]):
            continue
        out.append(prog)
    return out


def template_of_program(prog: dict) -> dict:
    from ptverif import replay as rp
    params = sorted({MARK[d] for i in prog["inputs"] for d in i["shape"] if d in MARK})
    inputs = {i["name"]: (tuple(MARK.get(d, d) for d in i["shape"]), "f8")
              for i in prog["inputs"]}

    class Sym(rp.PtBackend):
        def __init__(self, ins: dict) -> None:
            super().__init__({})
            self.ins = ins

        def make_input(self, inp: dict) -> Any:
            return self.ins[inp["name"]]

    def build(pt: Any, ins: dict, p: dict) -> dict:
        b = Sym(ins)
        b.run(prog)
        if b.rejections:
            raise next(iter(b.rejections.values())).exc
        return b.outs()

    def ref(data: dict, sizes: dict) -> dict:
        import warnings
        nb = rp.NpBackend(data)
        with warnings.catch_warnings():
            warnings.simplefilter("ignore")
            nb.run(prog)
        if nb.rejections:
            raise MachineryError(f"{prog['id']}: NumPy rejects the program at sizes {sizes}: "
                                 f"{next(iter(nb.rejections.values())).exc}")
        return {k: np.asarray(v) for k, v in nb.outs().items()}
    return {"name": prog["id"], "params": params, "inputs": inputs, "build": build,
            "ref": ref}


def dim_to_pt(d: Any, params: dict) -> Any:
    """A shape-component description as a pytato shape component."""
    if isinstance(d, int):
        return d
    if isinstance(d, str):
        return params[d]
    if isinstance(d, dict):         # one affine length, written in a chosen way
        terms = [(c * params[q] if c != 1 else params[q]) for q, c in d["coef"]]
        if d["how"] == "addself":
            terms = [params[q] for q, c in d["coef"] for _ in range(c)]
        if d["off"]:
            terms.append(d["off"])
        if d["how"] == "rev":
            terms.reverse()
        e = terms[0]
        for t in terms[1:]:
            e = e + t
        return e
    name, c, off = d
    return c * params[name] + off


def dim_value(d: Any, sizes: dict) -> int:
    if isinstance(d, int):
        return d
    if isinstance(d, str):
        return sizes[d]
    if isinstance(d, dict):
        return d["off"] + sum(c * sizes[p] for p, c in d["coef"])
    name, c, off = d           # ("n", 2, 1) = 2*n + 1
    return c * sizes[name] + off


def run_template(t: dict) -> dict:
    import pytato as pt

    from ptverif import cexec
    res: dict[str, Any] = {"name": t["name"], "problems": [], "records": [], "runs": 0}
    params = {p: pt.make_size_param(p) for p in t["params"]}

    def dim_pt(d: Any) -> Any:
        return dim_to_pt(d, params)
    try:
        ins = {nm: pt.make_placeholder(nm, tuple(dim_pt(d) for d in shp), np.float64)
               for nm, (shp, _) in t["inputs"].items()}
        outs = t["build"](pt, ins, params)
    except NotImplementedError as ex:
        # a documented refusal (e.g. "Parametric shapes for reduction axes not yet
        # supported"): constrains nothing
        res["refused"] = str(ex)[:100]
        return res
    except Exception as ex:      # noqa: BLE001
        res["problems"].append({"clause": "construction_raised",
                                "what": f"{type(ex).__name__}: {ex}"[:300]})
        return res
    sizes_list = [dict(zip(t["params"], v))
                  for v in itertools.product(t["sizes"], repeat=len(t["params"]))]
    # inferred shapes, judged by TLC: export every symbolic shape component
    rng = np.random.default_rng(abs(hash(t["name"])) % (2 ** 31))
    for oname, o in outs.items():
        for ax, comp in enumerate(o.shape):
            if isinstance(comp, int):
                comp_arr = None
            else:
                comp_arr = comp
            expect = []
            vals = []
            for sizes in sizes_list:
                data = {nm: rng.standard_normal(tuple(dim_value(d, sizes) for d in shp))
                        for nm, (shp, _) in t["inputs"].items()}
                ref = t["ref"](data, sizes)
                expect.append({"out": [int(np.asarray(ref[oname]).shape[ax])]})
                vals.append({p: [sizes[p]] for p in t["params"]})
            if comp_arr is None:
                if any(e["out"][0] != comp for e in expect):
                    res["problems"].append({"clause": "static_shape_component",
                                            "what": f"{oname} axis {ax}: {comp} vs NumPy "
                                                    f"{expect}"})
                continue
            try:
                g, inputs = export.export_graph({"out": comp_arr})
            except export.Unsupported as ex:
                res["problems"].append({"clause": "shape_export", "what": str(ex)})
                continue
            for v in vals:
                for nm in inputs:
                    v.setdefault(nm, [0])
            res["records"].append({"id": f"{t['name']}/{oname}/ax{ax}", "rel": "eq", "a": g,
                                   "b": g, "vals": vals, "expect": expect})
    # one kernel, all sizes
    try:
        bp = cexec.generate(outs)
    except Exception as ex:      # noqa: BLE001
        res["problems"].append({"clause": "generate_loopy_raised",
                                "what": f"{type(ex).__name__}: {ex}"[:300]})
        return res
    res["kernel"] = bp
    for sizes in sizes_list:
        data = {nm: np.asarray(rng.standard_normal(tuple(dim_value(d, sizes) for d in shp)))
                for nm, (shp, _) in t["inputs"].items()}      # (0-d stays 0-d)
        ref = t["ref"](data, sizes)
        try:
            kw = {k: v for k, v in data.items() if k in bp.kernel.arg_dict}
            for p in t["params"]:
                if p in bp.kernel.arg_dict:
                    kw[p] = sizes[p]
            got = bp(**kw)
        except Exception as ex:      # noqa: BLE001
            res["problems"].append({"clause": "execution_raised",
                                    "what": f"sizes {sizes}: {type(ex).__name__}: {ex}"[:300]})
            break
        res["runs"] += 1
        for k, v in ref.items():
            msg = runprog.compare(got[k], np.asarray(v), np.dtype("f8"), 10.0)
            if msg:
                res["problems"].append({"clause": "value", "what": f"{k} at sizes {sizes}: "
                                                                   f"{msg}"})
    res.pop("kernel", None)
    return res


def _run_templates(ts: list[dict]) -> list[dict]:
    # (templates hold lambdas: rebuilt in the worker from their names)
    byname = {t["name"]: t for t in templates()}
    out = []
    for spec in ts:
        t = template_of_program(spec["prog"]) if "prog" in spec else dict(byname[spec["name"]])
        t["sizes"] = spec["sizes"]
        out.append(run_template(t))
    return out


def main(tier: str, only: list[dict] | None = None) -> int:
    run = Run(PROP, tier, "exploration")
    # M: the decision rule itself
    design_states = 0
    for cfg in ["PtAffine1.cfg", "PtAffine2.cfg"]:
        r = tlc.run_tlc("PtAffine", cfg, workers=4, timeout=600)
        if r.error or r.violated:
            raise MachineryError(f"PtAffine ({cfg}): {r.violated} {r.error}")
        design_states += r.distinct
    # E: recorded decisions
    prs, exhaustive = pairs(tier) if only is None else ([tuple(only[0]["pair"])], False) \
        if only and "pair" in only[0] else ([], False)
    k = NCPU * 4
    with mp.Pool(NCPU) as pool:
        recs = [r for chunk in pool.map(_decide_many, [prs[i::k] for i in range(k) if prs[i::k]])
                for r in chunk]
    val = tlc.validate_records("PtAffine", "PtAffineCheck.cfg", recs, timeout=1500)
    used = 0
    for r in recs:
        used += "bcast" in r
        if "error" in r:
            run.violation(r["id"], f"are_shape_components_equal raised for forms {r['a']} "
                                   f"{r['b']}: {r['error']}",
                          record={"pair": [r["id"], r["a"], r["b"]]},
                          sig={"clause": "raised", "exc": r["error"].split(":")[0]})
            continue
        v = val.verdicts[r["id"]]
        if v != "ok":
            run.violation(r["id"], f"forms {r['a']} and {r['b']}: wrong decision ({v}); "
                                   f"recorded {r}", record={"pair": [r["id"], r["a"], r["b"]]},
                          sig={"clause": v, "presentation": r["id"].partition("~")[2]})
    # G: programs over symbolic shapes
    sizes = [1, 2, 3, 5] if tier == "quick" else [1, 2, 3, 4, 5, 6]
    specs = [{"name": t["name"], "sizes": sizes if len(t["params"]) == 1 else
              (sizes if tier == "thorough" else [1, 2, 4])} for t in templates()]
    gen = generated(np.random.default_rng(seed() + 16), 60 if tier == "quick" else 800)
    specs += [{"name": p["id"], "sizes": [1, 2, 4] if tier == "quick" else [1, 2, 3, 6],
               "prog": p} for p in gen]
    if only is not None and only and "prog" in only[0]:
        specs = [{"name": only[0]["prog"]["id"], "sizes": [1, 2, 4], "prog": only[0]["prog"]}]
    elif only is not None and only and "template" in only[0]:
        specs = [s for s in specs if s["name"] == only[0]["template"]]
    elif only is not None:
        specs = []
    prog_of = {s["name"]: s.get("prog") for s in specs}
    tres = robust_map(_run_templates, specs, chunk=1, crashed=lambda sp, why: {
        "name": sp["name"], "records": [], "runs": 0,
        "problems": [{"clause": "execution_crashed", "what": why}]})
    shape_records = [r for t in tres for r in t["records"]]
    sval = tlc.validate_records("PtCheck", "PtCheck.cfg", shape_records, timeout=900) \
        if shape_records else None
    runs = 0
    for t in tres:
        runs += t["runs"]
        for pr in t["problems"]:
            run.violation(f"{t['name']}|{pr['clause']}|{pr['what'][:60]}",
                          f"template {t['name']}: {pr['clause']}: {pr['what']}",
                          record={"prog": prog_of[t["name"]]} if prog_of.get(t["name"])
                          else {"template": t["name"]},
                          sig={"clause": pr["clause"],
                               "template": "generated" if prog_of.get(t["name"])
                               else t["name"], "what": pr["what"][:60]})
    for rec in shape_records:
        v = sval.verdicts[rec["id"]]
        if v != "ok":
            run.violation(rec["id"], f"{rec['id']}: inferred symbolic shape component differs "
                                     f"from the concrete NumPy shape at some valuation "
                                     f"(clause {v})",
                          record={"prog": prog_of[rec["id"].split("/")[0]]}
                          if prog_of.get(rec["id"].split("/")[0])
                          else {"template": rec["id"].split("/")[0]},
                          sig={"clause": "shape:" + v})
    run.coverage.update({
        "evaluations": len(recs) + runs, "distinct_nontrivial": len(recs),
        "rule": "pairs of affine forms (distinct by coefficients) + (template, size "
                "valuation) kernel executions; every pair is non-trivial in that the real "
                "decision is compared with the specification's",
        "pairs": len(recs), "pairs_used_as_axis_lengths": used,
        "pairs_exhaustive_for_1_and_2_params": exhaustive,
        "templates": len(specs), "generated_symbolic_programs": len(gen),
        "documented_refusals": sum(1 for t in tres if t.get("refused")),
        "kernel_runs": runs,
        "shape_components_judged_by_tlc": len(shape_records),
        "states": design_states + val.states + (sval.states if sval else 0),
        "transitions": val.transitions, "design_states": design_states,
        "traces_validated_against_impl": len(recs) + len(shape_records),
        "exhaustive": False,
    })
    run.sample({"pair": recs[0] if recs else None})
    run.sample({"template": specs[0] if specs else None})
    run.assumptions += ["one compiled kernel per template is executed at all listed sizes; "
                        "C11 covers all sizes symbolically",
                        "floating-point values compared with tolerance as C01"]
    return run.finish()


def replay(rep: dict) -> int:
    return main("quick", only=[rep["record"]])


def selftest(tier: str) -> int:
    good = {"id": "g", "a": [1, 2], "b": [1, 2], "equal": True}
    bad = {"id": "b", "a": [1, 2], "b": [1, 3], "equal": True}
    val = tlc.validate_records("PtAffine", "PtAffineCheck.cfg", [good, bad], shards=1)
    ok = val.verdicts["g"] == "ok" and val.verdicts["b"] == "are_shape_components_equal"
    print("selftest", "passed" if ok else "FAILED", val.verdicts)
    return 0 if ok else 2
