"""C03 -- shape and dtype are inferred eagerly and agree with NumPy.

G: the full product of the property's quantifier is enumerated: operators /
   array functions x operand kinds (array, Python bool/int/float/complex,
   NumPy scalar) x all pairs of the 13 dtypes; all shape pairs with 0..3 axes
   of length 0..4 for a representative operator; every int index and slice on
   every axis length 0..6; every axis argument in [-ndim-1, ndim+1]; reshape
   targets with -1; matmul / broadcast_to shapes.
E: each call is performed on pytato (public API) and on NumPy (concrete
   operands) and the recorded pair is judged by TLC against the
   specification's own inference rules (PtInfer / PtCore: NEP 50 promotion,
   broadcasting, CPython slice semantics) -- three voices.  spec != NumPy is a
   machinery failure (exit 2); only pytato != (spec = NumPy) is a violation;
   NumPy rejects (shape/axis/index error) & pytato accepts is a violation;
   pytato rejecting more than NumPy (documented restrictions) constrains
   nothing.
"""
from __future__ import annotations

import itertools
import json
import multiprocessing as mp
import warnings
import zlib
from typing import Any

import numpy as np

from ptverif import export, progspace, tlc
from ptverif import replay as rp
from ptverif.common import NCPU, MachineryError, Run, seed
from ptverif.progspace import OPT, all_shapes, inp

PROP = "C03"
DTYPES = ["b1", "i1", "i2", "i4", "i8", "u1", "u2", "u4", "u8", "f4", "f8", "c8", "c16"]
PY = {"b": {"py": "bool", "v": "True"}, "i": {"py": "int", "v": "2"},
      "f": {"py": "float", "v": "0.5"}, "c": {"py": "complex", "v": "1j"}}
ELEMENTWISE = ["add", "sub", "mul", "truediv", "floordiv", "mod", "pow", "lt", "le", "gt",
               "ge", "eq", "ne", "logical_and", "logical_or", "maximum", "minimum"]
UNARY = ["neg", "abs", "sin", "cos", "exp", "sqrt", "log", "tan", "arctan", "isnan",
         "real", "imag", "conj", "logical_not", "tanh"]
REDUCE = ["sum", "prod", "amax", "amin", "all", "any"]


def np_scalar(d: str) -> dict:
    return {"np": d, "v": "True" if d == "b1" else ("1j" if d[0] == "c" else "2")}


def describe(o: Any, inputs: list[dict]) -> dict:
    if rp.is_ref(o):
        i = inputs[o - 1]
        return {"t": "arr", "dtype": i["dtype"], "shape": i["shape"]}
    if "py" in o:
        return {"t": "py", "k": {"bool": "b", "int": "i", "float": "f", "complex": "c"}[o["py"]]}
    return {"t": "np", "dtype": o["np"]}


# --------------------------------------------------------------------------
# case enumeration: each case is (prog, record skeleton)

def case(pid: str, inputs: list[dict], call: dict, cls: str, operands: list, **extra: Any
         ) -> dict:
    return {"id": pid, "inputs": inputs, "calls": [call], "outs": {"out": len(inputs) + 1},
            "rec": {"cls": cls, "op": call["op"],
                    "operands": [describe(o, inputs) for o in operands], **extra}}


def einsum_cases(rng: np.random.Generator, tier: str) -> list[dict]:
    """pt.einsum with 1..3 operands over the labels i j k: every assignment of
    the lengths {1, 3, 4} (0 in a few) to the operand axes for directed
    subscript patterns, sampled beyond; explicit and implicit output."""
    L = "ijk"
    out: list[dict] = []

    def one(subs: list[tuple[int, ...]], lens: list[tuple[int, ...]], res: Any,
            dts: list[str] | None = None) -> None:
        spec = ",".join("".join(L[x - 1] for x in sub) for sub in subs)
        if res is not None:
            spec += "->" + "".join(L[x - 1] for x in res)
        ins = [inp(f"x{a}", ln, (dts or ["f8"] * len(subs))[a]) for a, ln in enumerate(lens)]
        pid = f"einsum/{spec}/" + "/".join("x".join(map(str, ln)) or "s" for ln in lens) \
            + ("/" + "-".join(dts) if dts else "")
        out.append(case(pid, ins, {"op": "einsum", "spec": spec,
                                   "args": list(range(1, len(ins) + 1))},
                        "einsum", list(range(1, len(ins) + 1)),
                        subs=[list(x) for x in subs], out=list(res or ()),
                        implicit=res is None))
    directed = [([(1,), (1,)], (1,)), ([(1,), (1,)], ()), ([(1,), (1,), (1,)], (1,)),
                ([(1,), (1,), (1,)], ()), ([(1, 2), (2, 3)], (1, 3)), ([(1, 2), (2, 3)], None),
                ([(1, 2), (2,), (2, 3)], (1, 3)), ([(1, 2), (1, 2)], (2, 1)),
                ([(1, 2)], (2, 1)), ([(1, 2)], (1,)), ([(1, 2)], None),
                ([(1, 2), (1, 2), (2, 1)], (1,)), ([(1,), (2,)], (2, 1)), ([(1,), (2,)], None)]
    for subs, res in directed:
        naxes = sum(len(x) for x in subs)
        for combo in itertools.product((1, 3, 4), repeat=naxes):
            it = iter(combo)
            one(subs, [tuple(next(it) for _ in sub) for sub in subs], res)
    # wrong rank, repeated / foreign output labels, zero lengths, dtypes
    one([(1, 2)], [(3,)], (1,))
    one([(1,)], [(3, 3)], (1,))
    one([(1, 2)], [(3, 4)], (1, 1))
    one([(1, 2)], [(3, 4)], (3,))
    one([(1, 2), (2, 3)], [(0, 3), (3, 0)], (1, 3))
    one([(1, 2), (2, 3)], [(2, 0), (0, 2)], (1, 3))
    one([(1, 2), (2, 3)], [(2, 0), (1, 2)], (1, 3))
    for da, db in itertools.product(DTYPES, repeat=2):
        one([(1, 2), (2, 3)], [(2, 3), (3, 2)], (1, 3), [da, db])
    for d in DTYPES:
        one([(1, 2)], [(2, 3)], (1,), [d])
    n = 400 if tier == "quick" else 6000
    for _ in range(n):
        k = int(rng.integers(1, 4))
        subs = [tuple(int(x) for x in rng.integers(1, 4, size=int(rng.integers(0, 3))))
                for _ in range(k)]
        if any(len(set(sub)) != len(sub) for sub in subs):
            continue            # diagonals: pytato documents them as unsupported
        labels = sorted({x for sub in subs for x in sub})
        if rng.random() < 0.25:
            res = None
        else:
            res = tuple(int(x) for x in rng.permutation(labels)[:int(rng.integers(
                0, len(labels) + 1))])
        lens = [tuple(int(rng.choice((1, 1, 2, 3, 0))) for _ in sub) for sub in subs]
        one(subs, lens, res)
    return out


def cases(tier: str) -> list[dict]:
    rng = np.random.default_rng(seed())
    out: list[dict] = []
    sh = [2]
    # (1) elementwise x operand kinds x dtypes
    for op in ELEMENTWISE:
        for da, db in itertools.product(DTYPES, DTYPES):
            out.append(case(f"{op}/aa/{da}/{db}", [inp("x", sh, da), inp("y", sh, db)],
                            {"op": op, "a": 1, "b": 2}, "elementwise", [1, 2]))
        for da in DTYPES:
            for k, s in PY.items():
                out.append(case(f"{op}/ap/{da}/{k}", [inp("x", sh, da)],
                                {"op": op, "a": 1, "b": s}, "elementwise", [1, s]))
                out.append(case(f"{op}/pa/{k}/{da}", [inp("x", sh, da)],
                                {"op": op, "a": s, "b": 1}, "elementwise", [s, 1]))
            for db in DTYPES:
                s = np_scalar(db)
                out.append(case(f"{op}/an/{da}/{db}", [inp("x", sh, da)],
                                {"op": op, "a": 1, "b": s}, "elementwise", [1, s]))
                out.append(case(f"{op}/na/{db}/{da}", [inp("x", sh, da)],
                                {"op": op, "a": s, "b": 1}, "elementwise", [s, 1]))
    # numerically EQUAL Python scalars of different type, back to back in one process
    # (1, 1.0, True, 1+0j compare and hash equal: anything keyed on the value alone
    # would confuse them); both orders
    py1 = {"b": {"py": "bool", "v": "True"}, "i": {"py": "int", "v": "1"},
           "f": {"py": "float", "v": "1.0"}, "c": {"py": "complex", "v": "(1+0j)"}}
    for op in ELEMENTWISE:
        for da in DTYPES:
            for order, kinds in (("fwd", "bifc"), ("rev", "cfib")):
                for k in kinds:
                    c1 = case(f"{op}/ap1/{da}/{order}/{k}", [inp("x", sh, da)],
                              {"op": op, "a": 1, "b": py1[k]}, "elementwise", [1, py1[k]])
                    c1["block"] = f"{op}/{da}/{order}"
                    out.append(c1)
    # where: condition bool array; branches arrays / scalars
    for da, db in itertools.product(DTYPES, DTYPES):
        out.append(case(f"where/aa/{da}/{db}",
                        [inp("c", sh, "b1"), inp("x", sh, da), inp("y", sh, db)],
                        {"op": "where", "c": 1, "a": 2, "b": 3}, "elementwise", [1, 2, 3]))
    for da in DTYPES:
        for k, s in PY.items():
            out.append(case(f"where/ap/{da}/{k}", [inp("c", sh, "b1"), inp("x", sh, da)],
                            {"op": "where", "c": 1, "a": 2, "b": s}, "elementwise",
                            [1, 2, s]))
            out.append(case(f"where/pa/{k}/{da}", [inp("c", sh, "b1"), inp("x", sh, da)],
                            {"op": "where", "c": 1, "a": s, "b": 2}, "elementwise",
                            [1, s, 2]))
    # (2) unary, astype
    for op in UNARY:
        for d in DTYPES:
            out.append(case(f"{op}/{d}", [inp("x", [2, 3], d)], {"op": op, "a": 1},
                            "unary", [1]))
    for da, db in itertools.product(DTYPES, DTYPES):
        out.append(case(f"astype/{da}/{db}", [inp("x", [2], da)],
                        {"op": "astype", "a": 1, "dtype": db}, "astype", [1], dtype=db))
    # (3) reductions: dtypes, then axis arguments
    for op in REDUCE:
        for d in DTYPES:
            out.append(case(f"{op}/{d}/None", [inp("x", [2, 3], d)],
                            {"op": op, "a": 1, "axis": None}, "reduce", [1],
                            allaxes=True, axes=[]))
            out.append(case(f"{op}/{d}/1", [inp("x", [2, 3], d)],
                            {"op": op, "a": 1, "axis": 1}, "reduce", [1],
                            allaxes=False, axes=[1]))
        for shape in [(), (3,), (2, 3), (2, 0, 3), (0,)]:
            nd = len(shape)
            out.append(case(f"{op}/{shape}/None", [inp("x", shape)],
                            {"op": op, "a": 1, "axis": None}, "reduce", [1],
                            allaxes=True, axes=[]))
            for ax in range(-nd - 1, nd + 2):
                out.append(case(f"{op}/{shape}/{ax}", [inp("x", shape)],
                                {"op": op, "a": 1, "axis": ax}, "reduce", [1],
                                allaxes=False, axes=[ax]))
            for axs in itertools.product(range(-nd, nd), repeat=2):
                out.append(case(f"{op}/{shape}/{axs}", [inp("x", shape)],
                                {"op": op, "a": 1, "axis": list(axs)}, "reduce", [1],
                                allaxes=False, axes=list(axs)))
    # (4) broadcasting: all shape pairs
    if tier == "thorough":
        shapes = all_shapes(3, (0, 1, 2, 3, 4))
        pairs = list(itertools.product(shapes, shapes))
    else:
        shapes = all_shapes(2, (0, 1, 2, 3, 4))
        pairs = list(itertools.product(shapes, shapes))
        big = all_shapes(3, (0, 1, 2, 3, 4))
        idx = rng.integers(0, len(big), size=(2500, 2))
        pairs += [(big[i], big[j]) for i, j in idx]
    seen = set()
    for sa, sb in pairs:
        if (sa, sb) in seen:
            continue
        seen.add((sa, sb))
        out.append(case(f"bc/{sa}/{sb}", [inp("x", sa), inp("y", sb)],
                        {"op": "add", "a": 1, "b": 2}, "elementwise", [1, 2]))
    small = all_shapes(2, (0, 1, 2, 3))
    trip = list(itertools.product(small, repeat=3))
    pick = rng.permutation(len(trip))[:(600 if tier == "quick" else 2197)]
    for t in pick:
        sc, sa, sb = trip[t]
        out.append(case(f"bc3/{sc}/{sa}/{sb}",
                        [inp("c", sc, "b1"), inp("x", sa), inp("y", sb)],
                        {"op": "where", "c": 1, "a": 2, "b": 3}, "elementwise", [1, 2, 3]))
    # (5) indexing: every int and slice on every axis length 0..6
    for n in range(0, 7):
        x = inp("x", (n,))
        for i in range(-n - 2, n + 2):
            it = {"t": "int", "v": i}
            out.append(case(f"ix/{n}/int{i}", [x], {"op": "index", "a": 1, "idx": [it]},
                            "index", [1], idx=[it]))
        sl = list(progspace.slices_1d(n))
        if tier == "quick":
            sl = [sl[i] for i in sorted(rng.permutation(len(sl))[:len(sl) // 3])]
        sl.append({"t": "slice", "start": [], "stop": [], "step": [0]})
        for it in sl:
            s = f"{it['start']}:{it['stop']}:{it['step']}".replace(" ", "")
            out.append(case(f"ix/{n}/{s}", [x], {"op": "index", "a": 1, "idx": [it]},
                            "index", [1], idx=[it]))
    for shape in [(2, 3), (3, 0), (1, 4)]:
        for p in progspace.fam_basic_nd([shape]):
            c = p["calls"][0]
            out.append(case("ixn/" + p["id"], p["inputs"], c, "index", [1], idx=c["idx"]))
        x = inp("x", shape)
        its = [{"t": "int", "v": 0}] * 3
        out.append(case(f"ixn/{shape}/too_many", [x], {"op": "index", "a": 1, "idx": its},
                        "index", [1], idx=its))
    # (6) axis arguments
    for shape in [(), (3,), (2, 3), (1, 2, 1), (2, 0, 3)]:
        nd = len(shape)
        x = inp("x", shape)
        for ax in range(-nd - 2, nd + 3):
            for k in (1, 2):
                ins = [inp(f"x{j}", shape) for j in range(k)]
                out.append(case(f"stack/{shape}/k{k}/{ax}", ins,
                                {"op": "stack", "arrays": list(range(1, k + 1)), "axis": ax},
                                "stack", list(range(1, k + 1)), axis=ax))
                out.append(case(f"concatenate/{shape}/k{k}/{ax}", ins,
                                {"op": "concatenate", "arrays": list(range(1, k + 1)),
                                 "axis": ax}, "concatenate", list(range(1, k + 1)), axis=ax))
            out.append(case(f"roll/{shape}/{ax}", [x],
                            {"op": "roll", "a": 1, "shift": 1, "axis": ax}, "roll", [1],
                            axis=ax))
            out.append(case(f"expand_dims/{shape}/{ax}", [x],
                            {"op": "expand_dims", "a": 1, "axis": ax}, "expand_dims", [1],
                            axis=ax))
            out.append(case(f"squeeze/{shape}/{ax}", [x],
                            {"op": "squeeze", "a": 1, "axis": ax}, "squeeze", [1], axis=ax))
        for axes in itertools.product(range(-nd - 1, nd + 1), repeat=nd):
            if nd == 0:
                continue
            out.append(case(f"transpose/{shape}/{axes}", [x],
                            {"op": "transpose", "a": 1, "axes": list(axes)}, "transpose",
                            [1], axes=list(axes)))
        out.append(case(f"transpose/{shape}/short", [x],
                        {"op": "transpose", "a": 1, "axes": list(range(nd))[:-1]},
                        "transpose", [1], axes=list(range(nd))[:-1]))
    # mismatching operands of stack / concatenate
    for sa, sb, ax in [((2, 3), (2, 4), 0), ((2, 3), (2, 4), 1), ((2, 3), (3, 3), 0),
                       ((2, 3), (3, 3), 1), ((2, 3), (2,), 0), ((0, 3), (2, 3), 0),
                       ((2, 3), (2, 3, 1), 0)]:
        ins = [inp("a", sa), inp("b", sb)]
        out.append(case(f"stack/mis/{sa}/{sb}/{ax}", ins,
                        {"op": "stack", "arrays": [1, 2], "axis": ax}, "stack", [1, 2],
                        axis=ax))
        out.append(case(f"concatenate/mis/{sa}/{sb}/{ax}", ins,
                        {"op": "concatenate", "arrays": [1, 2], "axis": ax}, "concatenate",
                        [1, 2], axis=ax))
    for da, db in itertools.product(["i4", "f4", "f8", "c8", "b1", "u8"], repeat=2):
        ins = [inp("a", (2,), da), inp("b", (2,), db)]
        out.append(case(f"stack/dt/{da}/{db}", ins,
                        {"op": "stack", "arrays": [1, 2], "axis": 0}, "stack", [1, 2], axis=0))
        out.append(case(f"concatenate/dt/{da}/{db}", ins,
                        {"op": "concatenate", "arrays": [1, 2], "axis": 0}, "concatenate",
                        [1, 2], axis=0))
    # an EMPTY operand still takes part in type promotion (both positions, 3 operands)
    for da, db in itertools.product(["i4", "f4", "f8", "c8", "b1", "i8"], repeat=2):
        for sa, sb, tag in (((0,), (2,), "e0"), ((2,), (0,), "e1")):
            out.append(case(f"concatenate/dt-empty/{tag}/{da}/{db}",
                            [inp("a", sa, da), inp("b", sb, db)],
                            {"op": "concatenate", "arrays": [1, 2], "axis": 0}, "concatenate",
                            [1, 2], axis=0))
        out.append(case(f"concatenate/dt-empty/mid/{da}/{db}",
                        [inp("a", (2, 1), da), inp("b", (2, 0), db), inp("c", (2, 2), da)],
                        {"op": "concatenate", "arrays": [1, 2, 3], "axis": 1}, "concatenate",
                        [1, 2, 3], axis=1))
    # (7) reshape targets including -1
    for shape in [(), (6,), (2, 3), (0, 3), (2, 2, 3), (1,)]:
        size = int(np.prod(shape, dtype=np.int64))
        targets = [t for t in all_shapes(3, (0, 1, 2, 3, 4, 6, 12))
                   if int(np.prod(t, dtype=np.int64)) == size]
        targets += [(5,), (2, 2), (7, 1)]
        for t in list(targets):
            for pos in range(len(t)):
                tt = list(t)
                tt[pos] = -1
                targets.append(tuple(tt))
        targets += [(-1, -1), (-2,), (-1, 0), (0, -1), (-1, 5)]
        for t in dict.fromkeys(targets):
            out.append(case(f"reshape/{shape}/{t}", [inp("x", shape)],
                            {"op": "reshape", "a": 1, "newshape": list(t)}, "reshape", [1],
                            newshape=list(t)))
    # (8) matmul / broadcast_to
    mshapes = [(), (3,), (2,), (2, 3), (3, 2), (3, 3), (2, 2, 3), (2, 3, 2), (1, 3, 2),
               (4, 3, 2), (0, 3), (3, 0), (2, 4, 3, 2), (4, 1, 2, 3), (2, 2, 2, 3)]
    for sa, sb in itertools.product(mshapes, repeat=2):
        out.append(case(f"matmul/{sa}/{sb}", [inp("a", sa), inp("b", sb)],
                        {"op": "matmul", "a": 1, "b": 2}, "matmul", [1, 2]))
    for da, db in itertools.product(DTYPES, repeat=2):
        out.append(case(f"matmul/dt/{da}/{db}", [inp("a", (2, 2), da), inp("b", (2, 2), db)],
                        {"op": "matmul", "a": 1, "b": 2}, "matmul", [1, 2]))
    out += einsum_cases(rng, tier)
    bs = all_shapes(2, (0, 1, 2, 3))
    for sa, sb in itertools.product(bs, bs + [(2, 2, 3), (1, 1, 1)]):
        out.append(case(f"broadcast_to/{sa}/{sb}", [inp("x", sa)],
                        {"op": "broadcast_to", "a": 1, "shape": list(sb)}, "broadcast_to",
                        [1], shape=list(sb)))
    return out


# --------------------------------------------------------------------------

REJECT_NP = (ValueError, IndexError)      # includes numpy.exceptions.AxisError


def perform(c: dict) -> dict | None:
    """-> the record for TLC, or None when NumPy itself refuses for a reason
    that is not a shape/axis/index error (TypeError: constrains nothing)."""
    import pytato as pt
    prog = {k: c[k] for k in ("inputs", "calls", "outs")}
    rec = dict(c["rec"])
    rec["id"] = c["id"]
    rec["rel"] = "infer"
    data = {i["name"]: np.ones(i["shape"], rp.DT[i["dtype"]]) for i in c["inputs"]}
    nb = rp.NpBackend(data)
    with warnings.catch_warnings():
        warnings.simplefilter("ignore")
        nb.run(prog)
    if nb.rejections:
        exc = next(iter(nb.rejections.values())).exc
        if not isinstance(exc, REJECT_NP):
            return None
        rec["np"] = {"ok": False, "exc": type(exc).__name__}
    else:
        v = np.asarray(nb.outs()["out"])
        d = export.dt(v.dtype)
        if d not in DTYPES and d != "float16":
            return None
        rec["np"] = {"ok": True, "shape": [int(s) for s in v.shape],
                     "dtype": "f2" if d == "float16" else d}
    pb = rp.PtBackend()
    with warnings.catch_warnings():
        warnings.simplefilter("ignore")
        pb.run(prog)
    if pb.rejections:
        exc = next(iter(pb.rejections.values())).exc
        rec["pt"] = {"ok": False, "exc": type(exc).__name__, "msg": str(exc)[:120]}
    else:
        v = pb.outs()["out"]
        if not isinstance(v, pt.Array):
            v = np.asarray(v)
        # the node was accepted at construction; shape / dtype must be available now
        try:
            shape = [int(s) for s in v.shape]
        except TypeError:
            return None
        except Exception as ex:       # noqa: BLE001
            shape = [-1]
            rec["pt_shape_error"] = f"{type(ex).__name__}: {ex}"[:120]
        try:
            dtype = export.dt(v.dtype)
        except Exception as ex:       # noqa: BLE001
            dtype = "unavailable"
            rec["pt_dtype_error"] = f"{type(ex).__name__}: {ex}"[:120]
        rec["pt"] = {"ok": True, "shape": shape, "dtype": dtype}
    return rec


def explain(rec: dict) -> str:
    """Names the rule pytato apparently followed when its dtype differs from
    NumPy's, so that a known-findings entry matches exactly one deviation."""
    if not rec["pt"]["ok"] or not rec["np"]["ok"]:
        return "n/a"
    ops = rec["operands"][1:] if rec["op"] == "where" else rec["operands"]
    arrs = [o for o in ops if o["t"] in ("arr", "np")]
    pys = [o for o in ops if o["t"] == "py"]
    ptd = rec["pt"]["dtype"]
    if len(ops) == 1 and arrs and ptd == arrs[0]["dtype"]:
        return "keeps_operand_dtype"
    if arrs and not pys and all(o["dtype"] == "b1" for o in arrs) and ptd == "b1":
        return "bool_kept"
    if pys and arrs:
        pyd = {"b": np.bool_, "i": np.int64, "f": np.float64, "c": np.complex128}
        strong = np.result_type(*[rp.DT[o["dtype"]] for o in arrs],
                                *[pyd[o["k"]] for o in pys])
        if export.dt(strong) == ptd:
            return "python_scalar_as_strong"
    return "other"


def _perform_many(cs: list[dict]) -> list[dict | None]:
    return [perform(c) for c in cs]


# --------------------------------------------------------------------------
# every intermediate node of multi-call programs

def intermediate_cases(tier: str) -> list[dict]:
    """Each call of seeded random programs becomes one case whose operands are
    described by the (pytato-side) shape and dtype of the values it consumes;
    calls whose operands already differ between pytato and NumPy (an upstream
    divergence, reported where it arises) are not compared again."""
    rng = np.random.default_rng(seed() + 3)
    n = 250 if tier == "quick" else 3000
    out: list[dict] = []
    for k in range(n):
        prog = progspace.random_program(rng, f"m{k}", int(rng.integers(2, 8)))
        data = {}
        for i in prog["inputs"]:
            data[i["name"]] = np.array(i["data"], rp.DT[i["dtype"]]).reshape(i["shape"]) \
                if "data" in i else np.ones(i["shape"], rp.DT[i["dtype"]])
        nb = rp.NpBackend(data)
        pb = rp.PtBackend({kk: v for kk, v in data.items()
                           if any(i["name"] == kk and i.get("kind") == "dw"
                                  for i in prog["inputs"])})
        with warnings.catch_warnings():
            warnings.simplefilter("ignore")
            nb.run(prog)
            pb.run(prog)
        ninp = len(prog["inputs"])
        for j, call in enumerate(prog["calls"]):
            pos = ninp + j
            if pos >= len(pb.values) or pos >= len(nb.values):
                break
            pv, nv = pb.values[pos], nb.values[pos]
            if pv is None or nv is None:
                break
            refs = [v for kk, v in call.items() if kk in ("a", "b", "c") and rp.is_ref(v)]
            if call["op"] not in ("arange", "eye"):      # their "args" are numbers
                refs += [v for v in call.get("arrays", [])] + [
                    v for v in call.get("args", []) if rp.is_ref(v)]

            def same(r: int) -> bool:
                a, b = pb.values[r - 1], np.asarray(nb.values[r - 1])
                try:
                    return tuple(int(s) for s in a.shape) == tuple(b.shape) \
                        and np.dtype(a.dtype) == b.dtype
                except Exception:      # noqa: BLE001
                    return False
            if not all(same(r) for r in refs):
                continue
            inputs = []
            remap = {}
            for r in dict.fromkeys(refs):
                a = pb.values[r - 1]
                inputs.append(inp(f"v{r}", [int(s) for s in a.shape], export.dt(a.dtype)))
                remap[r] = len(inputs)
            c2 = json.loads(json.dumps(call))
            for kk in ("a", "b", "c"):
                if rp.is_ref(c2.get(kk)):
                    c2[kk] = remap[c2[kk]]
            if "arrays" in c2:
                c2["arrays"] = [remap[v] for v in c2["arrays"]]
            op = c2["op"]
            cid = f"mc/{prog['id']}/{j}/{op}"
            if op in ELEMENTWISE + ["where"]:
                ops = [c2["c"], c2["a"], c2["b"]] if op == "where" else [c2["a"], c2["b"]]
                out.append(case(cid, inputs, c2, "elementwise", ops))
            elif op in UNARY:
                out.append(case(cid, inputs, c2, "unary", [c2["a"]]))
            elif op == "astype":
                out.append(case(cid, inputs, c2, "astype", [c2["a"]], dtype=c2["dtype"]))
            elif op in REDUCE:
                ax = c2.get("axis")
                out.append(case(cid, inputs, c2, "reduce", [c2["a"]], allaxes=ax is None,
                                axes=[] if ax is None else (ax if isinstance(ax, list)
                                                            else [ax])))
            elif op in ("stack", "concatenate"):
                out.append(case(cid, inputs, c2, op, c2["arrays"], axis=c2["axis"]))
            elif op in ("roll", "expand_dims"):
                out.append(case(cid, inputs, c2, op, [c2["a"]], axis=c2["axis"]))
            elif op == "squeeze" and isinstance(c2.get("axis"), list) and len(c2["axis"]) == 1:
                c2["axis"] = c2["axis"][0]
                out.append(case(cid, inputs, c2, op, [c2["a"]], axis=c2["axis"]))
            elif op == "transpose" and c2.get("axes") is not None:
                out.append(case(cid, inputs, c2, op, [c2["a"]], axes=c2["axes"]))
            elif op == "reshape":
                out.append(case(cid, inputs, c2, op, [c2["a"]], newshape=c2["newshape"]))
            elif op == "broadcast_to":
                out.append(case(cid, inputs, c2, op, [c2["a"]], shape=c2["shape"]))
            elif op == "matmul":
                out.append(case(cid, inputs, c2, op, [c2["a"], c2["b"]]))
            elif op == "index" and all(it["t"] in ("int", "slice") for it in c2["idx"]):
                out.append(case(cid, inputs, c2, "index", [c2["a"]], idx=c2["idx"]))
    return out


def main(tier: str, only: list[dict] | None = None) -> int:
    run = Run(PROP, tier, "model_checking")
    cs = only if only is not None else cases(tier) + intermediate_cases(tier)
    ids = set()
    cs = [c for c in cs if not (c["id"] in ids or ids.add(c["id"]))]
    n = NCPU * 4
    # cases of one "block" stay together, in order, in one worker process
    chunks: list[list[dict]] = [[] for _ in range(n)]
    for k, c in enumerate(cs):
        b = c.get("block")
        chunks[(zlib.crc32(b.encode()) if b else k) % n].append(c)
    with mp.Pool(NCPU) as pool:
        recs = [r for chunk in pool.map(_perform_many, [c for c in chunks if c])
                for r in chunk]
    by_id = {c["id"]: c for c in cs}
    records = [r for r in recs if r is not None]
    val = tlc.validate_records("PtInfer", "PtInfer.cfg", records, timeout=1500)
    stats = {"numpy_typeerror_skipped": len(recs) - len(records), "pytato_rejects_valid": 0,
             "both_reject": 0, "agree": 0}
    per_cls: dict[str, int] = {}
    for rec in records:
        v = val.verdicts[rec["id"]]
        per_cls[rec["cls"]] = per_cls.get(rec["cls"], 0) + 1
        if v.startswith("oracle"):
            raise MachineryError(
                f"specification and NumPy disagree ({v}) on {rec['id']}: numpy={rec['np']} "
                f"operands={rec['operands']}; the specification must be corrected")
        if v == "ok":
            if rec["np"]["ok"] and not rec["pt"]["ok"]:
                stats["pytato_rejects_valid"] += 1
            elif not rec["np"]["ok"]:
                stats["both_reject"] += 1
            else:
                stats["agree"] += 1
            continue
        c = by_id[rec["id"]]
        kinds = "".join(o["t"][0] for o in rec["operands"])
        pt_rule = explain(rec)
        run.violation(
            rec["id"],
            f"{rec['id']}: {c['calls'][0]} -> pytato {rec['pt']} but NumPy {rec['np']} "
            f"(clause {v})",
            record={k: c[k] for k in ("id", "inputs", "calls", "outs", "rec")},
            observed=rec["pt"], expected=rec["np"],
            sig={"op": rec["op"], "cls": rec["cls"], "clause": v, "kinds": kinds,
                 "pt_rule": pt_rule,
                 "np_dtype": rec["np"].get("dtype"), "pt_dtype": rec["pt"].get("dtype"),
                 "in_dtypes": "/".join(o.get("dtype", o.get("k", "?"))
                                       for o in rec["operands"])})
    run.coverage.update({
        "states": val.states, "transitions": val.transitions,
        "traces_validated_against_impl": len(records),
        "evaluations": len(cs), "distinct_nontrivial": stats["agree"] + len(run.violations)
        + sum(run.known_hits.values()),
        "rule": "one recorded call per point of the product; distinct by id; non-trivial = "
                "NumPy and pytato both accept, so shape and dtype are actually compared",
        "exhaustive": tier == "thorough", "per_class": per_cls, "stats": stats,
        "intermediate_node_cases": sum(1 for c in cs if c["id"].startswith("mc/")),
        "scope": "13 dtypes; operand kinds array / Python scalar (b,i,f,c) / NumPy scalar; "
                 "thorough: all shape pairs with 0..3 axes of length 0..4 and every slice "
                 "start/stop in {None} u [-7,7], step {None,+-1,+-2,+-3} on lengths 0..6; "
                 "quick: shape pairs with <=2 axes + 2500 sampled pairs, a third of the slices",
    })
    for rec in records[:3]:
        run.sample({k: rec[k] for k in ("id", "op", "operands", "np", "pt")})
    run.assumptions += ["installed NumPy (2.x) is the reference; the specification's rules "
                        "are cross-checked against it on every record (oracle clauses)"]
    return run.finish()


def replay(rep: dict) -> int:
    return main("quick", only=[rep["record"]])


def selftest(tier: str) -> int:
    c = case("st", [inp("x", (2,), "f4"), inp("y", (2,), "i4")],
             {"op": "add", "a": 1, "b": 2}, "elementwise", [1, 2])
    good = perform(c)
    bad = dict(good)
    bad["id"] = "corrupted"
    bad["pt"] = dict(good["pt"], dtype="f4")
    val = tlc.validate_records("PtInfer", "PtInfer.cfg", [good, bad], shards=1)
    ok = val.verdicts["st"] == "ok" and val.verdicts["corrupted"] == "dtype"
    print("selftest", "passed" if ok else "FAILED", val.verdicts)
    return 0 if ok else 2
