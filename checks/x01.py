"""X01 -- axis-tag unification (pytato.unify_axes_tags) does what its
documentation says: tags of type tag_t travel along the axis equations of the
array operations, are stopped by AxisIgnoredForPropagationTag, and nothing
else changes.

Specification: spec/PtAxes.tla (propagation semantics + per-node-kind axis
equations, MUST and MAY rule sets), independent of pytato's code.

M  spec/PtAxesMC.tla: the propagation semantics model-checked by TLC over all
   small instances (least solution of the equations, path characterisation,
   idempotent, monotone, blocked exactly by ignored axes, lower bound inside
   upper bound); two negative controls that TLC must REFUTE (the
   implementation's propagation graph with tag vertices leaves the upper
   bound; the lenient reading of the ignore tag is not idempotent).
G  the same module as generator: every instance with 3 axis variables (MUST /
   MAY / no equation per pair, ignore marks, two tags) is realised as a real
   pytato program and the real result is compared with the bounds TLC printed.
E  records exported from real runs (single-node families per node kind with
   systematic tag placements, random multi-node programs, special graphs) are
   judged by TLC (spec/PtAxesCheck.tla): result within the two bounds, only
   tag_t tags move, nothing but axis / reduction-descriptor tags changes,
   idempotent, nothing removed, unify_redn_descrs=False honoured.  The
   harness checks that the input graph is not mutated.

Three voices: TLC's verdict and an independent hand computation
(ptverif/axes.py) must agree on every record, else machinery failure.
"""
from __future__ import annotations

import copy
import hashlib
import itertools
import json
import threading
from typing import Any

import numpy as np

from ptverif import axes, progspace, tlc
from ptverif import replay as rp
from ptverif.common import NCPU, MachineryError, Run, robust_map, seed
from ptverif.export import Unsupported
from ptverif.progspace import inp

PROP = "X01"
TAGNAME = {101: "A", 102: "B"}


def h32(*parts: Any) -> int:
    return int(hashlib.sha256(repr(parts).encode()).hexdigest()[:8], 16)


# --------------------------------------------------------------------------
# base programs: one node kind each (plus a few special graphs)

def single(inputs: list[dict], call: dict, pid: str) -> dict:
    return {"id": pid, "inputs": inputs, "calls": [call], "outs": {"out": len(inputs) + 1}}


def fam_elementwise() -> list[dict]:
    out = []
    pairs = [((2, 3), (2, 3)), ((1, 3), (2, 3)), ((3,), (2, 3)), ((1, 3), (1, 3)),
             ((2, 1), (1, 3)), ((), (2,)), ((0, 3), (0, 3)), ((0, 3), (1, 3)), ((1,), (1,)),
             ((2, 1, 3), (4, 3)), ((1, 1), (1,))]
    for k, (sa, sb) in enumerate(pairs):
        for op in ("add", "lt") if k < 4 else ("mul",):
            out.append(single([inp("x", sa), inp("y", sb)], {"op": op, "a": 1, "b": 2},
                              f"ew/{op}/{k}"))
    out.append(single([inp("x", (2, 3))], {"op": "sin", "a": 1}, "ew/sin"))
    out.append(single([inp("x", (2, 3))], {"op": "add", "a": 1, "b": {"py": "int", "v": "2"}},
                      "ew/scalar"))
    out.append(single([inp("x", (2, 3))], {"op": "add", "a": 1, "b": 1}, "ew/same_operand"))
    out.append({"id": "ew/where", "inputs": [inp("c", (2, 1), "b1"), inp("x", (2, 3)),
                                             inp("y", (3,))],
                "calls": [{"op": "where", "c": 1, "a": 2, "b": 3}], "outs": {"out": 4}})
    out.append(single([inp("x", (1, 3))], {"op": "broadcast_to", "a": 1, "shape": [2, 2, 3]},
                      "ew/broadcast_to"))
    out.append(single([inp("x", (2, 3))], {"op": "pad", "a": 1, "width": [[1, 0], [0, 2]],
                                           "cval": 0}, "ew/pad"))
    out.append(single([inp("x", (2, 3))], {"op": "astype", "a": 1, "dtype": "f4"}, "ew/astype"))
    return out


def fam_reduce() -> list[dict]:
    out = []
    cases = [((2, 3), 0), ((2, 3), 1), ((2, 3), None), ((2, 3), [1, 0]), ((2, 3, 2), [2, 0]),
             ((2, 3, 2), 1), ((1, 3), 0), ((1, 3), 1), ((3, 1), 1), ((0, 3), 0), ((0, 3), 1),
             ((3,), 0), ((1,), 0)]
    for k, (sh, axis) in enumerate(cases):
        for op in ("sum", "amax") if k < 3 else ("sum",):
            if op == "amax" and 0 in sh:
                continue
            out.append(single([inp("x", sh)], {"op": op, "a": 1, "axis": axis}, f"red/{op}/{k}"))
    return out


def fam_concat_special() -> list[dict]:
    out = []
    for k, shapes in enumerate([[(2, 3), (0, 3)], [(0, 3), (2, 3)], [(0, 3), (2, 3), (0, 3)],
                                [(2, 3)], [(0, 3), (0, 3)], [(1, 3), (0, 3)], [(2, 3), (2, 3)]]):
        ins = [inp(f"x{j}", s) for j, s in enumerate(shapes)]
        out.append({"id": f"concat_sp/{k}", "inputs": ins,
                    "calls": [{"op": "concatenate", "arrays": list(range(1, len(ins) + 1)),
                               "axis": 0}], "outs": {"out": len(ins) + 1}})
    out.append({"id": "concat_sp/same", "inputs": [inp("x", (2, 3))],
                "calls": [{"op": "concatenate", "arrays": [1, 1], "axis": 1}],
                "outs": {"out": 2}})
    out.append({"id": "stack_sp/same", "inputs": [inp("x", (2, 3))],
                "calls": [{"op": "stack", "arrays": [1, 1], "axis": 1}], "outs": {"out": 2}})
    return out


def fam_reshape() -> list[dict]:
    out = []
    for k, (sh, ax) in enumerate([((2, 3), 0), ((2, 3), 1), ((2, 3), 2), ((2, 3), [0, 2]),
                                  ((2, 3), [1, 3]), ((3,), [0, 1]), ((), 0), ((1, 3), 1),
                                  ((0, 2), 1), ((2, 3), -1), ((2, 3), [0, 1, 4])]):
        out.append(single([inp("x", sh)], {"op": "expand_dims", "a": 1, "axis": ax},
                          f"expand/{k}"))
    for k, (sh, new, order) in enumerate([((2, 3), (2, 3), "C"), ((2, 3), (3, 2), "C"),
                                          ((2, 3), (6,), "C"), ((6,), (2, 3), "F"),
                                          ((2, 3), (2, 1, 3), "C"), ((2, 3), (1, 2, 3), "C"),
                                          ((6,), (6, 1), "C"), ((1, 3), (3,), "C"),
                                          ((0, 3), (3, 0), "C"), ((2, 2), (2, 2), "F")]):
        out.append(single([inp("x", sh)], {"op": "reshape", "a": 1, "newshape": list(new),
                                           "order": order}, f"reshape/{k}"))
    for k, (sh, ax) in enumerate([((1, 3), [0]), ((2, 1, 3), [1]), ((1, 1), [0])]):
        out.append(single([inp("x", sh)], {"op": "squeeze", "a": 1, "axis": ax}, f"squeeze/{k}"))
    return out


RAW_IL = [
    # (id, shapes of bindings b0, b1.., result shape, expr, reduction vars)
    ("prefix", [(5,)], (3,), 'sub("b0", v("_0"))', []),
    ("exact", [(3,)], (3,), 'sub("b0", v("_0"))', []),
    ("diag", [(3, 3)], (3,), 'sub("b0", v("_0"), v("_0"))', []),
    ("transposed", [(2, 3)], (3, 2), 'sub("b0", v("_1"), v("_0"))', []),
    ("const_index", [(2, 3)], (3,), 'sub("b0", 1, v("_0"))', []),
    ("shifted", [(4,)], (3,), 'sub("b0", v("_0") + 1)', []),
    ("outer_equal_len", [(3,), (3,)], (3, 3), 'sub("b0", v("_0")) * sub("b1", v("_1"))', []),
    ("twice", [(3, 3)], (3, 3),
     'sub("b0", v("_0"), v("_1")) + sub("b0", v("_1"), v("_0"))', []),
    ("full_redn", [(2, 3)], (2,),
     'red({"_r0": (0, 3)}, sub("b0", v("_0"), v("_r0")))', ["_r0"]),
    ("partial_redn", [(2, 5)], (2,),
     'red({"_r0": (1, 4)}, sub("b0", v("_0"), v("_r0")))', ["_r0"]),
    ("redn_two_bindings", [(2, 3), (3,)], (2,),
     'red({"_r0": (0, 3)}, sub("b0", v("_0"), v("_r0")) * sub("b1", v("_r0")))', ["_r0"]),
    ("indirect", [(4,), (3,)], (3,), 'sub("b0", sub("b1", v("_0")))', []),
    ("len1", [(1, 3)], (1, 3), 'sub("b0", v("_0"), v("_1"))', []),
]


def fam_raw_il() -> list[dict]:
    out = []
    for name, shapes, res, expr, rvars in RAW_IL:
        ins = [inp(f"b{j}", s, "i8" if name == "indirect" and j == 1 else "f8")
               for j, s in enumerate(shapes)]
        out.append(single(ins, {"op": "raw_il", "expr": expr, "shape": list(res),
                                "bind": {f"b{j}": j + 1 for j in range(len(ins))},
                                "rvars": rvars}, f"rawil/{name}"))
    return out


def fam_special() -> list[dict]:
    out = []
    # a received array, and a send stapled to an array (the holder IS the array)
    out.append({"id": "dist/holder",
                "inputs": [inp("x", (2, 3)), inp("y", (4,)),
                           {"name": "r", "shape": [2, 3], "dtype": "f8", "kind": "recv",
                            "src": 1, "comm_tag": 7}],
                "calls": [{"op": "send_holder", "data": 2, "a": 1, "dest": 1, "comm_tag": 5},
                          {"op": "add", "a": 4, "b": 3}],
                "outs": {"out": 5}})
    out.append({"id": "dist/holder_data_is_passthrough",
                "inputs": [inp("x", (2, 3))],
                "calls": [{"op": "send_holder", "data": 1, "a": 1, "dest": 1, "comm_tag": 5},
                          {"op": "transpose", "a": 2, "axes": [1, 0]}],
                "outs": {"out": 3}})
    # an entry of a dictionary of named arrays used as an operand
    out.append({"id": "alias/dict_entry",
                "inputs": [inp("x", (2, 3)), inp("y", (2, 3))],
                "calls": [{"op": "dict_entry", "a": 1, "name": "q"},
                          {"op": "add", "a": 3, "b": 2}],
                "outs": {"out": 4, "inner": 1}})
    # the same operand twice in one einsum; shared sub-expressions; diamonds
    out.append({"id": "share/einsum_same", "inputs": [inp("x", (3, 3))],
                "calls": [{"op": "einsum", "spec": "ij,jk->ik", "args": [1, 1]}],
                "outs": {"out": 2}})
    out.append({"id": "share/diamond", "inputs": [inp("x", (2, 3))],
                "calls": [{"op": "transpose", "a": 1, "axes": [1, 0]},
                          {"op": "sin", "a": 2},
                          {"op": "roll", "a": 2, "shift": 1, "axis": 0},
                          {"op": "add", "a": 3, "b": 4}],
                "outs": {"out": 5, "other": 3}})
    # two nodes that differ only in axis tags and become equal by unification
    out.append({"id": "share/becomes_equal", "inputs": [inp("x", (2, 3))],
                "calls": [{"op": "transpose", "a": 1, "axes": [1, 0]},
                          {"op": "transpose", "a": 1, "axes": [1, 0]},
                          {"op": "add", "a": 2, "b": 3}],
                "outs": {"out": 4}})
    # einsum whose reduction index is broadcast in one operand
    out.append({"id": "einsum/bcast_redn", "inputs": [inp("a", (3, 1)), inp("b", (4, 5))],
                "calls": [{"op": "einsum", "spec": "ij,jk->ik", "args": [1, 2]}],
                "outs": {"out": 3}})
    out.append({"id": "einsum/bcast_redn3",
                "inputs": [inp("a", (3, 1)), inp("b", (4, 5)), inp("c", (4,))],
                "calls": [{"op": "einsum", "spec": "ij,jk,j->ik", "args": [1, 2, 3]}],
                "outs": {"out": 4}})
    # a function call: documented NotImplementedError
    out.append({"id": "call/traced", "inputs": [inp("x", (2, 3))],
                "calls": [{"op": "trace_call", "a": 1}, {"op": "add", "a": 2, "b": 1}],
                "outs": {"out": 3}})
    # a chain through a reduction and back (tags reach a reduction descriptor only)
    out.append({"id": "chain/matvec", "inputs": [inp("m", (2, 3)), inp("v", (3,)),
                                                 inp("w", (2,))],
                "calls": [{"op": "matmul", "a": 1, "b": 2}, {"op": "add", "a": 4, "b": 3}],
                "outs": {"out": 5}})
    return out


def fam_symbolic() -> list[dict]:
    """size-parameter shapes (lengths n, m): equal parameters are equal lengths"""
    x, y, z = inp("x", ("n", 3)), inp("y", ("n", 3)), inp("z", ("m", 3))
    v, w = inp("v", ("n",)), inp("w", (3, "n"))
    out = [
        {"id": "sym/add", "inputs": [x, y], "calls": [{"op": "add", "a": 1, "b": 2}]},
        {"id": "sym/bcast", "inputs": [x, inp("r", (1, 3))],
         "calls": [{"op": "add", "a": 1, "b": 2}]},
        {"id": "sym/transpose", "inputs": [x],
         "calls": [{"op": "transpose", "a": 1, "axes": [1, 0]}]},
        {"id": "sym/sum1", "inputs": [x], "calls": [{"op": "sum", "a": 1, "axis": 1}]},
        {"id": "sym/stack", "inputs": [x, y],
         "calls": [{"op": "stack", "arrays": [1, 2], "axis": 1}]},
        {"id": "sym/concat_other_axis", "inputs": [x, y],
         "calls": [{"op": "concatenate", "arrays": [1, 2], "axis": 1}]},
        {"id": "sym/add_other_param", "inputs": [x, z, inp("r", (1, 3))],
         "calls": [{"op": "add", "a": 1, "b": 3}, {"op": "add", "a": 2, "b": 3},
                   {"op": "sum", "a": 4, "axis": 1}]},
        {"id": "sym/einsum", "inputs": [x, w],
         "calls": [{"op": "einsum", "spec": "ij,jk->ik", "args": [1, 2]}]},
        {"id": "sym/matvec", "inputs": [w, v], "calls": [{"op": "matmul", "a": 1, "b": 2}]},
        {"id": "sym/roll", "inputs": [x], "calls": [{"op": "roll", "a": 1, "shift": 1, "axis": 1}]},
        {"id": "sym/expand", "inputs": [x], "calls": [{"op": "expand_dims", "a": 1, "axis": 1}]},
        {"id": "sym/outer", "inputs": [v, inp("u", ("m",))],
         "calls": [{"op": "einsum", "spec": "i,j->ij", "args": [1, 2]}]},
    ]
    for p in out:
        p["outs"] = {"out": len(p["inputs"]) + len(p["calls"])}
    return out


def base_programs(tier: str, rng: np.random.Generator) -> list[dict]:
    quick = tier == "quick"
    progs: list[dict] = []
    progs += fam_elementwise() + fam_reduce() + fam_concat_special() + fam_reshape()
    progs += fam_raw_il() + fam_special() + fam_symbolic()
    progs += list(progspace.fam_transpose([(2, 3), (2, 3, 2), (1, 2), (0, 2), (3,)]))
    rolls = list(progspace.fam_roll([(3,), (2, 3), (1,), (0, 2)]))
    progs += [p for k, p in enumerate(rolls) if not quick or k % 3 == 0]
    progs += list(progspace.fam_stack_concat([(), (2,), (2, 3), (0, 2), (1,)]))
    basic = list(progspace.fam_basic_nd([(3,), (2, 3), (1, 3), (0, 2)]))
    progs += [p for k, p in enumerate(basic) if not quick or k % 5 == 0]
    progs += list(progspace.fam_advanced(rng, [(3,), (2, 3), (2, 3, 2), (3, 1), (1, 3)],
                                         8 if quick else 30))
    progs += list(progspace.fam_einsum())
    progs += list(progspace.fam_csr(rng, 4 if quick else 12))
    for p in progs:
        p["family"] = p["id"].split("/")[0]
    # the same graphs with tags of a UniqueTag class
    uniq = [copy.deepcopy(p) for p in progs
            if p["id"] in ("ew/add/0", "ew/add/1", "ew/mul/4", "red/sum/1", "share/diamond",
                           "einsum/0/ij,jk->ik", "einsum/bcast_redn", "concat_sp/0",
                           "tr/2x3/10", "alias/dict_entry", "dist/holder", "chain/matvec",
                           "expand/3", "reshape/1", "stack/2x3/k2/ax1")]
    for p in uniq:
        p["id"] = "unique/" + p["id"]
        p["family"] = "unique"
    return progs + uniq


# --------------------------------------------------------------------------
# tag placements

OPTS = [("Tag", True), ("Tag", True), ("A", True), ("B", True), ("Tag", False), ("A", False)]


def opts_for(pid: str) -> dict:
    t, redn = OPTS[h32(pid, "opts") % len(OPTS)]
    return {"tag_t": t, "redn": redn, "root": "array" if h32(pid, "root") % 4 == 0 else "dict"}


def slots_of(prog: dict) -> list[tuple]:
    """(value number, "ax" | "rd", index) of every axis and reduction
    descriptor of every value of the (untagged) program"""
    _, values = axes.build({**prog, "axtags": [], "rdtags": []})
    out = []
    for k, v in enumerate(values, start=1):
        if axes.taggable(v):
            out += [(k, "ax", i) for i in range(v.ndim)]
            out += [(k, "rd", j) for j in range(axes.n_redn(v))]
    return out


def place(prog: dict, pid: str, marks: list[tuple]) -> dict:
    p = {k: v for k, v in prog.items() if k not in ("axtags", "rdtags")}
    p["id"] = pid
    p["axtags"] = [[k, i, t] for (k, w, i), t in marks if w == "ax"]
    p["rdtags"] = [[k, i, t] for (k, w, i), t in marks if w == "rd"]
    p["opts"] = opts_for(pid)
    return p


def placements(prog: dict, tier: str) -> list[dict]:
    slots = slots_of(prog)
    rng = np.random.default_rng([seed(), h32(prog["id"])])
    out = []
    ns = len(slots)
    if ns == 0:
        return [place(prog, prog["id"] + "#none", [])]
    for s in slots:
        out.append(place(prog, f"{prog['id']}#1:{s}", [(s, "A")]))
    pairs = list(itertools.product(range(ns), repeat=2))
    cap = 10 if tier == "quick" else 10 ** 9
    sel = pairs if len(pairs) <= cap else [pairs[i] for i in rng.permutation(len(pairs))[:cap]]
    for i, j in sel:
        out.append(place(prog, f"{prog['id']}#2:{slots[i]}{slots[j]}",
                         [(slots[i], "A"), (slots[j], "B")]))
    sel = pairs if len(pairs) <= cap else [pairs[i] for i in rng.permutation(len(pairs))[:cap]]
    for i, j in sel:
        out.append(place(prog, f"{prog['id']}#i:{slots[i]}{slots[j]}",
                         [(slots[i], "A"), (slots[j], "Ign" if (i + j) % 3 else "IgnSub")]))
    pool = ["A", "A", "A2", "B", "B", "B:1", "Ign", "IgnSub"]
    for r in range(6 if tier == "quick" else 30):
        k = int(rng.integers(2, 6))
        marks = [(slots[int(rng.integers(ns))], pool[int(rng.integers(len(pool)))])
                 for _ in range(k)]
        out.append(place(prog, f"{prog['id']}#r{r}", marks))
    return out


def unique_placements(prog: dict, tier: str) -> list[dict]:
    """two tags of one UniqueTag class (and a shared plain tag) on every pair
    of slots: NonUniqueTagError exactly where the two may meet"""
    slots = slots_of(prog)
    out = []
    pairs = [(i, j) for i, j in itertools.product(range(len(slots)), repeat=2) if i != j]
    rng = np.random.default_rng([seed(), h32(prog["id"]), 9])
    cap = 12 if tier == "quick" else 10 ** 9
    sel = pairs if len(pairs) <= cap else [pairs[i] for i in rng.permutation(len(pairs))[:cap]]
    for i, j in sel:
        marks = [(slots[i], "U:1"), (slots[j], "U:2")]
        if (i + j) % 2:
            marks += [(slots[i], "B"), (slots[j], "B")]
        q = place(prog, f"{prog['id']}#u:{slots[i]}{slots[j]}", marks)
        q["opts"]["tag_t"] = "U" if (i + 2 * j) % 3 == 0 else "Tag"
        out.append(q)
    return out


def random_programs(tier: str) -> list[dict]:
    rng = np.random.default_rng([seed(), 77])
    n = 700 if tier == "quick" else 6000
    ops = [o for o in progspace.ALL_OPS]
    out = []
    for k in range(n):
        p = progspace.random_program(rng, f"rand/{k}", int(rng.integers(2, 9)), ops=ops,
                                     dtypes=("f8", "f8", "f8", "f4", "i8", "b1"))
        p["family"] = "random"
        p["nplace"] = 2 if tier == "quick" else 4
        out.append(p)
    return out


def random_placements(prog: dict) -> list[dict]:
    slots = slots_of(prog)
    if not slots:
        return []
    rng = np.random.default_rng([seed(), h32(prog["id"]), 5])
    pool = ["A", "A", "A2", "B", "B", "B:1", "Ign", "IgnSub"]
    out = []
    for r in range(prog.get("nplace", 2)):
        k = int(rng.integers(1, 7))
        marks = [(slots[int(rng.integers(len(slots)))], pool[int(rng.integers(len(pool)))])
                 for _ in range(k)]
        out.append(place(prog, f"{prog['id']}#r{r}", marks))
    return out


# --------------------------------------------------------------------------
# G: instances printed by TLC, realised as programs

def realise(inst: dict, k: int) -> dict:
    """Vertices are 1-d placeholders of length 3; a MUST equation is an
    operation on the two (its kind chosen by the instance number), a MAY
    equation goes through a concatenation with an empty array."""
    n = inst["n"]
    # (every gadget's intermediate nodes are private to its equation: a shared
    # intermediate would relate two equations behind the back of an ignored vertex)
    inputs = [inp(f"v{i}", (3,)) for i in range(1, n + 1)] + \
             [inp(f"empty{e}", (0,)) for e in range(len(inst["may"]))]
    calls: list[dict] = []
    outs: dict[str, int] = {}

    def add(call: dict, out: bool = True) -> int:
        calls.append(call)
        ref = len(inputs) + len(calls)
        if out:
            outs[f"o{ref}"] = ref
        return ref

    for e, (i, j) in enumerate(inst["must"]):
        kind = (k + e) % 5
        if kind == 0:
            add({"op": "add", "a": i, "b": j})
        elif kind == 1:
            add({"op": "stack", "arrays": [i, j], "axis": 0})
        elif kind == 2:
            add({"op": "einsum", "spec": "i,i->i", "args": [i, j]})
        elif kind == 3:
            add({"op": "einsum", "spec": "i,i->", "args": [i, j]})       # via a reduction
        else:
            r = add({"op": "roll", "a": i, "shift": [1, 2, 4][e], "axis": 0}, out=False)
            # (a rolled axis has no equation: this pair needs its own)
            add({"op": "stack", "arrays": [r, j, i], "axis": 1})
    for e, (i, j) in enumerate(inst["may"]):
        c = add({"op": "concatenate", "arrays": [i, n + 1 + e], "axis": 0}, out=False)
        add({"op": "add", "a": c, "b": j})
    for i in range(1, n + 1):       # every vertex is an output (unrelated ones stay unrelated)
        outs[f"v{i}"] = i
    axtags = []
    for v, tags in enumerate(inst["tags"], start=1):
        axtags += [[v, 0, TAGNAME[t]] for t in tags]
    axtags += [[v, 0, "Ign"] for v in inst["ign"]]
    return {"id": f"gen/{k}", "family": "generated", "inputs": inputs, "calls": calls,
            "outs": outs, "axtags": axtags, "rdtags": [],
            "opts": {"tag_t": "Tag", "redn": True, "root": "dict"}, "inst": inst}


def generated_programs(tier: str, run: Run) -> list[dict]:
    res = tlc.run_tlc("PtAxesMC", "PtAxesGen.cfg", workers=1, timeout=900)
    if res.error or res.violated:
        raise MachineryError(f"generator PtAxesGen failed: {res.error or res.violated}")
    insts = tlc.parse_printed_json(res, "INST")
    if len(insts) != 27 * 8 * 64:
        raise MachineryError(f"generator printed {len(insts)} instances, expected 13824")
    run.coverage["generator_states"] = res.distinct
    progs = [realise(inst, k) for k, inst in enumerate(insts)]
    if tier == "quick":
        # every instance with a leak-prone or blocked shape, and every 4th of the rest
        keep = []
        for k, p in enumerate(progs):
            i = p["inst"]
            interesting = i["impl"] != i["lower"] or i["lower"] != i["upper"]
            if interesting or k % 4 == seed() % 4:
                keep.append(p)
        progs = keep
    return progs


# --------------------------------------------------------------------------
# one run of the real implementation

def run_program(prog: dict) -> dict:
    import pytato as pt
    from pytato.transform.metadata import unify_axes_tags
    res: dict[str, Any] = {"id": prog["id"], "status": "ok", "problems": [], "record": None,
                           "family": prog.get("family", "?")}
    try:
        outs, _ = axes.build(prog)
    except rp.Rejected as ex:
        res["status"] = "rejected:" + str(ex)[:80]
        return res
    except Unsupported as ex:
        res["status"] = "unsupported:" + str(ex)[:60]
        return res
    except Exception as ex:      # noqa: BLE001
        if type(ex).__name__ != "NonUniqueTagError":
            raise
        # the placement itself puts two exclusive tags on one axis (two values of the
        # program are one node): not a program
        res["status"] = "rejected:placement is not taggable (NonUniqueTagError)"
        return res
    if not outs or not all(isinstance(v, pt.Array) for v in outs.values()):
        res["status"] = "non_array_output"
        return res
    opts = prog["opts"]
    tag_t = axes.tag_type(opts["tag_t"])
    try:
        g = pt.transform.deduplicate(pt.make_dict_of_named_arrays(outs))
    except Exception as ex:      # noqa: BLE001
        res["status"] = f"dedup_failed:{type(ex).__name__}"
        return res
    if opts.get("root") == "array" and len(outs) == 1:
        g = g._data[next(iter(outs))]
    kw = {"tag_t": tag_t, "unify_redn_descrs": opts["redn"]}
    has_functions = False
    try:
        ga, tags_a = axes.export(g)
    except axes.HasFunctions:
        has_functions = True
    except Unsupported as ex:
        res["status"] = "unsupported:" + str(ex)[:60]
        return res
    if has_functions:
        try:
            unify_axes_tags(g, **kw)
            res["status"] = "functions_accepted_unjudged"
        except NotImplementedError:
            res["status"] = "functions_refused_as_documented"
        except Exception as ex:      # noqa: BLE001
            res["problems"].append({"clause": "raised", "what": f"{type(ex).__name__}: {ex}"[:300]})
        return res
    snap = json.dumps(ga, sort_keys=True)
    try:
        b = unify_axes_tags(g, **kw)
    except Exception as ex:      # noqa: BLE001
        if type(ex).__name__ == "NonUniqueTagError":
            # allowed iff the specification lets two exclusive tags meet on an axis
            from pytato.transform.metadata import AxisIgnoredForPropagationTag
            rec = {"id": prog["id"], "a": ga, "raised": f"NonUniqueTagError: {ex}"[:200],
                   "groups": axes.conflicting_pairs(tags_a),
                   "prop": sorted(n for n, t in tags_a.items() if isinstance(t, tag_t)),
                   "ign": sorted(n for n, t in tags_a.items()
                                 if isinstance(t, AxisIgnoredForPropagationTag)),
                   "redn": bool(opts["redn"])}
            res.update(record=rec, hand=axes.judge(rec), nvars=axes.n_axis_vars(ga),
                       nnodes=len(ga["nodes"]), kinds=sorted({n["kind"] for n in ga["nodes"]}),
                       status="unique_tag_error")
            return res
        res["problems"].append({"clause": "raised", "what": f"{type(ex).__name__}: {ex}"[:300]})
        return res
    if json.dumps(axes.export(g)[0], sort_keys=True) != snap:
        res["problems"].append({"clause": "input_mutated",
                                "what": "the export of the input graph changed"})
    try:
        c = unify_axes_tags(b, **kw)
    except Exception as ex:      # noqa: BLE001
        res["problems"].append({"clause": "raised_twice",
                                "what": f"{type(ex).__name__}: {ex}"[:300]})
        c = None
    try:
        gb, tags_b = axes.export(b)
        gc, tags_c = axes.export(c) if c is not None else (None, {})
    except (Unsupported, axes.HasFunctions) as ex:
        res["problems"].append({"clause": "structure",
                                "what": f"the result cannot be exported: {ex}"})
        return res
    rec = axes.make_record(prog["id"], ga, gb, gc, {**tags_a, **tags_b, **tags_c}, tag_t,
                           opts["redn"])
    res["record"] = rec
    res["hand"] = axes.judge(rec)
    res["nvars"] = axes.n_axis_vars(ga)
    res["nnodes"] = len(ga["nodes"])
    res["kinds"] = sorted({n["kind"] for n in ga["nodes"]})
    if "inst" in prog:
        res["gen"] = compare_with_instance(prog, rec)
    return res


def compare_with_instance(prog: dict, rec: dict) -> dict:
    """spec -> code: the tags of the vertex placeholders in the real result
    against the bounds TLC printed for the abstract instance"""
    inst = prog["inst"]
    a, b, m = rec["a"], rec["b"], rec["map"]
    name = {101: axes.tname(axes.make_tag("A")), 102: axes.tname(axes.make_tag("B"))}
    out = {"verdict": "ok", "is_lower": True, "is_leaky_model": True}
    if not m:
        return {"verdict": "structure", "is_lower": False, "is_leaky_model": False}
    outpos = {o["name"]: o["node"] for o in a["outs"]}
    for v in range(1, inst["n"] + 1):
        p = outpos[f"v{v}"]
        got = set(b["nodes"][m[p - 1] - 1]["ax"][0]) & set(name.values())
        given = {name[t] for t in inst["tags"][v - 1]}
        lower = {name[t] for t in inst["lower"][v - 1]}
        upper = {name[t] for t in inst["upper"][v - 1]}
        impl = {name[t] for t in inst["impl"][v - 1]}
        if not (given | lower) <= got:
            out["verdict"] = "missing"
        elif not got <= given | upper and out["verdict"] == "ok":
            out["verdict"] = "extra"
        if got != given | lower:
            out["is_lower"] = False
        if got != given | impl:
            out["is_leaky_model"] = False
    return out


def _expand_and_run(progs: list[dict]) -> list[list[dict]]:
    out = []
    for p in progs:
        try:
            if "axtags" in p:
                plist = [p]
            elif p.get("family") == "random":
                plist = random_placements(p)
            elif p.get("family") == "unique":
                plist = unique_placements(p, p.get("tier", "quick"))
            else:
                plist = placements(p, p.get("tier", "quick"))
        except (rp.Rejected, Unsupported) as ex:
            out.append([{"id": p["id"], "status": "rejected:" + str(ex)[:80], "problems": [],
                         "record": None, "family": p.get("family", "?")}])
            continue
        rs = []
        for q in plist:
            r = run_program(q)
            r["prog"] = q
            rs.append(r)
        out.append(rs)
    return out


# --------------------------------------------------------------------------
# M: the propagation semantics on its own

MC_QUICK = [("PtAxesMC3.cfg", 110592)]
MC_THOROUGH = [("PtAxesMC3.cfg", 110592), ("PtAxesMC.cfg", 262144), ("PtAxesMC4m.cfg", 186624),
               ("PtAxesMC3t.cfg", 884736), ("PtAxesMC3a.cfg", 13824)]


def model_check(tier: str, run: Run, box: dict) -> None:
    try:
        states = trans = 0
        for cfg, expect in (MC_QUICK if tier == "quick" else MC_THOROUGH):
            res = tlc.run_tlc("PtAxesMC", cfg, workers=max(2, NCPU // 2), timeout=3000, heap="4g")
            if not res.ok:
                failed = [ln for ln in res.printed if "FAILED" in ln][:3]
                raise MachineryError(f"the specification violates its own properties "
                                     f"({cfg}): {res.violated} {failed} {res.error or ''}")
            if res.distinct != expect:
                raise MachineryError(f"{cfg}: {res.distinct} instances, expected {expect}")
            states += res.distinct
            trans += res.generated
        # negative controls: TLC must refute these
        for cfg, inv in (("PtAxesLeak.cfg", "ImplWithinUpper"),
                         ("PtAxesLenient.cfg", "LenientIdempotent")):
            res = tlc.run_tlc("PtAxesMC", cfg, workers=1, timeout=600)
            if res.error or inv not in res.violated:
                raise MachineryError(f"negative control {cfg}: TLC did not refute {inv} "
                                     f"({res.error or res.violated})")
            states += res.distinct
            trans += res.generated
        box["mc"] = (states, trans)
    except BaseException as ex:      # noqa: BLE001
        box["error"] = ex


# --------------------------------------------------------------------------

def main(tier: str, only: list[dict] | None = None) -> int:
    run = Run(PROP, tier, "model_checking")
    box: dict[str, Any] = {}
    mc_thread = None
    if only is None:
        mc_thread = threading.Thread(target=model_check, args=(tier, run, box))
        mc_thread.start()
        rng = np.random.default_rng([seed(), 1])
        progs: list[dict] = []
        for p in base_programs(tier, rng):
            p["tier"] = tier
            progs.append(p)
        progs += random_programs(tier)
        progs += generated_programs(tier, run)
    else:
        progs = only
    nbase = len(progs)
    results = [r for rs in robust_map(
        _expand_and_run, progs, chunk=max(1, min(40, len(progs) // (NCPU * 3) or 1)),
        crashed=lambda item, why: [{"id": item["id"], "status": "crashed:" + why[:60],
                                    "problems": [], "record": None,
                                    "family": item.get("family", "?")}])
        for r in rs]
    status: dict[str, int] = {}
    fam: dict[str, int] = {}
    kinds: dict[str, int] = {}
    records = []
    for r in results:
        st = r["status"].split(":")[0]
        status[st] = status.get(st, 0) + 1
        if st in ("unsupported", "rejected", "crashed", "dedup_failed", "non_array_output"):
            d = run.coverage.setdefault("skipped_reasons", {})
            d[r["status"][:70]] = d.get(r["status"][:70], 0) + 1
        for pr in r["problems"]:
            run.violation(f"{r['id']}/{pr['clause']}",
                          f"unify_axes_tags on {r['id']}: {pr['clause']}: {pr['what']}",
                          record=r.get("prog"), observed=pr["what"],
                          sig={"clause": pr["clause"], "exc": pr["what"].split(":")[0]})
        if r["record"] is not None:
            records.append(r["record"])
            fam[r["family"]] = fam.get(r["family"], 0) + 1
            for kd in r.get("kinds", []):
                kinds[kd] = kinds.get(kd, 0) + 1
    if status.get("crashed"):
        raise MachineryError(f"{status['crashed']} program(s) crashed their worker")
    val = tlc.validate_records("PtAxesCheck", "PtAxesCheck.cfg", records, timeout=3000,
                               shards=NCPU if len(records) > 200 else 1)
    by_id = {r["id"]: r for r in results if r["record"] is not None}
    clauses: dict[str, int] = {}
    # (result_is_leaky_model: how many real results coincide with the documented
    # NEGATIVE example, the propagation graph with tag vertices -- all of them
    # before /repo commit 74f77a7, only the leak-free ones after it)
    gen_stats = {"instances": 0, "result_is_lower_bound": 0, "result_is_leaky_model": 0,
                 "leak_prone_instances": 0}
    for rec in records:
        r = by_id[rec["id"]]
        v = val.verdicts[rec["id"]]
        hand, detail = r["hand"]
        if v != hand:
            raise MachineryError(
                f"specification and hand computation disagree on {rec['id']}: TLC says '{v}', "
                f"hand computation says '{hand}' ({detail}); program: "
                f"{json.dumps(r['prog'])[:1500]}")
        if v == "spec_shape":
            raise MachineryError(f"the specification cannot read a node of {rec['id']}: {detail}")
        clauses[v] = clauses.get(v, 0) + 1
        if "gen" in r:
            gen_stats["instances"] += 1
            gen_stats["result_is_lower_bound"] += bool(r["gen"]["is_lower"])
            gen_stats["result_is_leaky_model"] += bool(r["gen"]["is_leaky_model"])
            gen_stats["leak_prone_instances"] += \
                r["prog"]["inst"]["impl"] != r["prog"]["inst"]["lower"]
            gv = r["gen"]["verdict"]
            if gv != "ok" and v == "ok":
                raise MachineryError(
                    f"{rec['id']}: the bounds TLC printed for the abstract instance reject the "
                    f"real result ({gv}) but the node rules accept it: the realisation of the "
                    f"instance and the rules disagree")
        if v != "ok":
            opts = r["prog"]["opts"]
            run.violation(rec["id"],
                          f"unify_axes_tags(tag_t={opts['tag_t']}, unify_redn_descrs="
                          f"{opts['redn']}) on {rec['id']}: clause '{v}': {detail}",
                          record=r["prog"], observed=detail,
                          sig={"clause": v, "family": r["family"],
                               "base": rec["id"].split("#")[0]})
    if mc_thread is not None:
        mc_thread.join()
        if "error" in box:
            raise box["error"]
    mc_states, mc_trans = box.get("mc", (0, 0))
    nontrivial = sum(1 for r in results if r["record"] is not None and r.get("nvars", 0) >= 2
                     and (r["prog"].get("axtags") or r["prog"].get("rdtags")))
    run.coverage.update({
        "states": val.states + mc_states, "transitions": val.transitions + mc_trans,
        "model_checked_instances": mc_states,
        "traces_validated_against_impl": len(records),
        "evaluations": len(results), "distinct_nontrivial": nontrivial,
        "rule": "one evaluation = one (program, tag placement, tag_t, unify_redn_descrs) run of "
                "unify_axes_tags, twice; non-trivial = judged by TLC, at least two axis "
                "variables and at least one placed tag",
        "base_programs": nbase, "status": status, "records_by_family": fam,
        "records_with_node_kind": kinds, "verdicts": clauses, "generated": gen_stats,
        "exhaustive": False, "tlc_wall_s": round(val.wall, 1),
    })
    for r in results[:2]:
        run.sample({"program": r.get("prog"), "status": r["status"], "verdict": r.get("hand")})
    run.assumptions += [
        "structurally equal nodes are one node (the graph is deduplicated first)",
        "symbolic shapes, loopy-call results and multi-entry dictionaries used as operands are "
        "outside the exporter (counted as unsupported)",
        "MAY rules (PtAxes.tla part 2) widen the upper bound only; see notes/axes.md"]
    return run.finish()


def replay(rep: dict) -> int:
    return main("quick", only=[rep["record"]])


def selftest(tier: str) -> int:
    """The binding, both ways: (1) a record of a real run is accepted, and is
    rejected by BOTH voices once one exported axis tag is removed / added /
    replaced; (2) with one equation rule dropped from the specification
    (AXES_DROP_RULE) the same genuine record is rejected."""
    prog = {"id": "st", "family": "selftest", "inputs": [inp("x", (2, 3)), inp("y", (3, 2))],
            "calls": [{"op": "transpose", "a": 1, "axes": [1, 0]},
                      {"op": "add", "a": 3, "b": 2}],
            "outs": {"out": 4}, "axtags": [[1, 0, "A"], [2, 0, "B"]], "rdtags": [],
            "opts": {"tag_t": "A", "redn": True, "root": "dict"}}
    r = run_program(prog)
    rec = r["record"]
    assert rec is not None, r
    variants = {"genuine": rec}
    tag_a = axes.tname(axes.make_tag("A"))
    tag_b = axes.tname(axes.make_tag("B"))
    # the output (last node) carries A on axis 1 after unification: drop it
    bad = copy.deepcopy(rec)
    out_b = bad["b"]["outs"][0]["node"] - 1
    assert tag_a in bad["b"]["nodes"][out_b]["ax"][1], bad["b"]["nodes"][out_b]
    bad["b"]["nodes"][out_b]["ax"][1].remove(tag_a)
    variants["dropped_tag"] = bad
    bad = copy.deepcopy(rec)
    bad["b"]["nodes"][out_b]["ax"][0].append(tag_a)       # A where no equation leads
    variants["extra_tag"] = bad
    bad = copy.deepcopy(rec)
    bad["b"]["nodes"][out_b]["ax"][1].append(tag_b)       # B is not of type tag_t = A
    variants["foreign_tag"] = bad
    bad = copy.deepcopy(rec)
    bad["b"]["nodes"][out_b]["sig"] = "0" * 16            # something else changed
    variants["other_change"] = bad
    want = {"genuine": "ok", "dropped_tag": "missing", "extra_tag": "extra",
            "foreign_tag": "foreign_tag", "other_change": "structure"}
    recs = []
    for name, v in variants.items():
        v = dict(v, id=name)
        recs.append(v)
    val = tlc.validate_records("PtAxesCheck", "PtAxesCheck.cfg", recs, shards=1)
    hand = {v["id"]: axes.judge(v)[0] for v in recs}
    ok = all(val.verdicts[k] == want[k] and hand[k] == want[k] for k in want)
    # (2) the specification without the transpose rule rejects the genuine record
    val2 = tlc.validate_records("PtAxesCheck", "PtAxesCheck.cfg", [dict(rec, id="genuine")],
                                shards=1, env={"AXES_DROP_RULE": "perm"})
    ok = ok and val2.verdicts["genuine"].startswith("extra")
    print("selftest", "passed" if ok else "FAILED", {"tlc": val.verdicts, "hand": hand,
                                                     "rule_dropped": val2.verdicts})
    return 0 if ok else 2
