"""C08 -- partitioned distributed execution terminates and is faithful in all
schedules.

G: spec/DistComm.tla enumerates multi-rank programs (exhaustively up to rank
   symmetry for small bounds, by -simulate beyond); a fixed library adds the
   named topologies.  The harness builds the real per-rank DAGs and runs the
   REAL find_distributed_partition -> verify -> number_distributed_tags on all
   ranks under a simulated MPI (ptverif/fakempi.py).
M: the exported partitions of all ranks are the instance data of
   spec/DistExec.tla (the executor at the grain of its blocking MPI calls
   over a model of MPI matching); TLC explores ALL schedules of every
   instance: crash (KeyError = read before produced / after released, debug
   asserts, missing outputs), spin, misdelivery, wrong outputs, deadlock, a
   receive request or a message left over when the ranks return;
   liveness <>AllDone under weak fairness in a separate run.
E: the REAL execute_distributed_partition runs under a controlled scheduler
   (choice points: which rank continues, which subset Waitsome returns) on
   seeded random schedules and, by depth-first re-execution, on ALL schedules
   of the instances that are small enough; every run's outputs are compared
   with a reference evaluation of the unpartitioned global graph, every run's
   event trace is validated by spec/DistTrace.tla (each step must be the
   DistExec action with the logged arguments and lead to the logged state),
   and for the fully explored instances the set of global states the real
   executor reached must EQUAL the set TLC reaches.
R: for a sample of the programs (and floating-point variants of some) the
   parts are run by REAL generated code: pytato's generate_code_for_partition
   with the harness's C target (ptverif/cexec.py, gcc), each BoundCProgram
   behind a (queue, **inputs) -> (evt, dict) adapter, executed by the real
   execute_distributed_partition under the controlled scheduler in several
   schedules, in isolated worker processes (a kernel that kills or hangs its
   process is an execution_crashed violation).  Outputs must equal the
   unpartitioned global NumPy evaluation (integers exactly, floats within
   ptverif.runprog.compare's tolerance), every kernel result must equal the
   reference evaluation of its part on the same inputs, and the traces go
   through DistTrace like all others.
"""
from __future__ import annotations

import json
from concurrent.futures import ThreadPoolExecutor
import time
from typing import Any

from ptverif import distcheck as dc
from ptverif import distprogs as dp
from ptverif import disttags
from ptverif.common import MachineryError, Run, seed

PROP = "C08"


def programs(tier: str) -> tuple[list[dict], list[dict]]:
    stats = []
    if tier == "quick":
        progs = dp.library(("str",))
        progs += [p for k, p in enumerate(dp.library(disttags.KINDS[1:]))
                  if k % 6 == seed() % 6]
        bs, st = dp.generate("struct", MaxRanks=3, MaxOps=3)
        stats.append(st)
        progs += dp.progs_from(bs)
        bs, st = dp.generate("sim", simulate=160, MaxRanks=4, MaxOps=6, NTags=3,
                             Variants=True, MinOps=2, Exhaustive=False)
        stats.append(st)
        progs += dp.progs_from(bs)
    else:
        progs = dp.library(disttags.KINDS)
        bs, st = dp.generate("struct", MaxRanks=3, MaxOps=4)
        stats.append(st)
        progs += dp.progs_from(bs)
        bs, st = dp.generate("var", MaxRanks=2, MaxOps=1, Variants=True)
        stats.append(st)
        progs += dp.progs_from(bs)
        for lab, minops, num in (("sim2", 2, 1500), ("sim4", 4, 1500)):
            bs, st = dp.generate(lab, simulate=num, MaxRanks=4, MaxOps=6, NTags=3,
                                 Variants=True, MinOps=minops, Exhaustive=False, timeout=1500)
            stats.append(st)
            progs += dp.progs_from(bs)
    seen, out = set(), []
    for p in progs:
        if p["id"] not in seen:
            seen.add(p["id"])
            out.append(p)
    return out, stats


def nmsgs(prog: dict) -> int:
    return sum(1 for rk in prog["ranks"] for nd in rk["nodes"] if nd["k"] == "hold")


def sig_of(prog: dict, clause: str) -> dict:
    return {"clause": clause, "forward_recv": dp.has_forward_recv(prog),
            "nested_holder": dp.has_nested_holder(prog),
            "source": prog["id"].split("/")[0]}


class _Proxy:
    """Run with an intercepted violation() (to remember which programs were
    flagged); everything else is the Run itself."""

    def __init__(self, run: Run, violation: Any):
        self._run, self.violation = run, violation

    def __getattr__(self, k: str) -> Any:
        return getattr(self._run, k)


def real_code_sample(progs: list[dict], tier: str) -> list[dict]:
    """Programs whose parts are run by generated code: the whole str-tag
    library, every k-th of the rest, and float64 variants of some."""
    import copy
    lib = [p for p in progs if p["id"].startswith("lib/") and "@" not in p["id"]]
    rest = [p for p in progs if p not in lib and nmsgs(p) >= 1]
    k = max(1, len(rest) // (45 if tier == "quick" else 700))
    pick = lib + rest[seed() % k::k]
    nfl = 12 if tier == "quick" else 120
    step = max(1, len(pick) // nfl)
    floats = [dict(copy.deepcopy(p), id=p["id"] + "~f8", dtype="f8") for p in pick[::step]]
    return pick + floats


def analyse_real_code(run: Any, by_id: dict[str, dict], real: list[dict]) -> dict:
    nparts = nruns = 0
    for r in real:
        p = by_id[r["id"]]
        if r.get("crashed"):
            run.violation(f"{r['id']}:execution_crashed",
                          f"{r['id']}: running the generated part programs killed or hung the "
                          f"worker process: {r['crashed']}", record={"prog": p, "real_code": True},
                          sig=sig_of(p, "execution_crashed"))
            continue
        if r.get("machinery") or r.get("hang"):
            raise MachineryError(f"{r['id']} (real-code stage): "
                                 f"{r.get('machinery') or r.get('hang')}")
        if not r.get("numbered"):
            continue
        for c in r.get("codegen", []):
            run.violation(f"{r['id']}:real_code:codegen:{c['rank']}",
                          f"{r['id']}: generate_code_for_partition (C target) fails on rank "
                          f"{c['rank']}: {c['exc']}: {c['msg']}",
                          record={"prog": p, "real_code": True}, observed=c,
                          sig=dict(sig_of(p, "real_code:codegen"), exc=c["exc"]))
        nparts += r.get("nparts", 0)
        for x in r.get("runs", []):
            nruns += 1
            kinds = []
            if x["bad_outputs"]:
                kinds.append("real_code:wrong_output")
            for ki in x["kernel_issues"]:
                kinds.append("real_code:" + ki["what"])
            if x["stuck"]:
                kinds.append("real_code:deadlock")
            for st in x["status"]:
                if st["status"] == "raised":
                    kinds.append("real_code:crash:" + st["exc"])
            for lo in x.get("leftovers", []):
                kinds.append("real_code:" + lo["what"])
            for kd in sorted(set(kinds)):
                run.violation(
                    f"{r['id']}:{kd}",
                    f"{r['id']}: parts run by generated C code, schedule {x['choices']}: {kd}; "
                    f"{x['bad_outputs'][:1]} {x['kernel_issues'][:1]} "
                    f"{[(s_['status'], s_['exc'], s_['msg'][:80]) for s_ in x['status'] if s_['status'] != 'ok']}",
                    record={"prog": p, "choices": x["choices"], "grain": x["grain"],
                            "real_code": True},
                    observed={k_: x[k_] for k_ in ("bad_outputs", "kernel_issues", "status")},
                    sig=sig_of(p, ":".join(kd.split(":")[:2])))
    return {"programs": len(real), "parts_compiled_and_run": nparts, "executions": nruns,
            "float_variants": sum(1 for r in real if r["id"].endswith("~f8")),
            "crashed": sum(1 for r in real if r.get("crashed"))}


def analyse(run: Run, progs: list[dict], results: list[dict], tier: str,
            do_live: bool = True, real: list[dict] | None = None,
            real_progs: list[dict] | None = None) -> dict:
    by_id = {p["id"]: p for p in progs}
    by_id.update({p["id"]: p for p in real_progs or []})
    insts = []
    flagged: set[str] = set()      # programs on which the real code already misbehaved
    _violation = run.violation

    def violation(key: str, what: str, **kw: Any) -> None:
        flagged.add(key.split(":", 1)[0].rsplit("#", 1)[0])
        _violation(key, what, **kw)
    run = _Proxy(run, violation)     # type: ignore[assignment]
    for r in results:
        p = by_id[r["id"]]
        if r.get("hang"):
            raise MachineryError(f"{r['id']}: {r['hang']}")
        if not r.get("ref_ok"):
            raise MachineryError(f"{r['id']}: the reference evaluator finds a program of the "
                                 f"valid space malformed: {r.get('ref_err')}")
        if not r.get("numbered"):
            run.add("valid_programs_not_partitioned")      # C10 / C09 report this
            continue
        d = r.get("dfs", {})
        if d.get("hang"):
            raise MachineryError(f"{r['id']}: {d['hang']}")
        insts.append(dict(r["inst"], dump=bool(d.get("states"))))
        for s in r.get("static", []):
            run.violation(f"{r['id']}:static:{s['rank']}:{s['name']}",
                          f"{r['id']}: the partition's expression for {s['what']} "
                          f"{s['name']!r} on rank {s['rank']} differs from the unpartitioned "
                          f"global graph", record={"prog": p}, sig=sig_of(p, "static"))
        for c in r.get("codegen", []):
            run.violation(f"{r['id']}:codegen:{c['rank']}",
                          f"{r['id']}: generate_code_for_partition fails on rank {c['rank']}'s "
                          f"partition: {c['exc']}: {c['msg']}", record={"prog": p},
                          observed=c, sig=dict(sig_of(p, "codegen"), exc=c["exc"]))
        for x in r.get("reexec", []):
            run.violation(f"{r['id']}:reexec:{x['rank']}:{x['clause']}",
                          f"{r['id']}: {x['what']}", record={"prog": p}, observed=x,
                          sig=sig_of(p, x["clause"]))
        if "reexec" in r:
            run.add("programs_reexecuted_3x_on_one_partition_object")
        for x in r.get("runs", []):
            if x.get("hang"):
                raise MachineryError(f"{r['id']}: {x['hang']}")
            kinds = []
            if x["bad_outputs"]:
                kinds.append("wrong_output")
            if x["stuck"]:
                kinds.append("deadlock")
            for st in x["status"]:
                if st["status"] == "raised":
                    kinds.append("spin" if st["exc"] == "SpinDetected" else "crash:" + st["exc"])
            if x["anomalies"]:
                kinds.append("mpi:" + x["anomalies"][0]["what"])
            for lo in x.get("leftovers", []):
                kinds.append(lo["what"])
            for kd in sorted(set(kinds)):
                run.violation(
                    f"{r['id']}:exec:{kd}",
                    f"{r['id']}: real executor, schedule {x['choices']} ({x['grain']} grain): "
                    f"{kd}; status {[(s['status'], s['exc'], s['msg'][:60]) for s in x['status']]}"
                    f" {x['bad_outputs'][:1]}",
                    record={"prog": p, "choices": x["choices"], "grain": x["grain"]},
                    observed=x, sig=sig_of(p, kd.split(":")[0]))
        for b in d.get("bad", []):
            kd = "wrong_output" if b["bad_outputs"] else (
                "deadlock" if b["stuck"] else (
                    b["leftovers"][0]["what"] if b.get("leftovers") else "crash"))
            run.violation(f"{r['id']}:dfs:{kd}",
                          f"{r['id']}: real executor, schedule {b['choices']} found by "
                          f"exhaustive search: {kd}; status "
                          f"{[(s['status'], s['exc'], s['msg'][:60]) for s in b['status']]}",
                          record={"prog": p, "choices": b["choices"], "grain": "model"},
                          observed={k: b.get(k) for k in ("status", "bad_outputs", "stuck",
                                                          "leftovers")},
                          sig=sig_of(p, kd))
    real_stats = analyse_real_code(run, by_id, real or [])
    recs = dc.trace_records(results + [r for r in (real or []) if "inst" in r])
    with ThreadPoolExecutor(max_workers=2) as ex:
        f_mc = ex.submit(dc.model_check, insts)
        f_tr = ex.submit(dc.validate_traces, recs)
        mc, val = f_mc.result(), f_tr.result()
    # TIME STEPPING (spec/DistExecEpochs.tla): two executions of the same partition object
    # per rank, not synchronised between ranks, all schedules; and the deviation it was
    # written to exclude (the executor works on the memoised counts themselves) must be
    # reported on every instance in which some part has an input
    ep_insts = [dict(i, dump=False) for i in insts if mc["clauses"].get(i["id"]) == {"ok"}]
    ep_insts = [i for i in ep_insts if sum(len(rk["parts"]) for rk in i["ranks"]) <= 6]
    if ep_insts:
        ep = dc.model_check(ep_insts, cfg="DistExecEpochs.cfg", module="DistExecEpochs")
        for iid, cl in ep["clauses"].items():
            for c in sorted(cl - {"ok"}):
                run.violation(f"{iid}:epochs:{c}",
                              f"{iid}: TLC finds a schedule of TWO consecutive executions of "
                              f"the real partition (DistExecEpochs) that ends in '{c}'",
                              record={"prog": by_id[iid]}, sig=sig_of(by_id[iid], "epochs:" + c))
        neg = dc.model_check(ep_insts[:40], cfg="DistExecEpochsAlias.cfg",
                             module="DistExecEpochs")
        with_inputs = [i["id"] for i in ep_insts[:40]
                       if any(p["ins"] for rk in i["ranks"] for p in rk["parts"])]
        missed = [iid for iid in with_inputs
                  if "assert_refcount" not in neg["clauses"].get(iid, set())]
        if with_inputs and missed:
            raise MachineryError(
                f"DistExecEpochs: the negative control (working on the memoised counts) is "
                f"not reported on {len(missed)} of {len(with_inputs)} instances, e.g. "
                f"{missed[0]}: {sorted(neg['clauses'].get(missed[0], set()))}")
        run.coverage.update({"epochs_instances": len(ep_insts), "epochs_states": ep["nstates"],
                             "epochs_transitions": ep["ntrans"],
                             "epochs_negative_control_instances": len(with_inputs)})
    # liveness only where safety holds (a deadlocked instance trivially never finishes)
    safe = [i for i in insts if mc["clauses"].get(i["id"]) == {"ok"}]
    lv = dc.liveness(safe if do_live else [])
    inst_by_id = {i["id"]: i for i in insts}
    for iid, cl in mc["clauses"].items():
        for c in sorted(cl - {"ok"}):
            p = by_id[iid]
            run.violation(f"{iid}:model:{c}",
                          f"{iid}: TLC finds a schedule of DistExec on the real partition that "
                          f"ends in '{c}'", record={"prog": p},
                          observed=dc.counterexample(inst_by_id[iid]), sig=sig_of(p, c))
    for rec in recs:
        v = val.verdicts[rec["id"]]
        if v != "ok":
            pid, run_tag = rec["id"].rsplit("#", 1)
            cl = "real_code:trace" if run_tag.startswith("c") else "trace"
            run.violation(f"{rec['id']}:trace",
                          f"{rec['id']}: the real executor's trace is not a behaviour of "
                          f"DistExec (event {val.detail.get(rec['id'])})",
                          record={"prog": by_id[pid]}, observed=val.detail.get(rec["id"]),
                          sig=sig_of(by_id[pid], cl))
    compared = real_states = 0
    for r in results:
        d = r.get("dfs", {})
        if not d.get("states"):
            continue
        a, b = set(d["states"]), mc["states"].get(r["id"], set())
        compared += 1
        real_states += len(a)
        if b - a and r["id"] not in flagged:
            raise MachineryError(
                f"{r['id']}: TLC reaches {len(b - a)} state(s) the exhaustively scheduled real "
                f"executor never reaches -- the model or the scheduler is wrong; e.g. "
                f"{sorted(b - a)[0][:400]}")
        if a - b:
            run.violation(f"{r['id']}:states",
                          f"{r['id']}: the real executor reaches {len(a - b)} global state(s) "
                          f"outside DistExec's reachable set, e.g. {sorted(a - b)[0][:300]}",
                          record={"prog": by_id[r["id"]]}, sig=sig_of(by_id[r["id"]], "states"))
    for b in lv.get("bad", []):
        run.violation(f"{b['inst']}:liveness", f"{b['inst']}: <>AllDone fails under weak fairness",
                      record={"prog": by_id.get(b["inst"])}, observed=b["trace"],
                      sig={"clause": "liveness"})
    return {"mc": mc, "val": val, "lv": lv, "recs": recs, "insts": insts,
            "compared": compared, "real_states": real_states, "real_code": real_stats}


def main(tier: str, only: list[dict] | None = None) -> int:
    run = Run(PROP, tier, "model_checking")
    t0 = time.time()
    if only is None:
        progs, gstats = programs(tier)
    else:
        progs, gstats = only, []
    t1 = time.time()
    opts = {"seed": seed(), "fine": True,
            "nrandom": 4 if tier == "quick" else 12,
            "dfs_runs": 150 if tier == "quick" else 2500,
            "dfs_keep": 1500 if tier == "quick" else 6000}
    results = dc.process_all(progs, opts)
    t2 = time.time()
    rprogs = real_code_sample(progs, tier) if only is None else \
        progs + [dict(p, id=p["id"] + "~f8", dtype="f8") for p in progs if "dtype" not in p]
    real = dc.process_real_all(rprogs, {"seed": seed(), "nreal": 3 if tier == "quick" else 6})
    t3 = time.time()
    a = analyse(run, progs, results, tier, real=real, real_progs=rprogs)
    run.coverage["phase_wall_s"] = {"generate": round(t1 - t0, 1), "real_code": round(t2 - t1, 1),
                                    "generated_kernels": round(t3 - t2, 1),
                                    "tlc": round(time.time() - t3, 1)}
    run.coverage["generated_code_stage"] = a["real_code"]
    mc, val, lv = a["mc"], a["val"], a["lv"]
    nontriv = sum(1 for p in progs if nmsgs(p) >= 1)
    nsched = sum(len(r.get("runs", [])) for r in results)
    dfs_done = [r for r in results if r.get("dfs", {}).get("complete")]
    run.coverage.update({
        "states": mc["nstates"] + val.states,
        "transitions": mc["ntrans"] + val.transitions,
        "traces_validated_against_impl": len(a["recs"]),
        "evaluations": len(progs),
        "distinct_nontrivial": nontriv,
        "rule": "programs: the named-topology library under several symbolic tag types, every "
                "communication structure DistComm enumerates in the bound (up to rank "
                "permutation), and TLC -simulate samples of the larger space with all variant "
                "dimensions; distinct by id (content hash); non-trivial = at least one message",
        "exhaustive": False,
        "distexec_states": mc["nstates"], "distexec_transitions": mc["ntrans"],
        "distexec_instances": len(a["insts"]),
        "liveness_states": lv["nstates"], "liveness_ok": lv["ok"],
        "real_schedules_random": nsched,
        "real_schedules_dfs_runs": sum(r.get("dfs", {}).get("runs", 0) for r in results),
        "instances_all_schedules_executed": len(dfs_done),
        "instances_state_sets_compared": a["compared"],
        "real_states_compared_equal": a["real_states"],
        "generator": gstats,
        "bounds": ("quick: library (str tags + a sixth of the other tag types), all structures "
                   "<= 3 ranks <= 3 messages 2 tags (default variants), 160 simulated walks "
                   "<= 4 ranks <= 6 messages 3 tags with all variants; "
                   "thorough: library x 7 tag types, all structures <= 3 ranks <= 4 messages, "
                   "all variants for <= 2 ranks 1 message, 3000 simulated walks"),
        "tlc_wall_s": round(mc["wall"] + val.wall, 1),
    })
    for p in progs[:1] + progs[len(progs) // 2:len(progs) // 2 + 1] + progs[-1:]:
        run.sample({"program": {k: p[k] for k in ("id", "nranks", "tagkind", "ranks")}})
    if a["recs"]:
        run.sample({"trace": {"id": a["recs"][0]["id"], "events": a["recs"][0]["events"][:4]}})
    run.assumptions += [
        "the simulated MPI (ptverif/fakempi.py) and DistExec's MPI model state the same "
        "semantics: non-overtaking matching per (source, tag), buffered Isend, rendezvous "
        "completion of Wait, Waitsome returning any non-empty completable subset; real MPI "
        "implementations are not exercised",
        "in the exhaustive-schedule stages part programs are a reference evaluator over the "
        "part expressions (NumPy, int64, exact); the generated-code stage runs pytato's own "
        "generate_code_for_partition output through loopy's C target and gcc (not OpenCL) on a "
        "sample of the programs under random schedules",
        "values in the model are ids of the expected values: a part fed an unexpected value "
        "produces poison, so data flow is decided for the sampled inputs' value identities "
        "(coefficients are node specific, collisions are improbable, not impossible)",
        "TLC, the JSON exporter and the harness's reflective DAG walk are trusted",
    ]
    return run.finish()


def replay(rep: dict) -> int:
    rec = rep["record"]
    prog = rec["prog"]
    run = Run(PROP, "quick", "model_checking")
    opts = {"seed": rep.get("seed", 0), "nrandom": 4, "dfs_runs": 2000, "dfs_keep": 6000,
            "fine": True}
    results = dc.process_all([prog], opts, nproc=1)
    if rec.get("choices") is not None and results[0].get("numbered"):
        # re-run exactly the recorded schedule
        from ptverif import distharness as dh
        from ptverif import fakempi
        pl = dh.run_pipeline(prog, seed=opts["seed"])
        vt = dh.ValueTable()
        inst = dh.export_instance(pl, vt)
        res = dh.ExecHarness(pl, inst, vt, fakempi.ReplayChooser(rec["choices"]),
                             grain=rec.get("grain", "model")).run()
        print("recorded schedule:", res.status,
              dc.compare_outputs(res, dh.global_reference(pl.dags, pl.inputs)[0]))
    a = analyse(run, [prog], results, "quick")
    run.coverage.update({"states": max(1, a["mc"]["nstates"]),
                         "transitions": max(1, a["mc"]["ntrans"]),
                         "traces_validated_against_impl": len(a["recs"]),
                         "evaluations": 1, "distinct_nontrivial": 1,
                         "samples": [prog["id"]]})
    return run.finish()


def selftest(tier: str) -> int:
    """Binding demonstration.  (a) drop one event from a real trace, (b) change
    one logged value, (c) corrupt one exported field of a real partition (a
    part no longer waits for its receive; one send carries another tag; the
    expected value of a received name is changed; an overall output is not
    produced): DistTrace must reject (a), (b); DistExec must report each of
    (c) with the right clause.  0 = demonstrated."""
    import copy

    from ptverif import tlc
    lib = {p["id"]: p for p in dp.library(("str",))}
    prog = lib["lib/roundtrip"]
    res = dc.process_all([prog], {"nrandom": 2, "dfs_runs": 0, "seed": seed()}, nproc=1)[0]
    recs = dc.trace_records([res])
    good = recs[0]
    dropped = copy.deepcopy(good)
    dropped["id"] = "dropped-event"
    k = next(i for i, e in enumerate(dropped["events"]) if e["ev"] == "waitsome")
    del dropped["events"][k]
    flipped = copy.deepcopy(good)
    flipped["id"] = "changed-value"
    e = next(e for e in flipped["events"] if e["ev"] == "exec" and e["after"]["ctx"])
    nm = sorted(e["after"]["ctx"])[0]
    e["after"]["ctx"][nm] += 1
    val = tlc.validate_records("DistTrace", "DistTrace.cfg", [good, dropped, flipped], shards=1)
    ok = (val.verdicts[good["id"]] == "ok" and val.verdicts["dropped-event"] == "rejected"
          and val.verdicts["changed-value"] == "rejected")
    print("trace binding:", val.verdicts, val.detail)
    inst = res["inst"]
    early = copy.deepcopy(inst)
    early["id"] = "part-does-not-wait-for-its-receive"
    for rk in early["ranks"]:
        for p in rk["parts"]:
            p["recvs"] = []
    retag = copy.deepcopy(inst)
    retag["id"] = "one-send-retagged"
    snd = next(s_ for rk in retag["ranks"] for p in rk["parts"] for s_ in p["sends"])
    snd["tag"] += 100
    wrongval = copy.deepcopy(inst)
    wrongval["id"] = "expected-value-of-a-received-name-changed"
    rk = next(rk for rk in wrongval["ranks"] if rk["posted"])
    rk["exp"][rk["posted"][0]["name"]] += 1
    noout = copy.deepcopy(inst)
    noout["id"] = "overall-output-not-produced"
    for rk in noout["ranks"]:
        for p in rk["parts"]:
            p["outs"] = [o for o in p["outs"] if o not in rk["overall"]]
    bad = [early, retag, wrongval, noout]
    mc = dc.model_check([dict(inst)] + bad, shards=1)
    print("model binding:", {k: sorted(v) for k, v in mc["clauses"].items()})
    ok = ok and mc["clauses"][inst["id"]] == {"ok"} \
        and "read_before_produced" in mc["clauses"][early["id"]] \
        and "deadlock" in mc["clauses"][retag["id"]] \
        and "misdelivery" in mc["clauses"][wrongval["id"]] \
        and "output_missing" in mc["clauses"][noout["id"]]
    # generated-code stage: a kernel result changed by one / a kernel that kills its process
    good_r = dc.process_real_all([prog], {"seed": seed(), "nreal": 2})[0]
    off = dc.process_real_all([dict(prog, id="kernel-result-off-by-one")],
                              {"seed": seed(), "nreal": 2, "selftest_fault": "off_by_one"})[0]
    die = dc.process_real_all([dict(prog, id="kernel-kills-its-process")],
                              {"seed": seed(), "nreal": 2, "selftest_fault": "die"}, timeout=60)[0]
    clean = all(not x["bad_outputs"] and not x["kernel_issues"] for x in good_r["runs"])
    seen = any(x["bad_outputs"] for x in off["runs"]) and \
        any(k["what"] == "kernel_vs_reference" for x in off["runs"] for k in x["kernel_issues"])
    print("generated-code binding: clean run", clean, "| off-by-one detected", seen,
          "| crash isolated:", die.get("crashed"))
    ok = ok and clean and seen and bool(die.get("crashed"))
    print("selftest", "passed" if ok else "FAILED")
    return 0 if ok else 2
