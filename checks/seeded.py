#!/venv/bin/python
"""Runs registered checks against the seeded changes kept under
/verif/seeded/<id>/ (patch.diff, demo, meta.json).

For each seeded change: a scratch worktree of /repo's HEAD is created outside
/repo and /verif, the patch is applied there, the demonstration is run
(must fail), the baseline tests are optionally run (must pass), and the
check(s) named in meta.json (or given with --checks) are run with
PTVERIF_REPO pointing at the worktree.  The verdict (caught / missed, by which
check and tier) is written to /verif/seeded/<id>/result.json.  The worktree is
removed afterwards.  /repo itself is never touched.

usage: checks/seeded.py [--tier quick|thorough] [--checks C01,C05] [--baseline] [ids ...]
"""
from __future__ import annotations

import json
import os
import shutil
import subprocess
import sys
import tempfile
import time

HERE = os.path.dirname(os.path.abspath(__file__))
VERIF = os.path.dirname(HERE)
SEEDED = os.path.join(VERIF, "seeded")
REPO = "/repo"


def sh(cmd: str, **kw) -> subprocess.CompletedProcess:
    return subprocess.run(cmd, shell=True, capture_output=True, text=True, **kw)


def main(argv: list[str]) -> int:
    tier = "quick"
    checks = None
    baseline = False
    ids = []
    it = iter(argv)
    for a in it:
        if a == "--tier":
            tier = next(it)
        elif a == "--checks":
            checks = next(it).split(",")
        elif a == "--baseline":
            baseline = True
        else:
            ids.append(a)
    ids = ids or sorted(d for d in os.listdir(SEEDED)
                        if os.path.isfile(os.path.join(SEEDED, d, "patch.diff")))
    summary = []
    for sid in ids:
        d = os.path.join(SEEDED, sid)
        meta = json.load(open(os.path.join(d, "meta.json")))
        if meta.get("obsolete"):
            # a later repair of /repo made the seeded change harmless (its demonstration
            # passes with the patch): kept for the record, not evaluated
            summary.append((sid, "OBSOLETE"))
            print(sid, "OBSOLETE:", meta["obsolete"][:100], flush=True)
            continue
        wt = tempfile.mkdtemp(prefix=f"ptverif-seed-{sid}-", dir="/var/tmp")
        os.rmdir(wt)
        r = sh(f"git -C {REPO} worktree add --detach {wt} HEAD")
        res = {"id": sid, "property": meta["property"], "tier": tier, "at": time.strftime(
            "%Y-%m-%dT%H:%M:%S"), "repo_head": sh(f"git -C {REPO} rev-parse --short HEAD"
                                                  ).stdout.strip(), "checks": {}}
        try:
            ap = sh(f"git -C {wt} apply {os.path.join(d, 'patch.diff')}")
            if ap.returncode != 0:
                res["error"] = "patch does not apply: " + ap.stderr[-300:]
                summary.append((sid, "PATCH-FAILED"))
                continue
            out = tempfile.mkdtemp(prefix="ptverif-seedout-", dir="/var/tmp")
            env = dict(os.environ, PYTHONPATH=wt, PTVERIF_REPO=wt, PTVERIF_OUT=out)
            demo = meta.get("demo", "demo.py")
            dm = sh(f"/venv/bin/python {os.path.join(d, demo)}", env=env, cwd=wt)
            res["demo_fails_with_patch"] = dm.returncode != 0
            if baseline:
                bt = sh("/venv/bin/python -m pytest -q -p no:cacheprovider test/test_pytato.py "
                        "test/test_linalg.py 2>&1 | tail -3", env=env, cwd=wt)
                res["baseline_tail"] = bt.stdout[-300:]
            caught_by = []
            for c in (checks or meta.get("checks") or [meta["property"]]):
                t0 = time.time()
                p = sh(f"/venv/bin/python checks/run.py {c} {tier}", env=env, cwd=VERIF)
                lines = [ln for ln in p.stdout.splitlines() if ln.startswith("VIOLATION")]
                tail = [ln for ln in p.stdout.splitlines() if ln.startswith("[")]
                grp = p.stdout[p.stdout.find("violations grouped"):][:1500]
                res["checks"][c] = {"rc": p.returncode, "violations": len(lines),
                                    "wall_s": round(time.time() - t0, 1),
                                    "summary": tail[-1][:300] if tail else p.stdout[-300:],
                                    "groups": grp}
                if p.returncode == 1 and lines:
                    caught_by.append(c)
            res["caught_by"] = caught_by
            summary.append((sid, "caught by " + ",".join(caught_by) if caught_by else "MISSED"))
        finally:
            sh(f"git -C {REPO} worktree remove --force {wt}")
            shutil.rmtree(wt, ignore_errors=True)
            if "out" in locals():
                shutil.rmtree(out, ignore_errors=True)
            prev = {}
            rp = os.path.join(d, "result.json")
            if os.path.exists(rp):
                try:
                    prev = json.load(open(rp))
                except Exception:      # noqa: BLE001
                    prev = {}
            hist = prev.get("history", [])
            hist.append(res)
            with open(rp, "w") as f:
                json.dump({"latest": res, "history": hist[-6:]}, f, indent=1)
    for s in summary:
        print(*s)
    return 0


if __name__ == "__main__":
    sys.exit(main(sys.argv[1:]))
