"""C18 -- persistent hash keys identify a computation faithfully across
processes.

G  the families of spec/PtEqGen.tla (every node kind x every field x contexts,
   rebuilt / pickled / permuted members, wrapped data differing in one
   element, in dtype with identical bytes, in shape with identical bytes) with
   the model's prediction of which members have the same canonical form.
E  every member's key is computed by the real PytatoKeyBuilder in a pool of
   interpreter processes with different PYTHONHASHSEEDs, before and after
   pickling (and for an object pickled by another process); spec/PtKey.tla
   computes Canon from the reflective export of the real objects and judges
   KeyOK (KeyCollision: different Canon, same key; KeySplit: same strict
   Canon, different key), Keyable, KeyStablePickle and KeyStableProcs.
A second part does the same for whole programs (the program list of C17:
multi-output DAGs, reductions, einsum, indexing, data wrappers, function
calls, distributed nodes) with single-node changes found by a reflective
walk.
"""
from __future__ import annotations

import copy
import time
from typing import Any

from checks import c04
from ptverif import eqlib, tlcx
from ptverif.common import MachineryError, Run, seed
from ptverif.procpool import Pool

PROP = "C18"


def tiers(tier: str) -> dict[str, Any]:
    if tier == "thorough":
        return {"seeds": list(range(16)), "per_seed": 1, "prog_mut": 24}
    return {"seeds": [0, 1, 2, 3], "per_seed": 4, "prog_mut": 8}


def key_records(fams: dict[str, dict[int, dict]], kinds: dict[str, dict],
                seeds: list[int]) -> list[dict]:
    import json
    records = []
    for fid in sorted(fams):
        by_export: dict[str, dict] = {}
        for s in seeds:
            r = fams[fid][s]
            sig = r["export_sha"]
            rec = by_export.get(sig)
            if rec is None:
                if r["nodes"] is None:
                    raise MachineryError(f"family {fid}: the export of seed={s} differs "
                                         f"from that of seed={seeds[0]}")
                k = kinds[r["kind"]]
                rec = {"id": fid if not by_export else f"{fid}#{len(by_export)}",
                       "rel": "keys", "kind": r["kind"], "ctx": r["ctx"],
                       "names": r["names"], "nodes": r["nodes"], "roots": r["roots"],
                       "canonM": c04._pad_identity(k["canon"], len(r["names"]), r["names"]),
                       "strictM": c04._pad_identity(k["strict"], len(r["names"]),
                                                    r["names"]), "obs": [],
                       "seeds": [], "errors": []}
                by_export[sig] = rec
            key = ["error" if x.startswith("error") else x for x in r["key"]]
            pkey = ["error" if x.startswith("error") else x for x in r["pkey"]]
            rec["errors"] += [x for x in r["key"] + r["pkey"] if x.startswith("error")][:2]
            if r["key_base_first"] != r["key"][r["names"].index("base")]:
                raise MachineryError(f"{fid}: the key of the base member changed within "
                                     "one process (cached digest?)")
            rec["obs"].append({"key": key, "pkey": pkey})
            rec["seeds"].append(s)
        records += list(by_export.values())
    return records


def validate(records: list[dict], stats: dict, what: str) -> dict[str, tuple[dict, dict]]:
    """-> failing families: id -> (light record, failures)"""
    t0 = time.time()
    val = tlcx.validate("PtKey", "PtKey.cfg", records, timeout=2400, per_shard=30,
                        heap="3g")
    stats["wall_tlc_s"] = round(stats.get("wall_tlc_s", 0) + time.time() - t0, 1)
    stats["states"] += val.states
    stats["transitions"] += val.transitions
    per_family = {}
    for rec in records:
        v = val.verdicts[rec["id"]]
        if v == "ok":
            continue
        if v.startswith("machinery"):
            raise MachineryError(
                f"{what} {rec['id']}: {v}: {str(val.detail.get(rec['id']))[:600]} -- the "
                "harness did not build what the model describes")
        lt = {k: rec[k] for k in ("id", "kind", "ctx", "names", "seeds", "errors")}
        per_family[rec["id"]] = (lt, c04.family_failures(rec, val.detail[rec["id"]]))
    return per_family


def report(run: Run, per_family: dict[str, tuple[dict, dict]], stats: dict, what: str
           ) -> None:
    stats[f"{what}_failing"] = len(per_family)
    if what == "programs":
        from checks import c18prog
        c18prog.report(run, per_family)
        return
    for f in c04.attribute(per_family):
        errs = [e for fid, (rec, _) in per_family.items() for e in rec.get("errors", [])][:1]
        run.violation(f["key"],
                      f"{f['what']}: {f['count']} failing key comparisons in "
                      f"{f['families']} families, seeds {sorted(f['seeds'])}; e.g. "
                      f"{f['example']}" + (f"; {errs[0]}" if errs and "Keyable" in f["key"]
                                           else ""),
                      record={"check": what, **f["example"]},
                      observed=f["example"]["pairs"], sig=f["sig"])


def select_cases(cases: list[dict], tier: str) -> list[dict]:
    if tier == "thorough":
        return cases
    return [c for c in cases if len(c["ctx"]) < 2 or c["ctx"][1] != "Stack.arrays"]


def main(tier: str, only: dict | None = None) -> int:
    run = Run(PROP, tier, "model_checking")
    T = tiers(tier)
    stats: dict[str, Any] = {"states": 0, "transitions": 0}
    seeds = [s + seed() for s in T["seeds"]]
    cases, kinds, table, gres = c04.generate_families(tier)
    stats["states"] += gres.distinct
    stats["transitions"] += gres.generated
    eqlib.check_field_table(table)
    cases = select_cases(cases, tier)
    if only is not None and only.get("check") == "families":
        cases = [c for c in cases if c["kind"] == only["kind"]
                 and (c["ctx"] == only["ctx"] or len(c["ctx"]) < 2)]
    records: list[dict] = []        # light records (no node lists)
    if only is None or only.get("check") == "families":
        failing: dict[str, tuple[dict, dict]] = {}
        stats["wall_eval_s"] = 0
        with Pool(seeds, T["per_seed"]) as pool:
            for b0 in range(0, len(cases), 1600):
                t0 = time.time()
                fams = c04.eval_families(pool, seeds, T["per_seed"], cases[b0:b0 + 1600],
                                         kinds, want_keys=True)
                full = key_records(fams, kinds, seeds)
                stats["wall_eval_s"] = round(stats["wall_eval_s"] + time.time() - t0, 1)
                failing.update(validate(full, stats, "families"))
                records += [{k: r[k] for k in ("id", "kind", "names", "roots", "seeds", "obs")}
                            for r in full]
        report(run, failing, stats, "families")
    prog_records: list[dict] = []
    if only is None or only.get("check") == "programs":
        from checks import c18prog
        t0 = time.time()
        prog_records = c18prog.program_records(seeds, T, only, tier)
        stats["wall_prog_eval_s"] = round(time.time() - t0, 1)
        report(run, validate(prog_records, stats, "programs"), stats, "programs")
    allrec = records + prog_records
    nkeys = sum(len(r["obs"]) * len(r["names"]) * 2 for r in allrec)
    run.coverage.update({
        "states": stats["states"], "transitions": stats["transitions"],
        "traces_validated_against_impl": sum(len(r["obs"]) for r in allrec),
        "evaluations": nkeys,
        "distinct_nontrivial": sum(1 for r in allrec for i in range(len(r["roots"]))
                                   for j in range(i) if r["roots"][i] != r["roots"][j]),
        "rule": "one unordered pair of distinct members per family (node kind x context, "
                "or program); distinct by (family, member pair); non-trivial = the members "
                "are different objects",
        "exhaustive": True,
        "families": len(records), "programs": len(prog_records),
        "keys_computed": nkeys, "seeds": seeds,
        "node_kinds": len({r["kind"] for r in records}),
        "programs_whole": len(prog_records),
        **{k: v for k, v in stats.items() if k not in ("states", "transitions")},
        "scope": "every concrete node class x every dataclass field x contexts of depth "
                 "0, 1 and 2; wrapped data: same contents in another object, one element "
                 "changed, other dtype with identical bytes, other shape with identical "
                 "bytes; keys in every process before and after pickling, and for objects "
                 "pickled by a process with another hash seed; whole programs with "
                 "single-node changes",
    })
    for r in allrec[:2]:
        run.sample({"family": r["id"], "members": r["names"], "seeds": r["seeds"],
                    "keys_of_first_process": r["obs"][0]["key"][:4]})
    run.assumptions += [
        "TLC, the Json module and the reflective exporter are trusted; Canon is computed "
        "by TLC from the export (sets and mapping entries are sorted by the exporter)",
        "creation-traceback tagging off (the default); pairs that differ only in "
        "non_equality_tags are not constrained",
        "hash seeds are sampled (4 quick / 16 thorough)",
        "loopy translation units enter Canon through the digest of a canonical dump of "
        "their kernels, not through any key builder",
    ]
    return run.finish()


def replay(rep: dict) -> int:
    return main("quick", only=rep["record"])


def selftest(tier: str) -> int:
    """Corrupt one recorded key (collision / split / instability) and the
    export, and require rejection."""
    cases, kinds, table, _ = c04.generate_families("quick")
    pick = [c for c in cases if c["kind"] == "Roll" and c["ctx"] == ["Stack.arrays"]]
    seeds = [11, 12]
    with Pool(seeds, 1) as pool:
        fams = c04.eval_families(pool, seeds, 1, pick, kinds, want_keys=True)
    good = key_records(fams, kinds, seeds)[0]
    good["id"] = "good"
    names = good["names"]
    b, rb, ms = names.index("base"), names.index("rebuild"), names.index("mut:shift")
    variants = {"good": good}

    def variant(name: str) -> dict:
        r = copy.deepcopy(good)
        r["id"] = name
        variants[name] = r
        return r
    r = variant("collision")
    r["obs"][0]["key"][ms] = r["obs"][0]["key"][b]
    r = variant("split")
    r["obs"][1]["key"][rb] = "0123456789abcdef"
    r = variant("unstable_procs")
    for o in (r["obs"][1],):
        o["key"] = [k[::-1] for k in o["key"]]
        o["pkey"] = [k[::-1] for k in o["pkey"]]
    r = variant("unstable_pickle")
    r["obs"][0]["pkey"][b] = "0123456789abcdef"
    r = variant("export_corrupted")
    for n in r["nodes"]:
        if n["kind"] == "Roll":
            for f in n["f"]:
                if f[0] == "shift":
                    f[1] = {"t": "i", "i": "1"}
    val = tlcx.validate("PtKey", "PtKey.cfg", list(variants.values()), shards=1)
    want = {"good": "ok", "collision": "KeyCollision", "split": "KeySplit",
            "unstable_procs": "KeyStableProcs", "unstable_pickle": "KeyStablePickle",
            "export_corrupted": "machinery:spec_mismatch"}
    ok = True
    for name, w in want.items():
        v = val.verdicts[name]
        got = v if v != "fail" else sorted({f[1] for f in val.detail[name]})
        hit = (v == w) if v != "fail" else (w in got)
        print(f"  selftest keys {name}: expected {w}, TLC said {got}")
        ok &= hit
    print("selftest", "passed" if ok else "FAILED")
    return 0 if ok else 2
