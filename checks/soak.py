#!/venv/bin/python
"""Runs the registered quick (or thorough) checks under several seeds and
reports which (check, seed) pairs did not exit 0 -- to find false alarms and
seed-dependent findings before they show up elsewhere.
usage: checks/soak.py [quick|thorough] [seed ...] [-- C01 C05 ...]"""
import json, os, subprocess, sys, time
HERE = os.path.dirname(os.path.abspath(__file__)); VERIF = os.path.dirname(HERE)
args = sys.argv[1:]
tier = args.pop(0) if args and args[0] in ("quick", "thorough") else "quick"
only = None
if "--" in args:
    i = args.index("--"); only = args[i+1:]; args = args[:i]
seeds = [int(a) for a in args] or [1, 2, 3]
man = json.load(open(os.path.join(VERIF, "MANIFEST.json")))
try:      # extended checks (beyond the listed properties) are soaked too
    for x in json.load(open(os.path.join(VERIF, "EXTENDED.json")))["checks"]:
        man["checks"].append({"property_id": x["id"], "quick_cmd": x["quick_cmd"],
                              "thorough_cmd": x["thorough_cmd"]})
except FileNotFoundError:
    pass
bad = []
for c in man["checks"]:
    pid = c["property_id"]
    if only and pid not in only: continue
    for s in seeds:
        env = dict(os.environ, VERIF_SEED=str(s))
        t = time.time()
        p = subprocess.run(c["quick_cmd" if tier == "quick" else "thorough_cmd"], shell=True, cwd=VERIF,
                           env=env, capture_output=True, text=True)
        tail = [l for l in p.stdout.splitlines() if l.startswith("[") or l.startswith("VIOLATION") or l.startswith("MACHINERY")]
        print(f"{pid} seed={s} rc={p.returncode} {time.time()-t:.0f}s {tail[-1][:200] if tail else ''}", flush=True)
        if p.returncode != 0:
            bad.append((pid, s))
            i = p.stdout.find("violations grouped")
            print(p.stdout[i:][:3000] if i >= 0 else p.stdout[-3000:], flush=True)
            print(p.stderr[-3000:], flush=True)
print("NOT CLEAN:", bad)
sys.exit(1 if bad else 0)
