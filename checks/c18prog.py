"""Whole-program part of C18 (placeholder until the C17 program list exists)."""
from __future__ import annotations


def program_records(seeds, T, only):
    return []
