"""Whole-program part of C18: the program list of C17 (hand-written, random,
distributed per rank), each built in every process of the pool, with
single-node changes found by a reflective walk (ptverif/keyprog.py)."""
from __future__ import annotations

import json
from concurrent.futures import ThreadPoolExecutor
from typing import Any

from ptverif.common import MachineryError
from ptverif.procpool import Pool


def program_list(tier: str) -> list[dict]:
    from checks import c17
    progs, _ = c17.programs("quick")
    out = []
    ndist = 0
    for p in progs:
        if p["kind"] == "dist":
            ndist += 1
            if tier != "thorough" and ndist > 40:
                continue
            for r in range(min(2, p["prog"]["nranks"])):
                out.append({**p, "id": f"{p['id']}@r{r}", "rank": r})
        elif p["id"] != "hand/calls_stay":
            out.append(p)
    return out


def program_records(seeds: list[int], T: dict, only: dict | None, tier: str = "quick"
                    ) -> list[dict]:
    progs = program_list(tier)
    if only is not None:
        progs = [p for p in progs if p["id"] in only.get("ctx", [])]
    per_seed = T["per_seed"]
    parts = [progs[i::per_seed] for i in range(per_seed)]
    with Pool(seeds, per_seed) as pool:
        widx = {(s, k): pool.workers[i * per_seed + k]
                for i, s in enumerate(seeds) for k in range(per_seed)}
        keys = list(widx)

        def phase1(key: tuple) -> dict:
            return widx[key].call("keyprog.pickles", programs=parts[key[1]])
        with ThreadPoolExecutor(max_workers=len(keys)) as ex:
            blobs = dict(zip(keys, ex.map(phase1, keys)))

        def phase2(key: tuple) -> list[dict]:
            s, k = key
            prev = seeds[(seeds.index(s) - 1) % len(seeds)]
            return widx[key].call("keyprog.progfams", programs=parts[k],
                                  nmut=T["prog_mut"], xblobs=blobs[(prev, k)])
        with ThreadPoolExecutor(max_workers=len(keys)) as ex:
            res = dict(zip(keys, ex.map(phase2, keys)))
    fams: dict[str, dict[int, dict]] = {}
    for (s, _k), lst in res.items():
        for r in lst:
            fams.setdefault(r["fam"], {})[s] = r
    records = []
    for fid in sorted(fams):
        by_export: dict[str, dict] = {}
        for s in seeds:
            r = fams[fid][s]
            sig = json.dumps([r["nodes"], r["roots"], r["names"]], sort_keys=True)
            rec = by_export.get(sig)
            if rec is None:
                rec = {"id": fid if not by_export else f"{fid}#{len(by_export)}",
                       "rel": "keys", "kind": "program", "ctx": r["ctx"],
                       "names": r["names"], "nodes": r["nodes"], "roots": r["roots"],
                       "canonM": r["canonM"], "strictM": r["strictM"], "known": r["known"],
                       "obs": [], "seeds": [], "errors": []}
                by_export[sig] = rec
            rec["errors"] += [x for x in r["key"] + r["pkey"] if x.startswith("error")][:2]
            if r["key_base_first"] != r["key"][0]:
                raise MachineryError(f"{fid}: the key of the base changed within a process")
            rec["obs"].append({"key": ["error" if x.startswith("error") else x
                                       for x in r["key"]],
                               "pkey": ["error" if x.startswith("error") else x
                                        for x in r["pkey"]]})
            rec["seeds"].append(s)
        records += list(by_export.values())
    return records


def report(run: Any, per_family: dict[str, tuple[dict, dict]]) -> None:
    """Program-level failures get the signature of the node kind and change
    that was made, so that they coincide with the family-level finding."""
    import re
    found: dict[str, dict] = {}
    for fid, (rec, fails) in sorted(per_family.items()):
        for (clause, member), info in sorted(fails.items()):
            m = re.fullmatch(r"mut:(\w+)\.([\w:]+)#\d+", member)
            if m:
                kind, what = m.group(1), m.group(2)
                lk = "member" if what.startswith("data:") else "field"
                key = f"{kind}.{what}/{clause}"
                sig = {"kind": kind, lk: what, "clause": clause}
            else:
                key = f"{fid}.{member}/{clause}"
                sig = {"kind": "program", "member": member, "clause": clause,
                       "prog": rec["ctx"][0]}
            f = found.setdefault(key, {"sig": sig, "n": 0, "progs": [], "pairs": info["pairs"],
                                       "seeds": set()})
            f["n"] += info["n"]
            f["progs"].append(rec["ctx"][0])
            f["seeds"] |= info["seeds"]
    for key, f in sorted(found.items()):
        run.violation(key,
                      f"{f['sig']['clause']} fails in whole programs for {key}: {f['n']} "
                      f"failing key comparisons in {len(f['progs'])} programs "
                      f"{f['progs'][:5]}, seeds {sorted(f['seeds'])}; e.g. {f['pairs'][:3]}",
                      record={"check": "programs", "kind": "program",
                              "ctx": [f["progs"][0]], "pairs": f["pairs"]},
                      observed=f["pairs"], sig=f["sig"])
