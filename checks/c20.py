"""C20 -- graph analyses agree with the graph and with each other.

spec/PtGraph.tla defines, for a typed DAG, what the analyses must answer
(predecessors and users with multiplicity, topological order, node / type /
multiplicity / tag / call-site counts, materialised nodes) and TLC checks the
internal consistency of those definitions over every DAG shape (PtGraphMC).
Every abstract shape of C13's space is instantiated as REAL pytato DAGs
(every edge kind at every position, with and without duplicates, symbolic
shapes, dictionaries of several outputs, functions, distributed nodes); the
real analyses are run on them and their answers are exported together with
the graph obtained from an INDEPENDENT reflective walk over dataclass fields;
TLC judges every answer against the specification (PtGraphCheck), one verdict
per record and clause family.
"""
from __future__ import annotations

import copy
import multiprocessing as mp
import os
from typing import Any

from checks import c13
from ptverif import tlc
from ptverif.common import NCPU, MachineryError, Run, seed

PROP = "C20"
VIEWS = ["preds", "lusers", "converse", "users", "agree", "recusers", "topo", "counts", "mat"]

_W: dict[str, Any] = {}


def _winit() -> None:
    import warnings
    warnings.simplefilter("ignore")
    from ptverif import mapperharness as H
    from ptverif.common import ensure_repo_on_path
    ensure_repo_on_path()
    _W["H"] = H


def _tagged(root: Any, every: int) -> Any:
    """tag every `every`-th index lambda as stored (for the materialisation
    and tag-count clauses)"""
    import pytato as pt
    from pytato.tags import ImplStored
    cnt = [0]

    def f(x: Any) -> Any:
        if isinstance(x, pt.IndexLambda):
            cnt[0] += 1
            if cnt[0] % every == 0:
                return x.tagged(ImplStored())
        return x
    return pt.transform.map_and_copy(root, f)


def _work(args: tuple) -> dict:
    shapes, tier = args
    H = _W["H"]
    records: list[dict] = []
    stats = {"graphs": 0, "kinds": {}, "ekinds": {}}
    for si, (ch, rep) in shapes:
        chl, repl = [list(c) for c in ch], list(rep)
        cases: list[tuple[str, Any]] = []
        for scheme in H.T1_SCHEMES:
            for rootk in ("array", "dict"):
                if rootk == "array" and tier == "quick" and scheme not in ("il", "mixed0"):
                    continue
                if len(ch) >= 5 and (rootk == "array" or scheme not in (
                        "il", "mixed0", "mixed1", "call", "send", "stack", "aidx", "csr")):
                    continue          # 5-node shapes: a subset of the schemes
                leaf = ("mix" if scheme.startswith("mixed") else
                        "sp" if scheme in ("ilshape", "phshape", "recvshape", "dwshape") else "ph")
                root, _, _ = H.build_t1(chl, repl, scheme, seed=seed(), leaf=leaf, root=rootk)
                cases.append((f"t1/s{si}/{scheme}/{rootk}", root))
        if si % 3 == 0:
            for variant in H.T2_VARIANTS:
                for symbolic in (False, True):
                    if symbolic and variant != "ew":
                        continue
                    root = H.build_t2(chl, repl, variant, seed=seed(), symbolic=symbolic)
                    cases.append((f"t2/s{si}/{variant}/{'sym' if symbolic else 'int'}", root))
                    if max(rep) == len(rep) and not symbolic and variant == "ew":
                        try:
                            cases.append((f"t2/s{si}/{variant}/stored", _tagged(root, 2)))
                        except Exception:      # noqa: BLE001
                            pass
        for case, root in cases:
            import json as _json
            stats.setdefault("subsetdep", []).extend(
                _json.dumps(f, sort_keys=True) for f in _subset_dependencies(H, root, case))
            rec = H.export_analyses(root, H.Interner(), case)
            stats["graphs"] += 1
            for kd in rec["kind"]:
                stats["kinds"][kd] = stats["kinds"].get(kd, 0) + 1
            for ks in rec["ek"]:
                for kd in ks:
                    stats["ekinds"][kd] = stats["ekinds"].get(kd, 0) + 1
            records.append(rec)
    return {"records": records, "stats": stats}


def _subset_dependencies(H: Any, root: Any, case: str) -> list[dict]:
    """SubsetDependencyMapper(universe)(node) is a subset of the universe -- for every node
    of the graph as the root of the query (also leaves: a size parameter), the universe
    being every second array of the graph -- and equals the reflective dependencies that
    lie in the universe."""
    import pytato as pt
    from pytato.transform import SubsetDependencyMapper
    out: list[dict] = []
    try:
        objs = [o for o in H.reflect(root).objs if isinstance(o, pt.Array)]
    except Exception:      # noqa: BLE001
        return out
    if any(type(o).__name__ in ("NamedCallResult",) for o in objs):
        return out            # (function bodies: other name spaces, not dependencies)
    universe = frozenset(objs[::2])
    for o in objs:
        try:
            got = SubsetDependencyMapper(universe)(o)
        except Exception:      # noqa: BLE001
            continue              # (unsupported node kinds are C13's business)
        extra = [type(x).__name__ for x in got if x not in universe]
        if extra:
            out.append({"case": case, "root": type(o).__name__, "extra": sorted(set(extra))})
    return out


def root_of(view: str, clause: str) -> str:
    """A stable name for the cause a failing clause points at (so that one
    known-findings entry can cover the several clause families one cause
    shows up in).  "" = unclassified."""
    p = clause.split(":") + ["", ""]
    if p[1] == "DictOfNamedArrays" and p[0] in (
            "lusers_missing", "converse", "users_implementations_disagree"):
        return "list-of-users-omits-dict-of-named-arrays"
    if view in ("users", "agree", "recusers") and p[1] in ("Call", "NamedCallResult"):
        return "get-users-skips-call"
    if p[0] == "preds_raise" and p[1] == "NamedArray":
        return "predecessors-of-named-array-unsupported"
    if p[0] == "topo_raise" and p[1] == "NotImplementedError":
        return "toposort-rejects-function-calls"
    if p[0] == "tagcount_raise" and p[1] == "UnsupportedArrayError/SizeParam":
        return "tagcount-rejects-size-param"
    if p[0] == "converse" and p[2] == "derived":
        return "derived-shape-is-predecessor-but-not-used"
    return ""


def views_of(rec: dict) -> list[dict]:
    out = []
    for v in VIEWS:
        r = dict(rec)
        r["id"] = f"{rec['id']}#{v}"
        r["view"] = v
        out.append(r)
    return out


def judge(run: Run, records: list[dict]) -> tlc.Validation:
    batch = [v for r in records for v in views_of(r)]
    val = tlc.validate_records("PtGraphCheck", "PtGraphCheck.cfg", batch, timeout=1500,
                               shards=NCPU)
    byid = {r["id"]: r for r in records}
    import re
    for b in batch:
        vd = val.verdicts[b["id"]]
        if vd == "ok":
            continue
        rid, view = b["id"].rsplit("#", 1)
        rec = byid[rid]
        clauses = re.findall(r'"([^"]+)"', val.detail.get(b["id"], "")) or [vd]
        for cl in clauses:
            parts = cl.split(":")
            sig = {"view": view, "clause": parts[0], "detail": cl,
                   "nodekind": parts[1] if len(parts) > 1 else "",
                   "edgekind": parts[2] if len(parts) > 2 else "",
                   "root": root_of(view, cl)}
            run.violation(f"{view}|{cl}", f"{cl} on {rid}: kinds={rec['kind']} ch={rec['ch']} "
                          f"ek={rec['ek']}",
                          record={"case": rid, "view": view, "graph": rec},
                          observed=cl, sig=sig)
    return val


def run_mc(tier: str) -> dict:
    res = tlc.run_tlc("PtGraphMC", "PtGraphMC.cfg" if tier == "quick" else "PtGraphMCthorough.cfg",
                      workers=max(2, NCPU // 2), timeout=1200, heap="4g", coverage=True)
    if not res.ok:
        raise MachineryError(f"PtGraphMC failed: {res.violated or res.error or res.out[-600:]}")
    return {"states": res.distinct, "transitions": res.generated, "wall_s": round(res.wall, 1)}


def main(tier: str, only: dict | None = None) -> int:
    run = Run(PROP, tier, "model_checking")
    mc = run_mc(tier) if only is None and not os.environ.get("C13_DEBUG_NOMC") \
        else {"states": 0, "transitions": 0}
    if only is not None:
        records = [only["graph"]]
        # re-run the real analyses on a freshly built instance of the same case
        _winit()
        H = _W["H"]
        kind, s, *rest = only["case"].split("/")
        tier_ = only.get("tier", tier)
        if kind not in ("t3", "t4"):
            shapes, _ = c13.generate(4 if tier_ == "quick" else 5, 2)
            ch, rep = shapes[int(s[1:])]
            chl, repl = [list(c) for c in ch], list(rep)
        if kind == "t3":
            root = H.witness_graphs()[s]
        elif kind == "t4":
            root = H.stored_witnesses()["/".join([s, *rest])]
        elif kind == "t1":
            root, _, _ = H.build_t1(chl, repl, rest[0], seed=seed(),
                                    leaf=("mix" if rest[0].startswith("mixed") else
                                          "sp" if rest[0] in ("ilshape", "phshape", "recvshape",
                                                              "dwshape") else "ph"),
                                    root=rest[1])
        else:
            root = H.build_t2(chl, repl, rest[0], seed=seed(), symbolic=rest[1] == "sym")
            if rest[1] == "stored":
                root = _tagged(root, 2)
        records = [H.export_analyses(root, H.Interner(), only["case"])]
        val = judge(run, records)
        stats = {"graphs": len(records)}
    else:
        maxn = 4 if tier == "quick" else 5
        shapes, gen = c13.generate(maxn, 2)
        indexed = list(enumerate(shapes))
        stride = int(os.environ.get("C13_DEBUG_STRIDE", "1"))
        indexed = indexed[::stride]
        chunks = [indexed[i::NCPU * 2] for i in range(NCPU * 2) if indexed[i::NCPU * 2]]
        with mp.Pool(NCPU, initializer=_winit) as pool:
            parts = pool.map_async(_work, [(c, tier) for c in chunks]).get(1700)
        records, stats = [], {}
        for p in parts:
            records += p["records"]
            c13._merge(stats, p["stats"])
        # deterministic edge-kind witnesses (API-built, independent of the seed)
        _winit()
        for name, root in _W["H"].witness_graphs().items():
            records.append(_W["H"].export_analyses(root, _W["H"].Interner(), f"t3/{name}"))
            stats["graphs"] = stats.get("graphs", 0) + 1
        # every node kind that can carry or delegate ImplStored does so, as interior
        # node and as output (both values of include_outputs are always asked)
        stored_kinds: dict[str, int] = {}
        for name, root in _W["H"].stored_witnesses().items():
            rec = _W["H"].export_analyses(root, _W["H"].Interner(), f"t4/{name}")
            records.append(rec)
            stats["graphs"] = stats.get("graphs", 0) + 1
            for kd, st_ in zip(rec["kind"], rec["stored"]):
                if st_:
                    stored_kinds[kd] = stored_kinds.get(kd, 0) + 1
        stats["stored_tagged_node_kinds"] = stored_kinds
        import json as _json
        for f in map(_json.loads, stats.pop("subsetdep", [])):
            run.violation(f"subsetdep|{f['root']}|{','.join(f['extra'])}",
                          f"{f['case']}: SubsetDependencyMapper(universe) asked for the "
                          f"dependencies of a {f['root']} returns {f['extra']} that are not in "
                          f"the universe", record={"case": f["case"]},
                          sig={"view": "SubsetDependencyMapper", "clause": "not_a_subset",
                               "root": f["root"]})
        val = judge(run, records)
        mc["states"] += gen["states"]
        mc["transitions"] += gen["transitions"]
    nontriv = sum(1 for r in records if any(len(set(c)) < len(c) or len(c) > 1
                                            for c in r["ch"]))
    run.coverage.update({
        "states": mc["states"] + val.states, "transitions": mc["transitions"] + val.transitions,
        "traces_validated_against_impl": len(records) * len(VIEWS),
        "evaluations": len(records), "distinct_nontrivial": len({
            (tuple(map(tuple, r["ch"])), tuple(r["kind"]), tuple(r["cls"])) for r in records
            if any(len(c) > 1 for c in r["ch"])}),
        "rule": "one evaluation = every graph analysis run on one real instance of one "
                "abstract DAG shape; distinct by (children, node kinds, classes); "
                "non-trivial = some node has more than one child (sharing / multiplicity)",
        "exhaustive": True, "model_checking": mc, "graphs": stats.get("graphs", 0),
        "node_kinds": stats.get("kinds", {}), "edge_kinds": stats.get("ekinds", {}),
        "stored_tagged_node_kinds": stats.get("stored_tagged_node_kinds", {}),
        "views": VIEWS, "tlc_runs": val.runs, "tlc_wall_s": round(val.wall, 1),
    })
    for r in records[:2]:
        run.sample({k: r[k] for k in ("id", "kind", "ch", "ek", "res")})
    run.assumptions += [
        "TLC is trusted; the reflective walk over dataclass fields is the independent "
        "enumeration of the graph (shares no code with pytato's mappers); the derived "
        ".shape attribute of a node is read from pytato",
        "where the documentation leaves a choice (derived shapes as predecessors, counting "
        "function bodies, type-based materialisation) both answers are accepted",
    ]
    if os.environ.get("PTVERIF_KEYS_OUT"):        # development aid (mutation experiments)
        import json as _json
        with open(os.environ["PTVERIF_KEYS_OUT"], "w") as f:
            _json.dump(sorted(v["key"] for v in run.violations), f)
    return run.finish()


def replay(rep: dict) -> int:
    """rebuild the instance named in the replay file, run the real analyses
    on it again and judge all clause families"""
    return main(rep.get("tier", "quick"), only=dict(rep["record"], tier=rep.get("tier", "quick")))


def selftest(tier: str) -> int:
    """Binding demonstration: the real answers about a small graph are
    accepted; each corruption of ONE exported answer must be rejected in the
    clause family it belongs to; and weakening one definition of PtGraph must
    violate PtGraphMC's Converse invariant."""
    import warnings
    warnings.simplefilter("ignore")
    _winit()
    H = _W["H"]
    ch, rep = [[], [1], [1, 2], [3, 2, 1]], [1, 2, 3, 4]
    root, _, _ = H.build_t1(ch, rep, "il", root="array")
    good = H.export_analyses(root, H.Interner(), "good")
    muts = {
        "preds": lambda r: r["res"]["preds"][3].pop(),
        "lusers": lambda r: r["res"]["lusers"][0].pop(),
        "converse": lambda r: (r["res"]["lusers"][0].append(4), r["res"]["nusers"].__setitem__(
            0, r["res"]["nusers"][0] + 1)),
        "users": lambda r: r["res"]["users"][1].remove(3),
        "agree": lambda r: r["res"]["users"][0].remove(2),
        "recusers": lambda r: r["res"]["recusers"][0][1].pop(),
        "topo": lambda r: r["res"]["topo"].reverse(),
        "counts": lambda r: r["res"].__setitem__("numnodes_dup", r["res"]["numnodes_dup"] + 1),
        "mat": lambda r: r["res"]["mat_out"].pop(0),
    }
    batch = views_of(good)
    for view, f in muts.items():
        b = copy.deepcopy(good)
        f(b)
        b["id"] = f"bad_{view}#{view}"
        b["view"] = view
        batch.append(b)
    val = tlc.validate_records("PtGraphCheck", "PtGraphCheck.cfg", batch, shards=1)
    ok = all(val.verdicts[f"good#{v}"] == "ok" for v in VIEWS) and \
        all(val.verdicts[f"bad_{v}#{v}"] != "ok" for v in VIEWS)
    print("answers binding:", {k: (v, val.detail.get(k, "")[:70]) for k, v in val.verdicts.items()
                               if k.startswith("bad")})
    from ptverif.common import scratch
    src = open(os.path.join(tlc.SPEC_DIR, "PtGraph.tla")).read()
    old = "UserList(g, u) == [v \\in Nodes(g) |-> Mult(g, v, u)]"
    d = os.path.join(scratch(), "sabg")
    os.makedirs(d, exist_ok=True)
    if old not in src:
        print("selftest: sabotage pattern not found")
        ok = False
    else:
        with open(os.path.join(d, "PtGraph.tla"), "w") as f:
            f.write(src.replace(old, "UserList(g, u) == [v \\in Nodes(g) |-> MultNoSend(g, v, u)]"))
        for fn in ("PtGraphMC.tla", "PtGraphMC.cfg"):
            with open(os.path.join(d, fn), "w") as f:
                f.write(open(os.path.join(tlc.SPEC_DIR, fn)).read().replace("MaxN = 4", "MaxN = 3"))
        res = tlc.run_tlc("PtGraphMC", "PtGraphMC.cfg", workers=4, timeout=300, spec_dir=d)
        print("spec sabotage [Converse]: violated =", res.violated)
        ok = ok and "Converse" in res.violated
    print("selftest", "passed" if ok else "FAILED")
    return 0 if ok else 2
