"""C10 -- mismatched or cyclic communication is diagnosed, never partitioned;
a correct computation is never rejected.

G (fault enumeration): spec/DistComm.tla injects into every valid program of
   its bound every single fault -- drop / duplicate / retag / redirect one
   send or one receive (redirect includes to self), a matched self-message,
   one more dependency that closes a cross-rank cycle -- at every
   communication operation, pairs of faults on the small programs, and
   samples faults on larger programs with -simulate.  Its predicate
   WellFormedInput says whether the result is still legal (some fault pairs
   restore legality: those must be ACCEPTED) and, if not, which ranks' local
   graphs show the fault and which documented diagnostic each may raise.
Three voices per program: the generator's expectation (on the abstract
   program), WellFormedInput evaluated by TLC on the communication skeleton
   extracted from the REAL pytato DAGs by a reflective walk (spec/DistWF.tla),
   and the harness's reference evaluator (the global graph has a meaning or
   not).  They must agree (else exit 2).  Then pytato's verdict:
   find_distributed_partition -> verify_distributed_partition ->
   number_distributed_tags on all ranks under the simulated MPI; a rank
   blocked in a collective because a peer raised counts as "peer raised".
   malformed => a diagnostic of the documented family on a rank that shows the
   fault (or the root), nobody walks away with a partition; if ranks DO return
   partitions, DistExec model-checks them and the deadlock / misdelivery goes
   into the replay file.  well-formed => nobody raises.
"""
from __future__ import annotations

import copy
import json
import time
from typing import Any

from ptverif import distcheck as dc
from ptverif import distharness as dh
from ptverif import distprogs as dp
from ptverif import tlc
from ptverif.common import MachineryError, Run, seed

PROP = "C10"


def programs(tier: str) -> tuple[list[dict], list[dict]]:
    stats = []
    progs: list[dict] = []

    def gen(label: str, **kw: Any) -> None:
        bs, st = dp.generate(label, **kw)
        stats.append(st)
        progs.extend(dp.progs_from(bs))
    if tier == "quick":
        gen("f1", MaxRanks=3, MaxOps=2, MaxFaults=1, EmitValid=False)
        gen("f2", MaxRanks=2, MaxOps=1, MaxFaults=2, EmitValid=False)
        gen("fsim", simulate=250, MaxRanks=4, MaxOps=5, NTags=3, Variants=True, MinOps=1,
            Exhaustive=False, MaxFaults=1, EmitValid=False)
        gen("valid", MaxRanks=3, MaxOps=2)
        progs.extend(dp.library(("str",)))
    else:
        gen("f1", MaxRanks=3, MaxOps=3, MaxFaults=1, EmitValid=False)
        gen("f2", MaxRanks=2, MaxOps=2, MaxFaults=2, EmitValid=False)
        gen("fvar", MaxRanks=2, MaxOps=1, Variants=True, MaxFaults=1, EmitValid=False,
            timeout=1500)
        gen("fsim1", simulate=2500, MaxRanks=4, MaxOps=6, NTags=3, Variants=True, MinOps=1,
            Exhaustive=False, MaxFaults=1, EmitValid=False, timeout=1500)
        gen("fsim2", simulate=2500, MaxRanks=4, MaxOps=6, NTags=3, Variants=True, MinOps=2,
            Exhaustive=False, MaxFaults=2, EmitValid=False, timeout=1500)
        gen("valid", MaxRanks=3, MaxOps=3)
        gen("validsim", simulate=600, MaxRanks=4, MaxOps=6, NTags=3, Variants=True, MinOps=2,
            Exhaustive=False)
        from ptverif import disttags
        progs.extend(dp.library(disttags.KINDS))
    seen, out = set(), []
    for p in progs:
        if p["id"] not in seen:
            seen.add(p["id"])
            out.append(p)
    return out, stats


def expected_of(skeletons: list[dict]) -> dict[str, dict]:
    """WellFormedInput evaluated by TLC on skeletons of the real DAGs."""
    dc.ensure_scratch()
    val = tlc.validate_records("DistWF", "DistWF.cfg", skeletons, timeout=1500, heap="3g",
                               env=dc.JVM)
    out = {}
    for rec in skeletons:
        det = json.loads(json.loads(val.detail[rec["id"]]))
        out[rec["id"]] = {"wf": val.verdicts[rec["id"]] == "wf", "why": sorted(det["why"]),
                          "affected": sorted(det["affected"]),
                          "expect": [sorted(x) for x in det["expect"]]}
    out["__stats__"] = {"states": val.states, "transitions": val.transitions,  # type: ignore
                        "wall": val.wall}
    return out


def judge(exp: dict, stages: dict[str, list[dict]]) -> tuple[str, list[tuple[str, str]]]:
    """-> (outcome, [(violation clause, text)]).  exp: expected verdict
    (wf, why, affected, expect); stages: what pytato did on every rank."""
    find, ver, num = stages["find"], stages["verify"], stages["number"]
    n = len(find)
    raised = {(st, r): s for st, lst in (("find", find), ("verify", ver), ("number", num))
              for r, s in enumerate(lst) if s and s["status"] == "raised"}
    notok = {(st, r): s for st, lst in (("find", find), ("verify", ver), ("number", num))
             for r, s in enumerate(lst) if s and s["status"] != "ok"}
    viol: list[tuple[str, str]] = []
    if exp["wf"]:
        if notok:
            what = sorted((st, r, s["exc"] or f"{s['status']}:{s['reason']}")
                          for (st, r), s in notok.items())
            viol.append(("wellformed_rejected",
                         f"a well-formed program is rejected: {what}; "
                         f"{next(iter(raised.values()))['msg'][:120] if raised else ''}"))
            return "wf_rejected", viol
        return "wf_accepted", viol
    # malformed
    if not raised:
        stuck = [(st, r, s["status"], s["reason"]) for (st, r), s in notok.items()]
        if stuck:
            viol.append(("stuck_without_diagnostic",
                         f"malformed ({exp['why']}): no rank raised, but {stuck}"))
            return "mal_stuck", viol
        viol.append(("undiagnosed", f"malformed ({exp['why']}): every rank returned a "
                                    f"partition and verify_distributed_partition accepted it"))
        return "mal_undiagnosed", viol
    documented = {k: s for k, s in raised.items() if s["documented"]}
    if not documented:
        viol.append(("undocumented_exception",
                     f"malformed ({exp['why']}): only "
                     f"{sorted((st, r, s['exc']) for (st, r), s in raised.items())} raised -- "
                     f"not a diagnostic of the documented family"))
        return "mal_undocumented", viol
    stage = "find" if any(st == "find" for st, _ in raised) else \
        ("verify" if any(st == "verify" for st, _ in raised) else "number")
    lst = stages[stage]
    raisers = {r for (st, r) in raised if st == stage}
    allowed = set(exp["affected"]) | {0}
    if not raisers <= allowed:
        viol.append(("diagnosed_on_unaffected_rank",
                     f"malformed ({exp['why']}): ranks {sorted(raisers - allowed)} raised in "
                     f"{stage}, the fault shows on {exp['affected']}"))
    for r, s in enumerate(lst):
        if s["status"] == "raised" and not s["documented"]:
            viol.append(("undocumented_exception",
                         f"malformed ({exp['why']}): rank {r} raised {s['exc']} in {stage}"))
        if stage == "find" and s["status"] == "ok":
            viol.append(("partition_returned_beside_diagnostic",
                         f"malformed ({exp['why']}): rank {r} returned a partition while "
                         f"ranks {sorted(raisers)} raised"))
        if s["status"] == "blocked" and s["reason"] != "peer_raised":
            viol.append(("blocked_not_on_raiser",
                         f"malformed ({exp['why']}): rank {r} is blocked ({s['reason']}) "
                         f"but not in a collective that a raising rank left"))
    exact = stage == "find" and all(
        (s["status"] == "raised" and s["exc"] in exp["expect"][r]) if exp["expect"][r]
        else s["status"] != "raised" for r, s in enumerate(lst))
    return ("mal_diagnosed_exact" if exact else f"mal_diagnosed_{stage}"), viol


def sig_of(prog: dict, clause: str, exp: dict) -> dict:
    faults = "+".join(f["f"] for f in prog.get("gen", {}).get("faults", []))
    return {"clause": clause, "forward_recv": dp.has_forward_recv(prog),
            "nested_holder": dp.has_nested_holder(prog),
            "source": prog["id"].split("/")[0], "faults": faults,
            "why": "+".join(exp["why"])}


def main(tier: str, only: list[dict] | None = None) -> int:
    run = Run(PROP, tier, "fault_enumeration")
    t0 = time.time()
    if only is None:
        progs, gstats = programs(tier)
    else:
        progs, gstats = only, []
    t1 = time.time()
    by_id = {p["id"]: p for p in progs}
    results = dc.process_all(progs, {"seed": seed(), "execute": False})
    for r in results:
        if r.get("hang"):
            run.violation(f"{r['id']}:hang", f"{r['id']}: a rank did not come back: {r['hang']}",
                          record={"prog": by_id[r["id"]]}, sig={"clause": "hang"})
    results = [r for r in results if not r.get("hang")]
    t2 = time.time()
    exp = expected_of([dict(r["skeleton"], id=r["id"]) for r in results])
    wstats = exp.pop("__stats__")
    run.coverage["phase_wall_s"] = {"generate": round(t1 - t0, 1), "real_code": round(t2 - t1, 1),
                                    "tlc_wf": round(time.time() - t2, 1)}
    outcomes: dict[str, int] = {}
    by_fault: dict[str, int] = {}
    by_why: dict[str, int] = {}
    undiagnosed = []
    nmal = 0
    for r in results:
        p = by_id[r["id"]]
        e = exp[r["id"]]
        g = p.get("gen")
        if g is not None:
            mine = {"wf": g["wf"], "why": sorted(g["why"]),
                    "expect": [sorted(x) for x in g["expect"]]}
            if any(mine[k] != e[k] for k in mine):
                raise MachineryError(
                    f"{r['id']}: the generator expects {mine}, WellFormedInput on the real DAGs' "
                    f"skeleton gives {e}: the DAG builder or the specification is wrong")
        if e["wf"] != bool(r.get("ref_ok")):
            raise MachineryError(
                f"{r['id']}: WellFormedInput = {e['wf']} but the reference evaluator says "
                f"{r.get('ref_ok')} ({r.get('ref_err')})")
        outcome, viol = judge(e, r["stages"])
        outcomes[outcome] = outcomes.get(outcome, 0) + 1
        fl = "+".join(f["f"] for f in (g or {}).get("faults", [])) or "(none)"
        by_fault[fl] = by_fault.get(fl, 0) + 1
        if not e["wf"]:
            nmal += 1
            k = "+".join(e["why"])
            by_why[k] = by_why.get(k, 0) + 1
        observed: Any = {"summary": r["summary"], "expected": e}
        if outcome == "mal_undiagnosed" and "inst" in r:
            undiagnosed.append(r)
        for clause, text in viol:
            sig = sig_of(p, clause, e)
            if clause == "wellformed_rejected":
                sig["rejected_by"] = "+".join(sorted(
                    {f"{st}:{s_['exc']}" for st, lst in r["stages"].items() for s_ in lst
                     if s_ and s_["status"] == "raised"}))
            run.violation(f"{r['id']}:{clause}", f"{r['id']} [{fl}]: {text}",
                          record={"prog": p}, observed=observed, expected=e, sig=sig)
    # partitions that were returned for malformed programs: what would happen?
    if undiagnosed:
        mc = dc.model_check([r["inst"] for r in undiagnosed])
        for r in undiagnosed:
            # the global graph of a malformed program has no meaning, so "wrong value"
            # verdicts are not reported for it: only crash / spin / deadlock count
            cl = sorted(mc["clauses"].get(r["id"], set()) - {"misdelivery", "output_wrong"}) \
                or ["executes"]
            p, e = by_id[r["id"]], exp[r["id"]]
            run.violation(
                f"{r['id']}:partitioned_malformed:{'+'.join(cl)}",
                f"{r['id']}: the partitions returned for a malformed program "
                f"({e['why']}) under DistExec (all schedules): {cl}",
                record={"prog": p},
                observed=dc.counterexample(r["inst"]) if cl not in (["ok"], ["executes"])
                else "executes in every schedule",
                expected=e, sig=sig_of(p, "partitioned:" + "+".join(cl), e))
        run.coverage["undiagnosed_model_checked"] = len(undiagnosed)
        run.coverage["undiagnosed_distexec_states"] = mc["nstates"]
    run.coverage.update({
        "evaluations": len(results),
        "distinct_nontrivial": nmal,
        "rule": "every single fault (drop/duplicate/retag/redirect one send or one receive, "
                "self message, cycle-closing dependency) at every communication operation of "
                "every valid program DistComm enumerates in the bound, pairs of faults on the "
                "small programs, -simulate samples on larger ones, plus valid programs that "
                "must be accepted; distinct by id (content hash of program + fault list); "
                "non-trivial = WellFormedInput is FALSE on the skeleton of the real DAGs",
        "exhaustive": False,
        "outcomes": outcomes, "by_fault": by_fault, "malformed_by_clause": by_why,
        "wellformed_programs": len(results) - nmal,
        "wf_predicate_states": wstats["states"], "generator": gstats,
        "bounds": ("quick: all single faults on programs <= 3 ranks <= 2 messages, all pairs "
                   "<= 2 ranks 1 message, 250 simulated faulted programs <= 4 ranks <= 5 "
                   "messages with variants; thorough: single faults <= 3 messages, pairs <= 2 "
                   "ranks 2 messages, all variants x single faults for 1 message, 5000 simulated"),
    })
    for p in progs[:1] + progs[len(progs) // 3:len(progs) // 3 + 1]:
        run.sample({"program": {k: p.get(k) for k in ("id", "nranks", "gen", "comm")},
                    "expected": exp.get(p["id"]),
                    "pytato": next((r["summary"] for r in results if r["id"] == p["id"]), None)})
    run.assumptions += [
        "the faults are those of DistComm (single ends of messages); malformations that need "
        "pytato-foreign nodes are out of scope",
        "'affected ranks' is read as: the diagnostic is raised on a rank whose local graph "
        "shows the fault or on the root, every other rank raises too or is blocked in a "
        "collective a raising rank left; the staged rank-exact expectation is reported as "
        "outcome mal_diagnosed_exact but not required",
        "two receive ends with equal fields are one node (pytato arrays compare "
        "structurally), hence not a duplicate receive",
        "the simulated MPI's classification of blocked ranks stands for a watchdog on real MPI",
    ]
    return run.finish()


def replay(rep: dict) -> int:
    return main("quick", only=[rep["record"]["prog"]])


def selftest(tier: str) -> int:
    """Binding demonstration: the recorded pytato verdict and the exported
    skeleton each decide the outcome -- corrupt one and the judgement must
    change."""
    bs, _ = dp.generate("st", MaxRanks=2, MaxOps=1, MaxFaults=1, EmitValid=False)
    dup = next(b for b in bs if b["faults"][0]["f"] == "dup_send")
    bad = dp.comm_to_prog(dup, "st/dup_send")
    good = next(p for p in dp.library(("str",)) if p["id"] == "lib/roundtrip")
    res = dc.process_all([bad, good], {"seed": seed(), "execute": False}, nproc=1)
    sk_bad = dict(res[0]["skeleton"], id="bad")
    sk_good = dict(res[1]["skeleton"], id="good")
    sk_cut = copy.deepcopy(sk_good)
    sk_cut["id"] = "good-with-one-send-end-removed"
    sk_cut["sends"].pop()
    exp = expected_of([sk_bad, sk_good, sk_cut])
    exp.pop("__stats__")
    checks = []
    o, v = judge(exp["bad"], res[0]["stages"])
    checks.append(("faulted program, real verdict", o, o.startswith("mal_diagnosed") and not v))
    st = copy.deepcopy(res[0]["stages"])
    for lst in st.values():
        for s in lst:
            if s:
                s.update(status="ok", exc="", documented=False, reason="")
    o, v = judge(exp["bad"], st)
    checks.append(("... recorded exceptions erased", o, o == "mal_undiagnosed" and bool(v)))
    st = copy.deepcopy(res[0]["stages"])
    for s in st["find"]:
        if s["status"] == "raised":
            s.update(exc="KeyError", documented=False)
    o, v = judge(exp["bad"], st)
    checks.append(("... exception renamed to KeyError", o, o == "mal_undocumented" and bool(v)))
    o, v = judge(exp["good"], res[1]["stages"])
    checks.append(("valid program, real verdict", o, o == "wf_accepted" and not v))
    o, v = judge(exp["good-with-one-send-end-removed"], res[1]["stages"])
    checks.append(("... one send end removed from the exported skeleton", o,
                   o == "mal_undiagnosed" and bool(v)))
    st = copy.deepcopy(res[1]["stages"])
    st["find"][0].update(status="raised", exc="MissingSendError", documented=True)
    o, v = judge(exp["good"], st)
    checks.append(("... a diagnostic invented for the valid program", o,
                   o == "wf_rejected" and bool(v)))
    ok = True
    for name, o, good_ in checks:
        ok = ok and good_
        print(f"  {name}: {o} {'' if good_ else '  <-- UNEXPECTED'}")
    print("selftest", "passed" if ok else "FAILED")
    return 0 if ok else 2
