"""X02 -- renderings are faithful: the textual renderings of expression graphs
(pytato.visualization.dot: get_dot_graph, get_dot_graph_from_partition,
show_dot_graph's text path; fancy_placeholder_data_flow; pytato.stringifier:
repr(array)) are faithful pictures of the graph they are given.

Specification: spec/PtDot.tla (the picture a source is owed and the
faithfulness relation, decided through structural classes), spec/PtDotFancy.tla
(the data-flow picture), spec/PtRepr.tla (repr as the depth-truncated
unfolding), independent of pytato's code.

M  spec/PtDotMC.tla: a reference renderer shaped like the code's mapper (one
   action per edge followed / node completed, a cache per part) model-checked
   over ALL small sources (<= 4-5 nodes, sharing, two parts, a function) under
   every visiting order: its rendering is faithful; the class-based decision
   procedure agrees with the explicit "there is a bijection" relation, also on
   unfaithful renderings; seven classic renderer bugs are REFUTED by TLC
   (negative controls).  spec/PtReprMC.tla: the stringifier's cache discipline
   over all small DAGs, three bugs refuted.
G  the same module as generator: every source with 4 nodes is realised with
   real pytato nodes (one template per edge kind, mapperharness.build_t1) and
   rendered by the real code.
E  records exported from real runs (witness graphs, API-built graphs of every
   node kind, random programs with tags that need escaping, multi-rank
   partitions, hand-built partitions, ladders) are judged by TLC
   (spec/PtDotCheck.tla).  The harness checks purity (repeated calls, input
   not mutated, text under other hash seeds in fresh interpreters).

Three voices: TLC's verdict and the hand computation (ptverif/viz.py,
vizrepr.py) must agree on every record; where a graphviz is installed its
reading of the DOT text must agree with the harness' parser.
"""
from __future__ import annotations

import copy
import json
import os
import subprocess
import sys
import threading
from concurrent.futures import ThreadPoolExecutor
from typing import Any

import numpy as np

from ptverif import progspace, tlc, viz, vizjobs, vizrepr
from ptverif.common import NCPU, REPO, VERIF, MachineryError, Run, robust_map, scratch, seed

PROP = "X02"

# --------------------------------------------------------------------------
# M

MC_QUICK = [("PtDotMC", "PtDotMC.cfg", 51385), ("PtDotMC", "PtDotMC1.cfg", 33113),
            ("PtDotMC", "PtDotAny.cfg", 21901), ("PtReprMC", "PtReprMC.cfg", 4368)]
MC_THOROUGH = MC_QUICK + [("PtDotMC", "PtDotMC5.cfg", 745912), ("PtDotMC", "PtDotAny4.cfg", 2211093),
                          ("PtReprMC", "PtReprMC5.cfg", 183456)]
NEGATIVE = [("PtDotMC", f"PtDotBug_{b}.cfg", "RefFaithful")
            for b in ("per_path", "drop_shared_edge", "dup_edge_on_hit", "func_per_call",
                      "wrong_part", "ph_per_part", "dead_nodes")] + \
           [("PtReprMC", "PtReprBug_key.cfg", "Correct"), ("PtReprMC", "PtReprBug_off.cfg", "Correct"),
            ("PtReprMC", "PtReprBug_nocache.cfg", "Linear")]


def model_check(tier: str, box: dict) -> None:
    try:
        positive = MC_QUICK if tier == "quick" else MC_THOROUGH

        def pos(item: tuple) -> tuple:
            mod, cfg, expect = item
            res = tlc.run_tlc(mod, cfg, workers=4, timeout=3000, heap="4g")
            if not res.ok:
                failed = [ln for ln in res.printed if "FAILED" in ln][:3]
                raise MachineryError(f"the specification violates its own properties ({cfg}): "
                                     f"{res.violated} {failed} {res.error or ''}")
            if res.distinct != expect:
                raise MachineryError(f"{cfg}: {res.distinct} states, expected {expect}")
            return res.distinct, res.generated

        def neg(item: tuple) -> tuple:
            mod, cfg, inv = item
            res = tlc.run_tlc(mod, cfg, workers=1, timeout=900)
            # (TLC's counterexample starts with "Error: The behavior up to this point
            # is:", which the runner files under errors)
            real_error = res.error and "The behavior up to this point" not in res.error
            if real_error or inv not in res.violated:
                raise MachineryError(f"negative control {cfg}: TLC did not refute {inv} "
                                     f"({res.error or res.violated})")
            return res.distinct, res.generated
        with ThreadPoolExecutor(max_workers=4) as ex:
            rs = list(ex.map(pos, positive)) + list(ex.map(neg, NEGATIVE))
        box["mc"] = (sum(r[0] for r in rs), sum(r[1] for r in rs), len(NEGATIVE))
    except BaseException as ex:      # noqa: BLE001
        box["error"] = ex


# --------------------------------------------------------------------------
# jobs

def generated_shapes() -> list[dict]:
    res = tlc.run_tlc("PtDotMC", "PtDotGen.cfg", workers=1, timeout=600)
    if res.error or res.violated:
        raise MachineryError(f"generator PtDotGen failed: {res.error or res.violated}")
    shapes = tlc.parse_printed_json(res, "SHAPE")
    if len(shapes) != 400:
        raise MachineryError(f"generator printed {len(shapes)} sources, expected 400")
    return shapes


def jobs_for(tier: str) -> list[dict]:
    from ptverif import distprogs
    from ptverif import mapperharness as mh
    quick = tier == "quick"
    rng = np.random.default_rng([seed(), 202])
    jobs: list[dict] = []
    for k in mh.all_witnesses():
        jobs.append({"kind": "witness", "id": f"w/{k}", "name": k, "hs": True,
                     "depths": [0, 3, 6] if quick else [0, 1, 3, 6]})
    for k in vizjobs.api_graphs():
        jobs.append({"kind": "api", "id": f"api/{k}", "name": k, "hs": True,
                     "depths": [1, 3] if quick else [0, 2, 3, 5]})
    jobs.append({"kind": "traceback", "id": "tb/every_kind", "name": "every_kind"})
    jobs.append({"kind": "traceback", "id": "tb/nasty_tags", "name": "nasty_tags"})
    for k in vizjobs.nasty_name_cases():
        jobs.append({"kind": "names", "id": f"names/{k}", "name": k})
    for k in vizjobs.hand_partitions():
        jobs.append({"kind": "handpart", "id": f"hand/{k}", "name": k, "hs": True})
    # G: the sources TLC enumerates, one template per edge kind
    schemes = mh.T1_SCHEMES
    for i, sh in enumerate(generated_shapes()):
        n = len(sh["ch"])
        per = 1 if quick else 4
        for j in range(per):
            sc = schemes[(i * per + j + seed()) % len(schemes)]
            jobs.append({"kind": "t1", "id": f"gen/{i}/{sc}", "ch": sh["ch"],
                         "rep": list(range(1, n + 1)), "scheme": sc,
                         "leaf": ["ph", "mix"][(i + j) % 2], "root": ["dict", "array"][(i // 2 + j) % 2],
                         "gv": (i + j) % (8 if quick else 3) == 0, "repr": (i + j) % (5 if quick else 3) == 0,
                         "hs": i % 40 == 0})
    # random programs, some values tagged with texts that need escaping
    nprog = 120 if quick else 1500
    for k in range(nprog):
        p = progspace.random_program(rng, f"rand/{k}", int(rng.integers(2, 10)),
                                     dtypes=("f8", "f8", "f4", "i8", "b1", "c16"))
        nvals = len(p["inputs"]) + len(p["calls"])
        p["ntags"] = [[int(rng.integers(1, nvals + 1)), int(rng.integers(0, 20))]
                      for _ in range(int(rng.integers(0, 4)))]
        jobs.append({"kind": "prog", "id": f"rand/{k}", "prog": p, "gv": k % 4 == 0,
                     "repr": k % 2 == 0, "fancy": k % 2 == 1, "hs": k % 6 == 0})
    # partitions of multi-rank programs
    lib = distprogs.library(("str",) if quick else ("str", "int"))
    for i, prog in enumerate(lib):
        jobs.append({"kind": "dist", "id": f"dist/{prog['id']}", "prog": prog,
                     "num": not quick or i % 2 == 0, "gv": i % 5 == 0, "hs": i % 6 == 0})
    # ladders: exponentially many paths
    depths = (12, 40) if quick else (5, 12, 25, 40)
    for sc in mh.LADDER_SCHEMES:
        if sc == "loopy":
            continue
        for shape in ("rails", "doubling", "rails_dup"):
            for dp in depths:
                if shape == "rails_dup" and dp > 12:
                    continue
                jobs.append({"kind": "ladder", "id": f"ladder/{sc}/{shape}/{dp}", "scheme": sc,
                             "shape": shape, "depth": dp, "depths": [0, 3] if dp > 12 else [0, 1, 3],
                             "dot": shape != "rails_dup"})
    # deep truncation on a doubling ladder: the text is the full unfolding, the work is not
    jobs.append({"kind": "ladder", "id": "ladder/il/doubling/10@deep", "scheme": "il",
                 "shape": "doubling", "depth": 10, "depths": [8, 11, 12], "dot": False})
    jobs.append({"kind": "ladder", "id": "ladder/einsum/rails/6@deep", "scheme": "einsum",
                 "shape": "rails", "depth": 6, "depths": [6, 7, 9], "dot": False})
    return jobs


def _run_jobs(jobs: list[dict]) -> list[list[dict]]:
    import warnings
    warnings.simplefilter("ignore")
    return vizjobs.run_jobs(jobs)


# --------------------------------------------------------------------------
# (b) other hash seeds, fresh interpreters

def other_seeds(jobs: list[dict], box: dict, seeds: tuple = (0, 1, 2)) -> None:
    """the sample of jobs in fresh interpreters, one per hash seed (the
    check's own interpreter is not one of them: its hash seed is whatever it
    was started with)"""
    try:
        sample = [j for j in jobs if j.get("hs")]
        d = scratch()
        jf = os.path.join(d, f"hs_jobs_{os.getpid()}.json")
        with open(jf, "w") as f:
            json.dump(sample, f)

        def one(s: int) -> dict:
            of = os.path.join(d, f"hs_out_{os.getpid()}_{s}.json")
            env = dict(os.environ, PYTHONHASHSEED=str(s),
                       PYTHONPATH=os.pathsep.join([VERIF, REPO]))
            p = subprocess.run([sys.executable, "-W", "ignore", "-m", "ptverif.vizjobs", jf, of],
                               env=env, cwd=VERIF, capture_output=True, text=True, timeout=1500)
            if p.returncode != 0:
                raise MachineryError(f"hash-seed worker (seed {s}) failed: {p.stderr[-800:]}")
            with open(of) as f:
                return json.load(f)
        with ThreadPoolExecutor(max_workers=len(seeds)) as ex:
            box["hs"] = dict(zip(seeds, ex.map(one, seeds)))
        box["hs_jobs"] = len(sample)
    except BaseException as ex:      # noqa: BLE001
        box["hs_error"] = ex


# --------------------------------------------------------------------------

def judge_hand(rec: dict) -> tuple[str, str]:
    if rec["kind"] == "dot":
        return viz.judge(rec)
    if rec["kind"] == "fancy":
        return viz.judge_fancy(rec)
    return vizrepr.judge_repr(rec["src"], rec["tree"], rec["depth"])


def main(tier: str, only: list[dict] | None = None, hs: bool = False) -> int:
    run = Run(PROP, tier, "model_checking")
    box: dict[str, Any] = {}
    threads: list[threading.Thread] = []
    if only is None:
        # (X02_SKIP_MC: mutation experiments only -- the model-checked part does not
        # look at pytato)
        if not os.environ.get("X02_SKIP_MC"):
            threads.append(threading.Thread(target=model_check, args=(tier, box)))
            threads[-1].start()
        jobs = jobs_for(tier)
        threads.append(threading.Thread(target=other_seeds, args=(jobs, box)))
        threads[-1].start()
    else:
        jobs = only
        if hs:       # replay of a hash-seed violation: the fresh interpreters again
            jobs = [dict(j, hs=True) for j in jobs]
            threads.append(threading.Thread(target=other_seeds, args=(jobs, box)))
            threads[-1].start()
    results = [r for rs in robust_map(
        _run_jobs, jobs, chunk=max(1, min(12, len(jobs) // (NCPU * 3) or 1)),
        crashed=lambda item, why: [{"id": item["id"], "family": item["kind"], "records": [],
                                    "problems": [], "status": "crashed:" + why[:80],
                                    "hashes": {}, "stats": {}, "job": item}])
        for r in rs]
    status: dict[str, int] = {}
    fam: dict[str, int] = {}
    stats: dict[str, int] = {}
    records: list[dict] = []
    owner: dict[str, dict] = {}
    hashes: dict[str, dict] = {}
    for r in results:
        st = r["status"].split(":")[0]
        status[st] = status.get(st, 0) + 1
        if st in ("unsupported", "crashed"):
            d = run.coverage.setdefault("skipped_reasons", {})
            d[r["status"][:70]] = d.get(r["status"][:70], 0) + 1
        if r.get("machinery"):
            raise MachineryError(r["machinery"])
        for pr in r["problems"]:
            run.violation(f"{r['id']}/{pr['clause']}",
                          f"{r['id']}: {pr['clause']}: {pr['what']}", record=r["job"],
                          observed=pr["what"],
                          sig={"clause": pr["clause"], "family": r["family"].split(":")[0],
                               "exc": pr.get("exc", ""), "id": r["id"]})
        for rec in r["records"]:
            records.append(rec)
            owner[rec["id"]] = r
            fam[r["family"].split(":")[0] + "/" + rec["kind"]] = \
                fam.get(r["family"].split(":")[0] + "/" + rec["kind"], 0) + 1
        hashes.update(r["hashes"])
        for k, v in r["stats"].items():
            if isinstance(v, int):
                stats[k] = stats.get(k, 0) + v
            elif k == "graphviz_warnings":
                stats["graphviz_warned"] = stats.get("graphviz_warned", 0) + 1
    if status.get("crashed"):
        raise MachineryError(f"{status['crashed']} job(s) crashed their worker")
    hand = {rec["id"]: judge_hand(rec) for rec in records}
    val = tlc.validate_records("PtDotCheck", "PtDotCheck.cfg", records, timeout=3000,
                               shards=NCPU if len(records) > 60 else 1, heap="3g")
    clauses: dict[str, int] = {}
    for rec in records:
        v = val.verdicts[rec["id"]]
        hv, detail = hand[rec["id"]]
        if v != hv:
            raise MachineryError(
                f"specification and hand computation disagree on {rec['id']}: TLC says '{v}', "
                f"hand computation says '{hv}' ({detail}); job: "
                f"{json.dumps(owner[rec['id']]['job'])[:1200]}")
        if v == "unsupported_source":
            raise MachineryError(f"{rec['id']}: the source record is not well-formed: {detail}")
        clauses[f"{rec['kind']}:{v}"] = clauses.get(f"{rec['kind']}:{v}", 0) + 1
        if v != "ok":
            r = owner[rec["id"]]
            what = {"dot": "the DOT text is not a faithful picture of the graph",
                    "fancy": "the data-flow picture is not faithful",
                    "repr": "repr() is not the depth-truncated unfolding"}[rec["kind"]]
            run.violation(rec["id"], f"{rec['id']}: {what}: clause '{v}': {detail}",
                          record=r["job"], observed=detail,
                          sig={"clause": v, "family": r["family"].split(":")[0],
                               "kind": rec["kind"], "id": rec["id"].split("#")[0]})
    for t in threads:
        t.join()
    if "error" in box:
        raise box["error"]
    if "hs_error" in box:
        raise box["hs_error"]
    hs_stats = {"cases": 0, "text_differs": 0, "picture_differs": 0,
                "repr_text_differs_allowed": 0}
    if "hs" in box:
        ref = box["hs"][0]
        job_of = {r["id"]: r["job"] for r in results}
        for s, other in box["hs"].items():
            if s == 0:
                continue
            for cid, h in other.items():
                mine = ref.get(cid)
                if mine is None:
                    continue
                hs_stats["cases"] += 1
                job = job_of.get(cid)
                if h["picture"] != mine["picture"]:
                    hs_stats["picture_differs"] += 1
                    run.violation(f"{cid}/hashseed_picture",
                                  f"{cid}: under PYTHONHASHSEED={s} the rendering is another "
                                  f"PICTURE (not isomorphic) than under PYTHONHASHSEED=0",
                                  record=job,
                                  sig={"clause": "hashseed_picture", "id": cid,
                                       "family": cid.split("/")[0]})
                elif h["text"] != mine["text"] and mine.get("repr"):
                    # sets are printed in iteration order, as CPython prints its own
                    # sets: allowed ("closely resembles CPython's repr")
                    hs_stats["repr_text_differs_allowed"] += 1
                elif h["text"] != mine["text"]:
                    hs_stats["text_differs"] += 1
                    run.violation(f"{cid}/hashseed_text",
                                  f"{cid}: under PYTHONHASHSEED={s} the text (addresses "
                                  f"masked) differs from the text under PYTHONHASHSEED=0; "
                                  f"the picture is the same", record=job,
                                  sig={"clause": "hashseed_text", "id": cid,
                                       "family": cid.split("/")[0]})
    mc_states, mc_trans, nneg = box.get("mc", (0, 0, 0))
    nontrivial = sum(1 for rec in records if rec["kind"] == "dot" and len(rec["src"]["nodes"]) >= 3)
    run.coverage.update({
        "states": val.states + mc_states, "transitions": val.transitions + mc_trans,
        "model_checked_states": mc_states, "negative_controls_refuted": nneg,
        "traces_validated_against_impl": len(records),
        "evaluations": len(results), "distinct_nontrivial": nontrivial,
        "rule": "one evaluation = one case (a graph / partition / ladder) pushed through a real "
                "renderer, twice; non-trivial = a DOT record judged by TLC whose source has at "
                "least three nodes",
        "jobs": len(jobs), "status": status, "records_by_family": fam, "verdicts": clauses,
        "hash_seeds": hs_stats, "hash_seed_jobs": box.get("hs_jobs", 0), "totals": stats,
        "exhaustive": False, "tlc_wall_s": round(val.wall, 1),
    })
    for r in results[:2]:
        run.sample({"job": {k: v for k, v in r["job"].items() if k != "prog"},
                    "status": r["status"], "records": [x["id"] for x in r["records"]]})
    run.assumptions += [
        "structurally equal nodes are one node (the renderer keys its tables by ==); graphs "
        "with duplicates may be refused with the documented cache-collision error",
        "MAY: dependencies through array-valued shapes / slice bounds drawn or not (per kind); "
        "label fields outside the MUST table; the cluster of a main-graph placeholder; which "
        "instance an overall output is attached to; values of addr / data",
        "repr of loopy calls is not parsed (free text); CSRMatrix / DistributedSend fields are "
        "compared as opaque atoms",
        "fancy data flow: NotImplementedError / UnsupportedArrayError are accepted refusals"]
    return run.finish()


def replay(rep: dict) -> int:
    clause = str((rep.get("sig") or {}).get("clause", ""))
    return main("quick", only=[rep["record"]], hs=clause.startswith("hashseed"))


# --------------------------------------------------------------------------

def selftest(tier: str) -> int:
    """The binding: a real DOT text is accepted; the same text with one edge
    line dropped / one node line duplicated (same id; fresh id) / one label
    changed / one edge label changed / one node moved to another cluster / an
    unescaped quote is REJECTED by both voices with the right clause; a real
    repr is accepted and rejected once a field is dropped or a level of
    truncation is off."""
    import re
    import warnings
    warnings.simplefilter("ignore")
    import pytato as pt
    outs = vizjobs.api_graphs()["functions"]()
    outs = {k: outs[k] for k in ("a", "b", "c")}
    d = dict(pt.transform.deduplicate(pt.make_dict_of_named_arrays(outs))._data)
    S = viz.source_of_outputs(d)
    text = pt.get_dot_graph(pt.make_dict_of_named_arrays(d))
    lines = text.split("\n")
    edge = next(i for i, ln in enumerate(lines) if re.match(r'\s+array_\d+ -> array_\d+ \[label="_in0"\]', ln))
    node = next(i for i, ln in enumerate(lines) if re.match(r"\s+array_2 \[label=<", ln))
    # (a node statement spans two lines: the table tag ends the first)
    variants = {"genuine": text}
    variants["edge_dropped"] = "\n".join(lines[:edge] + lines[edge + 1:])
    variants["edge_twice"] = "\n".join(lines[:edge + 1] + lines[edge:])
    variants["node_line_twice"] = "\n".join(lines[:node + 2] + lines[node:])
    variants["node_twice_fresh_id"] = "\n".join(
        lines[:node + 2] + [lines[node].replace("array_2 [", "array_999 [", 1), lines[node + 1]]
        + lines[node + 2:])
    variants["label_changed"] = text.replace("float64", "float32", 1)
    variants["edge_label_changed"] = "\n".join(
        lines[:edge] + [lines[edge].replace('"_in0"', '"_in7"')] + lines[edge + 1:])
    variants["edge_rewired"] = "\n".join(
        lines[:edge] + [re.sub(r"array_\d+ ->", "array ->", lines[edge], count=1)] + lines[edge + 1:])
    ret = next(i for i, ln in enumerate(lines) if re.match(r'\s+_ \[label="_"\]', ln))
    variants["node_moved_cluster"] = "\n".join(
        lines[:ret] + lines[ret + 1:-1] + [lines[ret], lines[-1]])
    variants["quote_unescaped"] = text.replace('tooltip="&lt;unknown&gt;"', 'tooltip="a"b"', 1)
    variants["html_unescaped"] = text.replace("float64", "float&64", 1)
    want = {"genuine": "ok", "edge_dropped": "edge_missing", "edge_twice": "edge_duplicated",
            "node_line_twice": "node_declared_twice", "node_twice_fresh_id": "node_extra",
            "label_changed": "label", "edge_label_changed": "edge_label",
            "edge_rewired": "edge_missing", "node_moved_cluster": "cluster",
            "quote_unescaped": "dot_syntax", "html_unescaped": "label_malformed"}
    recs = [{"id": k, "kind": "dot", "src": vizjobs.strip(S), "dot": viz.rendering(v, S["_addr"])}
            for k, v in variants.items()]
    # a wrong address
    bad = copy.deepcopy(recs[0])
    bad["id"] = "addr_of_another_node"
    nd = [n for n in bad["dot"]["nodes"] if n["oid"] > 0]
    nd[0]["oid"], nd[1]["oid"] = nd[1]["oid"], nd[0]["oid"]
    recs.append(bad)
    want["addr_of_another_node"] = "identity"
    # repr
    x = d["a"]
    RS = vizrepr.repr_source(x)
    good = repr(x)
    rv = {"repr_genuine": (good, 3), "repr_depth_off": (good, 2),
          "repr_field_dropped": (good.replace("dtype='float64', ", "", 1), 3),
          "repr_value_changed": (good.replace("'float64'", "'float32'", 1), 3),
          "repr_unbalanced": (good[:-1], 3)}
    for k, (t, dp) in rv.items():
        recs.append({"id": k, "kind": "repr", "src": RS, "depth": dp,
                     "tree": vizrepr.normalise_term(vizrepr.parse_repr(t))})
    want.update({"repr_genuine": "ok", "repr_depth_off": "truncation_depth",
                 "repr_field_dropped": "repr_mismatch", "repr_value_changed": "repr_mismatch",
                 "repr_unbalanced": "repr_syntax"})
    # fancy
    fo = {"out": d["c"]} if False else {"o": pt.make_placeholder("p", (3,)) * 2 + pt.zeros((3,))}
    fr = vizjobs.fancy_case("fancy_genuine", fo, "selftest")
    frec = fr["records"][0]
    recs.append(frec)
    want["fancy_genuine"] = "ok"
    fbad = copy.deepcopy(frec)
    fbad["id"] = "fancy_edge_dropped"
    tgt = next(n for n in fbad["dot"]["nodes"] if n["kids"])
    tgt["kids"] = []
    recs.append(fbad)
    want["fancy_edge_dropped"] = "edge_missing"
    val = tlc.validate_records("PtDotCheck", "PtDotCheck.cfg", recs, shards=2)
    hand = {r["id"]: judge_hand(r)[0] for r in recs}
    ok = all(val.verdicts[k] == want[k] and hand[k] == want[k] for k in want)
    print("selftest", "passed" if ok else "FAILED")
    for k in want:
        print(f"  {k:26s} want {want[k]:22s} tlc {val.verdicts[k]:22s} hand {hand[k]}")
    return 0 if ok else 2
