#!/venv/bin/python
"""Entry point of every registered check.

    /venv/bin/python checks/run.py C02 quick|thorough [--selftest]
    /venv/bin/python checks/run.py C02 --replay replay/C02/<hash>.json

Exit 0 held / 1 VIOLATION printed / 2 machinery failure.
"""
from __future__ import annotations

import importlib
import json
import os
import sys
import traceback

HERE = os.path.dirname(os.path.abspath(__file__))
sys.path.insert(0, os.path.dirname(HERE))
if "PYTHONHASHSEED" not in os.environ:
    # str hashes seed per-program random streams (abs(hash(id))): without a fixed hash
    # seed in THIS process (and the workers forked from it) a run is not a function of
    # VERIF_SEED and a replay file need not reproduce.  Re-execute with the seed set.
    os.environ["PYTHONHASHSEED"] = "0"
    os.execv(sys.executable, [sys.executable, os.path.abspath(__file__), *sys.argv[1:]])

from ptverif.common import MachineryError, ensure_repo_on_path, scratch  # noqa: E402


def main(argv: list[str]) -> int:
    if len(argv) < 2:
        print(__doc__)
        return 2
    prop = argv[0].upper()
    ensure_repo_on_path()
    scratch()
    try:
        mod = importlib.import_module(f"checks.{prop.lower()}")
    except ModuleNotFoundError as ex:
        print(f"no check module for {prop}: {ex}")
        return 2
    try:
        if argv[1] == "--replay":
            with open(argv[2]) as f:
                rep = json.load(f)
            return int(mod.replay(rep))
        tier = argv[1] if argv[1] in ("quick", "thorough") else \
            os.environ.get("VERIF_TIER", "quick")
        if "--selftest" in argv:
            return int(mod.selftest(tier))
        return int(mod.main(tier))
    except MachineryError as ex:
        print(f"MACHINERY-FAILURE property={prop}: {ex}")
        return 2
    except Exception:       # noqa: BLE001
        traceback.print_exc()
        print(f"MACHINERY-FAILURE property={prop}: unexpected exception in the check")
        return 2


if __name__ == "__main__":
    sys.exit(main(sys.argv[1:]))
