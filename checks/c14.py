"""C14 -- Python (NumPy-like / JAX) code generation computes what NumPy
computes.

G: programs of C01's space restricted to static shapes, without sparse
   matmul / loopy calls (seeded random DAG programs + systematic single
   operations); the NumPy-like module is real NumPy (JAX is absent here; the
   property names NumPy as the stand-in).
   Each program goes through the real generate_numpy_like with a harness-side
   NumpyLikePythonTarget and the generated function is executed on 2-3 input
   valuations and compared with the NumPy mirror (as C01).  Additionally:
     * the keyword-only parameters of the generated function are exactly the
       user's input names, wrapped data is pre-bound (the same objects);
     * a construct outside the target's fragment must raise a not-supported
       error at generation; AttributeError / NameError / TypeError at run time
       (a function the array module does not provide) is a violation;
E: for index nodes the slice text the generator emits is extracted from the
   generated source and TLC (PtCheck rel "sliceeq", PtCore's CPython slice
   semantics) decides that the re-synthesised slice selects the same elements
   as the index the user wrote -- exhaustively over the C02 slice scope in the
   thorough tier.
"""
from __future__ import annotations

import ast
import multiprocessing as mp
import traceback
from typing import Any

import numpy as np

from ptverif import export, progspace, runprog, tlc
from ptverif import replay as rp
from ptverif.common import NCPU, MachineryError, Run, robust_map, seed

PROP = "C14"
UNSUPPORTED_OPS = {"csr"}


def make_target() -> Any:
    from pytato.target.python import BoundPythonProgram, NumpyLikePythonTarget

    class NumpyTarget(NumpyLikePythonTarget):
        @property
        def numpy_like_module_name(self) -> str:
            return "numpy"

        @property
        def numpy_like_module_name_shorthand(self) -> str:
            return "_pt_np"

        def bind_program(self, program: str, entrypoint: str,
                         expected_arguments: frozenset, bound_arguments: Any) -> Any:
            return BoundPythonProgram(target=self, program=program, entrypoint=entrypoint,
                                      expected_arguments=expected_arguments,
                                      bound_arguments=bound_arguments)
    return NumpyTarget()


def install_fake_jax() -> None:
    """jax is not installed here.  The JAX target itself (generate_jax,
    JAXPythonTarget, the jit decorator, the processing of bound arguments) is
    pytato code like any other: it is driven with a stand-in `jax` package whose
    `jax.numpy` is NumPy, `device_put` the identity and `jit` a decorator that
    records that it was applied."""
    import sys
    import types
    if "jax" in sys.modules and getattr(sys.modules["jax"], "_ptverif_fake", False):
        return
    jax = types.ModuleType("jax")
    jax._ptverif_fake = True
    jax.__path__ = []                 # a package
    jax.numpy = np
    jax.Array = np.ndarray
    jax.device_put = lambda a: a

    def jit(f: Any) -> Any:
        def wrapped(*a: Any, **kw: Any) -> Any:
            return f(*a, **kw)
        wrapped._ptverif_jitted = True
        return wrapped
    jax.jit = jit
    sys.modules["jax"] = jax
    sys.modules["jax.numpy"] = np


def generate(outs: dict, jax_mode: str | None = None) -> Any:
    import pytato as pt
    from pytato.target.python.numpy_like import generate_numpy_like
    expr = pt.transform.deduplicate(pt.make_dict_of_named_arrays(outs))
    if jax_mode:
        install_fake_jax()
        return pt.generate_jax(expr, jit=jax_mode == "jit")
    return generate_numpy_like(expr, make_target(), "_pt_kernel", False, (), ())


def not_supported_error(ex: BaseException) -> bool:
    from pytato.diagnostic import UnknownIndexLambdaExpr
    names = {c.__name__ for c in type(ex).__mro__}
    return isinstance(ex, (NotImplementedError, UnknownIndexLambdaExpr)) \
        or "CannotBeLoweredToIndexLambda" in names or "UnsupportedArrayError" in names


def slice_items_in_source(src: str) -> list[list[dict]]:
    """Every subscript with a tuple of constant ints / constant slices in the
    generated source, as raw Python index items."""
    def const(e: ast.expr | None) -> list[int] | None:
        if e is None:
            return []
        if isinstance(e, ast.Constant) and isinstance(e.value, int):
            return [int(e.value)]
        if isinstance(e, ast.UnaryOp) and isinstance(e.op, ast.USub) \
                and isinstance(e.operand, ast.Constant):
            return [-int(e.operand.value)]
        return None
    out = []
    for node in ast.walk(ast.parse(src)):
        if isinstance(node, ast.Subscript):
            elts = node.slice.elts if isinstance(node.slice, ast.Tuple) else [node.slice]
            items: list[dict] = []
            ok = True
            for e in elts:
                if isinstance(e, ast.Slice):
                    lo, hi, st = const(e.lower), const(e.upper), const(e.step)
                    if lo is None or hi is None or st is None:
                        ok = False
                        break
                    items.append({"t": "slice", "start": lo, "stop": hi, "step": st})
                else:
                    c = const(e)
                    if c is None or c == []:
                        items.append({"t": "arr"})
                    else:
                        items.append({"t": "int", "v": c[0]})
            if ok:
                out.append(items)
    return out


def run_one(prog: dict) -> dict:
    import pytato as pt
    pid = prog["id"]
    rng = np.random.default_rng([seed(), abs(hash(pid)) % (2 ** 31)])
    res: dict[str, Any] = {"id": pid, "status": "ok", "problems": [], "compared": 0,
                           "records": [], "ops": sorted({c["op"] for c in prog["calls"]})}
    data0 = runprog.input_data(prog, rng, "normal")
    dw_names = {i["name"] for i in prog["inputs"] if i.get("kind") == "dw"}
    pb = rp.PtBackend({k: v for k, v in data0.items() if k in dw_names})
    pb.run(prog)
    if pb.rejections:
        res["status"] = "pytato_rejects"
        return res
    outs = pb.outs()
    if not all(isinstance(v, pt.Array) for v in outs.values()):
        res["status"] = "non_array_output"
        return res
    if runprog.numpy_reference(prog, data0)[0] is None:
        res["status"] = "numpy_rejects"
        return res
    try:
        bp = generate(outs, prog.get("jax"))
    except Exception as ex:      # noqa: BLE001
        if not_supported_error(ex):
            res["status"] = "not_supported:" + type(ex).__name__
            res["unsupported_ops"] = res["ops"]
            return res
        res["problems"].append({"clause": "generation_raised", "exc": type(ex).__name__,
                                "what": f"{type(ex).__name__}: {ex}"[:300],
                                "where": traceback.format_exc().splitlines()[-3][:160]})
        return res
    if prog.get("jax"):
        # generate_jax(jit=True) decorates the entry point with jax.jit, jit=False not
        try:
            jitted = bool(getattr(bp._compiled_function, "_ptverif_jitted", False))
        except Exception as ex:      # noqa: BLE001
            res["problems"].append({"clause": "generated_source_invalid",
                                    "exc": type(ex).__name__,
                                    "what": f"{type(ex).__name__}: {ex}"[:300]})
            return res
        if jitted != (prog["jax"] == "jit"):
            res["problems"].append({"clause": "jit_decorator", "exc": "",
                                    "what": f"jit={prog['jax'] == 'jit'} but the entry point "
                                            f"is {'' if jitted else 'not '}wrapped by jax.jit"})
        if "jax.numpy" not in bp.program:
            res["problems"].append({"clause": "jax_module", "exc": "",
                                    "what": "the generated source does not import jax.numpy"})
    # arguments: exactly the user's reachable inputs; wrapped data pre-bound
    ph_all = {i["name"] for i in prog["inputs"] if i.get("kind", "ph") == "ph"}
    from pytato.transform import InputGatherer
    used = {e.name for e in InputGatherer()(pt.transform.deduplicate(
        pt.make_dict_of_named_arrays(outs)))
            if isinstance(e, pt.Placeholder)}
    free = set(bp.expected_arguments) - set(bp.bound_arguments)
    # (an input that only determines a shape, e.g. through zeros_like, may be
    # absent from the generated signature: BoundPythonProgram drops it)
    if not free <= used:
        res["problems"].append({"clause": "arguments", "exc": "",
                                "what": f"free keyword arguments {sorted(free)} are not "
                                        f"among the program's inputs {sorted(used)}"})
    wrapped = [v for k, v in pb.data.items()]
    for name, arr in bp.bound_arguments.items():
        if not any(arr is w for w in wrapped):
            res["problems"].append({"clause": "bound_data_identity", "exc": "",
                                    "what": f"bound argument {name} is not one of the "
                                            f"wrapped objects"})
    # slice re-synthesis, judged by TLC
    if len(prog["calls"]) == 1 and prog["calls"][0]["op"] == "index" \
            and all(it["t"] in ("int", "slice") for it in prog["calls"][0]["idx"]):
        subs = slice_items_in_source(bp.program)
        shape = prog["inputs"][prog["calls"][0]["a"] - 1]["shape"]
        emitted = subs[0] if subs else []
        if len(subs) <= 1:
            res["records"].append({"id": pid + "#slice", "rel": "sliceeq", "shape": shape,
                                   "a": prog["calls"][0]["idx"], "b": emitted})
    declared = {k: (tuple(int(s) for s in v.shape), np.dtype(v.dtype)) for k, v in outs.items()}
    kinds = ["normal", "injective"] + (["special"] if runprog.nan_aware(prog) else [])
    for kind in kinds:
        data = data0 if kind == "normal" else runprog.input_data(prog, rng, kind)
        for k in dw_names:
            data[k] = data0[k]
        ref, values = runprog.numpy_reference(prog, data)
        if ref is None:
            continue
        if runprog.int_overflow_risk(values):
            res["skipped_overflow"] = res.get("skipped_overflow", 0) + 1
            continue
        before = {k: v.copy() for k, v in data.items()}
        try:
            import warnings
            with warnings.catch_warnings():
                warnings.simplefilter("ignore")
                got = bp(**{k: v for k, v in data.items() if k in used})
        except Exception as ex:      # noqa: BLE001
            res["problems"].append({"clause": "runtime_raised", "exc": type(ex).__name__,
                                    "what": f"{type(ex).__name__}: {ex}"[:300]})
            break
        for k, v in before.items():
            if not np.array_equal(v, data[k], equal_nan=True):
                res["problems"].append({"clause": "input_written", "exc": "",
                                        "what": f"input {k} was modified by the generated "
                                                f"code"})
        scale = runprog.scale_of(data, values)
        single = runprog.single_precision_involved(data, values)
        if not isinstance(got, dict) and len(declared) == 1:
            got = {next(iter(declared)): got}
        for name, (shape, dtype) in declared.items():
            if name not in got:
                res["problems"].append({"clause": "missing_output", "exc": "",
                                        "what": f"output {name} not returned"})
                continue
            g = np.asarray(got[name])
            if tuple(g.shape) != shape:
                res["problems"].append({"clause": "declared_shape", "exc": "",
                                        "what": f"{name}: returned shape {g.shape}, declared "
                                                f"{shape}"})
                continue
            # the generated code computes with NumPy, so a faithful translation returns
            # the dtype NumPy returns for the program itself (not necessarily pytato's
            # declared dtype, where the two are known to differ)
            if g.dtype != np.asarray(ref[name]).dtype and g.dtype != dtype:
                res["problems"].append({"clause": "returned_dtype", "exc": "",
                                        "what": f"{name}: generated code returns {g.dtype}, "
                                                f"NumPy computes {np.asarray(ref[name]).dtype} "
                                                f"(declared {dtype})"})
            msg = runprog.compare(g, ref[name], dtype, scale, single)
            res["compared"] += 1
            if msg:
                res["problems"].append({"clause": "value", "exc": kind,
                                        "what": f"{name} ({kind} inputs): {msg}"})
    return res


def _run_many(progs: list[dict]) -> list[dict]:
    out = []
    for p in progs:
        try:
            out.append(run_one(p))
        except Exception as ex:      # noqa: BLE001
            out.append({"id": p["id"], "status": "harness_error:" + repr(ex)[:300]
                        + traceback.format_exc()[-300:],
                        "problems": [], "compared": 0, "records": [], "ops": []})
    return out


def programs(tier: str) -> list[dict]:
    rng = np.random.default_rng(seed())
    P = progspace
    progs: list[dict] = []
    # slices: the C02 scope (a third of it in the quick tier)
    lens = (0, 1, 2, 3, 5) if tier == "quick" else (0, 1, 2, 3, 4, 5)
    b1 = list(P.fam_basic_1d(lens))
    if tier == "quick":
        b1 = [b1[i] for i in sorted(rng.permutation(len(b1))[:len(b1) // 3])]
    progs += b1
    progs += list(P.fam_basic_nd([(2, 3), (3, 0), (1, 4)]))
    progs += list(P.fam_roll([(3,), (2, 3), (3, 0)]))
    progs += list(P.fam_transpose([(2, 3), (2, 1, 3), (0, 2)]))
    progs += list(P.fam_stack_concat([(3,), (2, 3), (0, 2)]))
    progs += [p for k, p in enumerate(P.fam_reshape(3, (1, 2, 3))) if k % 3 == 0]
    progs += list(P.fam_advanced(rng, [(3,), (4, 3), (2, 3, 4)], 25))
    progs += list(P.fam_einsum())
    progs += list(P.fam_pairs())
    progs += list(P.fam_pad())
    progs += list(P.fam_advanced_patterns())
    for p in progs:
        p["outs"] = {"out0": p["outs"]["out"]}
    for p in P.fam_concat_empty():
        p["outs"] = {("out0" if k == "out" else k): v for k, v in p["outs"].items()}
        progs.append(p)
    for p in [*P.fam_boolarith(), *P.fam_logical_nonbool(), *P.fam_creation_then_math()]:
        p["outs"] = {("out0" if k == "out" else k): v for k, v in p["outs"].items()}
        progs.append(p)
    # how scalar constants are rendered (never thinned out)
    for p in P.fam_scalars():
        p["outs"] = {("out0" if k == "out" else k): v for k, v in p["outs"].items()}
        progs.append(p)
    n = 1200 if tier == "quick" else 20000
    for k in range(n):
        progs.append(progspace.random_program(rng, f"r{k}", int(rng.integers(1, 9))))
    # the JAX target proper (generate_jax, plain and jit) on a stand-in jax package
    for k, p in enumerate(list(progs)):
        if k % 6 == 0:
            mode = "jit" if k % 12 == 0 else "plain"
            progs.append({**p, "id": p["id"] + "|jax-" + mode, "jax": mode})
    return progs


def main(tier: str, only: list[dict] | None = None) -> int:
    run = Run(PROP, tier, "exploration")
    progs = only if only is not None else programs(tier)
    results = robust_map(_run_many, progs, crashed=lambda p, why: {
        "id": p["id"], "status": "ok", "compared": 0, "records": [],
        "ops": sorted({c["op"] for c in p["calls"]}),
        "problems": [{"clause": "execution_crashed", "exc": "", "what": why}]})
    by_id = {p["id"]: p for p in progs}
    status: dict[str, int] = {}
    unsupported_ops: dict[str, int] = {}
    records = []
    compared = 0
    for r in results:
        st = r["status"].split(":")[0]
        status[r["status"] if st == "not_supported" else st] = \
            status.get(r["status"] if st == "not_supported" else st, 0) + 1
        if st == "harness_error":
            raise MachineryError(f"{r['id']}: {r['status']}")
        compared += r["compared"]
        records += r["records"]
        for o in r.get("unsupported_ops", []):
            unsupported_ops[o] = unsupported_ops.get(o, 0) + 1
        for pr in r["problems"]:
            ops = r["ops"]
            run.violation(f"{r['id']}|{pr['clause']}|{pr['what'][:60]}",
                          f"{r['id']}: {pr['clause']}: {pr['what']}"
                          + (f" [{pr['where']}]" if pr.get("where") else ""),
                          record=by_id[r["id"]],
                          sig={"clause": pr["clause"], "exc": pr.get("exc", ""),
                               "ops": "+".join(ops) if len(ops) <= 2 else "many",
                               "what": pr["what"][:70],
                               "has_reshape_F": any(c["op"] == "reshape" and c.get("order") == "F"
                                                    for c in by_id[r["id"]]["calls"]),
                               "sub_with_np_scalar": any(
                                   c["op"] == "sub" and any(isinstance(c.get(k), dict)
                                                            and "np" in c[k] for k in "ab")
                                   for c in by_id[r["id"]]["calls"]),
                               "np_scalar_left": any(
                                   isinstance(c.get("a"), dict) and "np" in c["a"]
                                   for c in by_id[r["id"]]["calls"]),
                               "has_prod": any(c["op"] == "prod"
                                               for c in by_id[r["id"]]["calls"])})
    val = tlc.validate_records("PtCheck", "PtCheck.cfg", records, timeout=1500)
    for rec in records:
        v = val.verdicts[rec["id"]]
        if v != "ok":
            pid = rec["id"].rsplit("#", 1)[0]
            run.violation(rec["id"], f"{pid}: the slice text emitted by the Python target "
                                     f"{rec['b']} does not select the same elements as "
                                     f"{rec['a']} on shape {rec['shape']} (clause {v})",
                          record=by_id[pid], sig={"clause": "slice:" + v})
    run.coverage.update({
        "evaluations": compared, "distinct_nontrivial": sum(
            1 for r in results if r["compared"] and len(by_id[r["id"]]["calls"]) >= 2),
        "rule": "evaluations = output comparisons (program x valuation x output); "
                "non-trivial = distinct programs with >= 2 calls whose generated Python code "
                "was executed and compared",
        "programs": len(progs), "status": status,
        "ops_in_programs_refused_as_not_supported": unsupported_ops,
        "slice_records_judged_by_tlc": len(records),
        "states": val.states, "transitions": val.transitions,
        "traces_validated_against_impl": len(records),
        "exhaustive": False,
    })
    for p in progs[-2:]:
        run.sample({k: p[k] for k in ("id", "inputs", "calls", "outs")})
    run.assumptions += ["real NumPy stands in for the NumPy-like module (no jax here)",
                        "floating-point values sampled on 2-3 valuations with a scale-aware "
                        "tolerance, as C01"]
    return run.finish()


def replay(rep: dict) -> int:
    return main("quick", only=[rep["record"]])


def selftest(tier: str) -> int:
    good = {"id": "g", "rel": "sliceeq", "shape": [5],
            "a": [{"t": "slice", "start": [], "stop": [], "step": [-1]}],
            "b": [{"t": "slice", "start": [], "stop": [], "step": [-1]}]}
    bad = {"id": "b", "rel": "sliceeq", "shape": [5],
           "a": [{"t": "slice", "start": [], "stop": [], "step": [-1]}],
           "b": [{"t": "slice", "start": [4], "stop": [-1], "step": [-1]}]}
    val = tlc.validate_records("PtCheck", "PtCheck.cfg", [good, bad], shards=1)
    ok = val.verdicts["g"] == "ok" and val.verdicts["b"] == "slice_differs"
    print("selftest", "passed" if ok else "FAILED", val.verdicts)
    return 0 if ok else 2
