"""C05 -- graph transformations preserve every output and never mutate
their input.

G: random multi-operation programs (DAGs with sharing, structural
   duplicates, zeros_like / ones_like references, multi-output dictionaries,
   pre-tagged nodes and axes, named and unnamed data wrappers).
E: each transformation (copy mapper, map_and_copy(identity), deduplicate,
   deduplicate_data_wrappers, eliminate_dead_code, materialize_with_mpms,
   unify_axes_tags, preprocessing/lowering for code generation), singly and in
   random pipelines of length <= 4, is applied by the real code; the graphs
   before and after are exported and TLC decides
     * rel "eq": same output names, shapes, dtypes (and axes/tags where the
       transformation must keep them) and equal values under PtSem for every
       valuation (exact in GF(10007); injective valuations);
     * rel "struct": the structural post-conditions -- no structurally equal
       duplicates after deduplicate, no zero() call after dead-code
       elimination, nothing but tags differs after the tag-adding
       transformations, every node lowered after preprocessing, idempotence
       f(f(g)) == f(g) structurally (hash-consing classes computed by TLC).
   The harness additionally compares a structural snapshot (reflective export
   + pickle bytes) of the INPUT graph and the bytes of all wrapped data before
   and after each transformation.
"""
from __future__ import annotations

import json
import multiprocessing as mp
import pickle
from typing import Any

import numpy as np

from ptverif import export, progspace, tlc
from ptverif import replay as rp
from ptverif.common import NCPU, MachineryError, Run, seed

PROP = "C05"

STEPS = ["copy", "map_and_copy", "dedup", "dedup_dw", "dce", "mpms", "unify", "preprocess"]
KEEPS_META = {"copy", "map_and_copy", "dedup", "dedup_dw", "dce"}
TAG_ONLY = {"mpms", "unify"}
CALL_STEPS = ["copy", "map_and_copy", "dedup", "dedup_dw", "dce"]   # (mpms / unify / preprocess
#                        raise NotImplementedError on functions: documented refusals)
IDEMPOTENT = {"dedup", "dce", "mpms", "copy", "map_and_copy", "dedup_dw", "unify"}


def apply_step(step: str, g: Any) -> tuple[Any, dict]:
    """-> (new graph, rename map for generated placeholder names)"""
    import pytato as pt
    import pytato.transform as T
    if step == "copy":
        return T.CopyMapper()(g), {}
    if step == "map_and_copy":
        return T.map_and_copy(g, lambda x: x), {}
    if step == "dedup":
        return T.deduplicate(g), {}
    if step == "dedup_dw":
        return T.deduplicate_data_wrappers(g), {}
    if step == "dce":
        from pytato.transform.dead_code_elimination import eliminate_dead_code
        return eliminate_dead_code(g), {}
    if step == "mpms":
        return T.materialize_with_mpms(g), {}
    if step == "unify":
        from pytato.transform.metadata import unify_axes_tags
        return unify_axes_tags(g), {}
    if step == "preprocess":
        from pytato.codegen import preprocess
        from ptverif import cexec
        # (the harness' C target: a callee kernel must have the target of the program)
        gd = T.deduplicate(g)
        res = preprocess(gd, cexec.make_target())
        # the schedule of the outputs: every requested name exactly once.  (Its ORDER is an
        # optimisation only -- "semantically order does not matter" --: with one array under
        # two names the toposort knows one of the names, and a dependent output may
        # legitimately precede the other alias; demanding dependency order was a false
        # alarm of this check under VERIF_SEED=1.)
        order = list(res.compute_order)
        if sorted(order) != sorted(gd.keys()):
            raise ValueError(f"compute_order {order} is not a permutation of the output "
                             f"names {sorted(gd.keys())}")
        rename = {k: export.data_name(np.asarray(v)) for k, v in res.bound_arguments.items()}
        return res.outputs, rename
    raise ValueError(step)


def near_duplicate(call: dict, rng: np.random.Generator) -> dict | None:
    import copy
    c = copy.deepcopy(call)
    op = c["op"]
    if op == "roll":
        c["shift"] += 1
    elif op == "reshape" and c.get("order"):
        c["order"] = "F" if c["order"] == "C" else "C"
    elif op == "transpose" and len(c.get("axes") or []) >= 2:
        c["axes"] = c["axes"][1:] + c["axes"][:1]
    elif op == "astype":
        c["dtype"] = "f4" if c["dtype"] != "f4" else "f8"
    elif op in ("add", "sub", "mul", "truediv", "pow", "floordiv", "mod") and \
            isinstance(c.get("b"), dict):
        c["b"] = dict(c["b"], v=str(float(c["b"]["v"]) + 1) if c["b"].get("py") == "float"
                      or c["b"].get("np", "")[:1] == "f" else str(int(c["b"]["v"]) + 1))
    elif op in ("sub", "truediv", "lt", "ge") and rp.is_ref(c.get("a")) and rp.is_ref(c.get("b")):
        c["a"], c["b"] = c["b"], c["a"]
    elif op in ("sum", "prod", "amax", "amin") and isinstance(c.get("axis"), int):
        c["axis"] = 0 if c["axis"] != 0 else None
    elif op in ("stack",) and len(c["arrays"]) >= 2:
        c["arrays"] = c["arrays"][::-1]
    elif op == "concatenate" and len(c["arrays"]) >= 2:
        c["arrays"] = c["arrays"][::-1]
    elif op == "full":
        c["fill"] = dict(c["fill"], v=str(float(c["fill"]["v"]) + 1)
                         if c["fill"]["py"] == "float" else str(int(c["fill"]["v"]) + 1))
    elif op == "index":
        for it in c["idx"]:
            if it["t"] == "slice":
                it["step"] = [-1] if it["step"] in ([], [1]) else []
                break
            if it["t"] == "int":
                it["v"] = 0 if it["v"] != 0 else -1
                break
        else:
            return None
    elif op == "eye":
        c["k"] = c.get("k", 0) + 1
    elif op == "arange":
        c["args"] = [c["args"][0] + 1]
    elif op == "where":
        c["a"], c["b"] = c["b"], c["a"]
    else:
        return None
    return None if c == call else c


def numpy_accepts(prog: dict, calls: list[dict]) -> bool:
    import warnings
    data = {}
    for i in prog["inputs"]:
        data[i["name"]] = np.array(i["data"], rp.DT[i["dtype"]]).reshape(i["shape"]) \
            if "data" in i else np.ones(i["shape"], rp.DT[i["dtype"]])
    nb = rp.NpBackend(data)
    with warnings.catch_warnings():
        warnings.simplefilter("ignore")
        nb.run({"inputs": prog["inputs"], "calls": calls, "outs": {}})
    return not nb.rejections


def enrich(prog: dict, rng: np.random.Generator) -> dict:
    """Adds structural duplicates and tags to a random program."""
    calls = list(prog["calls"])
    ninp = len(prog["inputs"])
    # duplicate one call (a structurally equal, distinct object) and use it
    if calls and rng.random() < 0.6:
        k = int(rng.integers(len(calls)))
        calls.append(dict(calls[k]))
        dup = ninp + len(calls)
        orig = ninp + k + 1
        first = dict(calls[k])
        if first["op"] not in ("arange", "eye", "full", "zeros", "ones"):
            calls.append({"op": "stack", "arrays": [orig, dup], "axis": 0})
            prog["outs"][f"out{len(prog['outs'])}"] = ninp + len(calls)
    # a near-duplicate: the same call with exactly one parameter changed; both
    # are outputs, so a transformation that confuses them changes a value
    for _ in range(2):
        if not calls or rng.random() < 0.3:
            continue
        k = int(rng.integers(len(calls)))
        twin = near_duplicate(calls[k], rng)
        if twin is not None and numpy_accepts(prog, calls + [twin]):
            calls.append(twin)
            prog["outs"][f"out{len(prog['outs'])}"] = ninp + len(calls)
            prog["outs"][f"out{len(prog['outs'])}"] = ninp + k + 1
    if calls and rng.random() < 0.5:
        k = int(rng.integers(len(calls)))
        ref = ninp + k + 1
        calls.append({"op": "tag", "a": ref, "tag": str(rng.choice(["Foo", "Bar", "Baz:1"]))})
        prog["outs"][f"out{len(prog['outs'])}"] = ninp + len(calls)
    # pre-chosen implementation strategies on intermediate values that are read
    # again afterwards (what the materialisation strategy has to respect)
    if calls and rng.random() < 0.35:
        k = int(rng.integers(len(calls)))
        ref = ninp + k + 1
        calls.append({"op": "tag", "a": ref,
                      "tag": str(rng.choice(["ImplStored", "ImplInlined", "ImplInlined"]))})
        t = ninp + len(calls)
        if numpy_accepts(prog, calls + [{"op": "add", "a": t, "b": t}]):
            calls.append({"op": "add", "a": t, "b": t})
            prog["outs"][f"out{len(prog['outs'])}"] = ninp + len(calls)
            calls.append({"op": "neg", "a": t})
            if numpy_accepts(prog, calls):
                prog["outs"][f"out{len(prog['outs'])}"] = ninp + len(calls)
            else:
                calls.pop()
    prog["calls"] = calls
    # two data wrappers over one buffer (what deduplicate_data_wrappers is for)
    dws = [i for i in prog["inputs"] if i.get("kind") == "dw"]
    for i in dws[1:]:
        first = dws[0]
        # (index data must stay as generated: aliasing it could leave the valid range)
        if (i["shape"], i["dtype"]) == (first["shape"], first["dtype"]) \
                and i.get("data") == first.get("data") and rng.random() < 0.7:
            i["alias_of"] = first["name"]
            if len(i["shape"]) == 2 and i["shape"][0] == i["shape"][1] and rng.random() < 0.5:
                i["alias_T"] = True
    return prog


def directed_views() -> list[dict]:
    """m and m.T wrapped separately (one buffer, same start/shape/dtype,
    different strides), used asymmetrically."""
    out = []
    for k, (n, body) in enumerate([
            (3, [{"op": "sub", "a": 1, "b": 2}]),
            (2, [{"op": "matmul", "a": 1, "b": 2}]),
            (3, [{"op": "mul", "a": 1, "b": {"py": "int", "v": "2"}},
                 {"op": "add", "a": 3, "b": 2}]),
            (2, [{"op": "stack", "arrays": [1, 2], "axis": 0}])]):
        out.append({"id": f"views{k}",
                    "inputs": [{"name": "dwA", "shape": [n, n], "dtype": "f8", "kind": "dw"},
                               {"name": "dwB", "shape": [n, n], "dtype": "f8", "kind": "dw",
                                "alias_of": "dwA", "alias_T": True}],
                    "calls": body, "outs": {"out0": 2 + len(body)},
                    "pipeline": ["dedup_dw"]})
        out.append(dict(out[-1], id=f"views{k}p", pipeline=["dedup_dw", "copy", "dedup"]))
    return out


def directed_mpms() -> list[dict]:
    """Chains of NESTED materialisation candidates: t_k = t_(k-1) (op) in_k,
    every t_k read by two later nodes, so that each has more than one
    materialised predecessor (the stored t_(k-1) and an input) and more than
    one successor -- the case in which the decision for t_k depends on the
    decision taken for t_(k-1) in the same pass."""
    out = []
    for depth in (2, 3, 4):
        for ops in (("add", "mul"), ("mul", "sub"), ("sub", "add")):
            inputs = [progspace.inp(f"x{j}", (3,)) for j in range(depth + 1)]
            calls: list[dict] = []
            ts = []
            prev = 1
            for k in range(depth):
                calls.append({"op": ops[k % 2], "a": prev, "b": k + 2})
                prev = len(inputs) + len(calls)
                ts.append(prev)
            outs = {}
            # every t_k gets a second reader besides t_(k+1): a node t_k (op) t_j
            for k, t in enumerate(ts):
                other = ts[(k + 1) % len(ts)] if len(ts) > 1 else 1
                calls.append({"op": "add", "a": t, "b": other})
                outs[f"out{k}"] = len(inputs) + len(calls)
            calls.append({"op": "mul", "a": ts[-1], "b": ts[0]})
            outs[f"out{len(ts)}"] = len(inputs) + len(calls)
            for pipe in (["mpms"], ["mpms", "mpms"], ["dedup", "mpms", "copy"]):
                out.append({"id": f"mpmschain_{depth}_{'-'.join(ops)}_{'-'.join(pipe)}",
                            "inputs": inputs, "calls": calls, "outs": outs,
                            "pipeline": pipe})
    return out


def directed_dce() -> list[dict]:
    """zeros_like / ones_like references (what dead-code elimination rewrites):
    of an input and of an expression, with and without a dtype= override that
    differs from the argument's dtype, the result used in arithmetic whose
    result dtype depends on it."""
    out = []
    k = 0
    for like in ("zeros_like", "ones_like"):
        for dtype, other in ((None, "f8"), ("i4", "i4"), ("f4", "f4"), ("b1", "i8"),
                             ("i8", "f4")):
            for of_expr in (False, True):
                inputs = [progspace.inp("x", (3,)), progspace.inp("y", (3,), other)]
                calls: list[dict] = []
                src = 1
                if of_expr:
                    calls.append({"op": "mul", "a": 1, "b": {"py": "float", "v": "2.0"}})
                    src = 3
                c = {"op": like, "a": src}
                if dtype:
                    c["dtype"] = dtype
                calls.append(c)
                z = 2 + len(calls)
                calls.append({"op": "add", "a": z, "b": 2})
                calls.append({"op": "mul", "a": z, "b": z})
                n = 2 + len(calls)
                for pipe in (["dce"], ["dce", "dce"], ["copy", "dce", "dedup"]):
                    out.append({"id": f"dce{k}_{like}_{dtype}_{int(of_expr)}_{'-'.join(pipe)}",
                                "inputs": inputs, "calls": calls,
                                "outs": {"out0": n - 1, "out1": n, "out2": z},
                                "pipeline": pipe})
                k += 1
    return out


def directed_ieee() -> list[dict]:
    """Programs whose value at NON-FINITE inputs differs from what exact algebra says:
    products with a literal zero factor (0*inf is NaN), x - x, x / x, 0 / x, maximum with a
    constant, a where() whose dead branch is non-finite.  The transformed graph is EXECUTED
    (generated C code) on inputs with inf / NaN / signed zeros next to the original: the
    specification's field GF(10007) has no such values (flag "ieee")."""
    x = {"name": "x", "shape": [6], "dtype": "f8", "kind": "ph",
         "data": [1.0, "inf", "-inf", "nan", -0.0, 2.0]}
    y = {"name": "y", "shape": [6], "dtype": "f8", "kind": "ph",
         "data": ["inf", 2.0, "nan", 1.0, 0.0, "-inf"]}
    zero_i, zero_f = {"py": "int", "v": "0"}, {"py": "float", "v": "0.0"}
    bodies = {
        "0*b": [{"op": "mul", "a": zero_i, "b": 2}, {"op": "add", "a": 1, "b": 3}],
        "b*0.0": [{"op": "mul", "a": 2, "b": zero_f}, {"op": "add", "a": 1, "b": 3}],
        "x-x": [{"op": "sub", "a": 1, "b": 1}, {"op": "add", "a": 2, "b": 3}],
        "x/x": [{"op": "truediv", "a": 1, "b": 1}, {"op": "mul", "a": 2, "b": 3}],
        "0/x": [{"op": "truediv", "a": zero_f, "b": 1}, {"op": "add", "a": 2, "b": 3}],
        "zeros_like*": [{"op": "zeros_like", "a": 1}, {"op": "mul", "a": 3, "b": 2},
                        {"op": "add", "a": 4, "b": 1}],
        "where-dead": [{"op": "gt", "a": 1, "b": zero_f},
                       {"op": "where", "c": 3, "a": 1, "b": 2}],
        "max0": [{"op": "maximum", "a": 1, "b": zero_f}, {"op": "mul", "a": 3, "b": zero_i}],
    }
    out = []
    for name, calls in bodies.items():
        for pipe in (["dce"], ["copy"], ["dedup"], ["mpms"], ["unify"], ["preprocess"],
                     ["dce", "mpms", "dedup"]):
            out.append({"id": f"ieee_{name}_{'-'.join(pipe)}", "inputs": [x, y], "calls": calls,
                        "outs": {"out0": 2 + len(calls), "out1": 3}, "pipeline": pipe,
                        "ieee": True})
    return out


def _ieee_outputs(g: Any, data: dict[str, np.ndarray]) -> dict[str, np.ndarray]:
    from ptverif import cexec
    bp = cexec.generate(g)
    args = {k: v for k, v in data.items() if k in bp.program.default_entrypoint.arg_dict}
    return {k: np.asarray(v) for k, v in bp(**args).items()}


def fan_out(p: dict, rng: np.random.Generator) -> dict:
    """Adds readers: pairs of existing same-shaped intermediate values are
    added up and become extra outputs, so that intermediates have several
    successors (sharing is what the materialisation strategy looks at)."""
    p = json.loads(json.dumps(p))
    ninp = len(p["inputs"])
    nb = rp.NpBackend({i["name"]: np.ones(i["shape"], rp.DT[i["dtype"]]) for i in p["inputs"]})
    try:
        with np.errstate(all="ignore"):
            nb.run(p)
    except Exception:      # noqa: BLE001
        return p
    vals = nb.values
    cands = [k + 1 for k in range(ninp, len(vals)) if vals[k] is not None
             and np.asarray(vals[k]).dtype.kind == "f"]
    added = 0
    for _ in range(6):
        if len(cands) < 2 or added >= 3:
            break
        a, b = (int(x) for x in rng.choice(cands, size=2, replace=False))
        if np.asarray(vals[a - 1]).shape != np.asarray(vals[b - 1]).shape:
            continue
        p["calls"].append({"op": "add", "a": a, "b": b})
        p["outs"][f"fan{added}"] = ninp + len(p["calls"])
        added += 1
    return p


def programs(tier: str) -> list[dict]:
    rng = np.random.default_rng(seed())
    n = 600 if tier == "quick" else 6000
    progs = directed_views() + directed_mpms() + directed_dce() + directed_ieee()
    for k in range(n):
        p = progspace.random_program(rng, f"p{k}", int(rng.integers(2, 8)))
        p = enrich(p, rng)
        if k % 4 == 0:
            p = fan_out(p, rng)
        r = rng.random()
        if r < 0.65:
            p["pipeline"] = [STEPS[k % len(STEPS)]]
        else:
            p["pipeline"] = [str(s) for s in rng.choice(STEPS, size=int(rng.integers(2, 5)))]
        progs.append(p)
    # graphs with calls to loopy kernels: their results are uninterpreted functions
    # of the bound arguments at the specification level (PtSem "lpres")
    for k, p in enumerate(progspace.fam_lpcall(rng, 60 if tier == "quick" else 600)):
        p["id"] = p["id"].replace("/", "_")
        p["pipeline"] = [STEPS[k % len(STEPS)]] if k % 3 else \
            [str(s) for s in rng.choice(STEPS, size=int(rng.integers(2, 4)))]
        progs.append(p)
    # graphs with calls to traced functions (C12's generator: 1..3 call sites, one
    # definition called several times -- each site traces its own equal-but-distinct
    # FunctionDefinition --, nested calls, tuple / dict results).  The transformations
    # that document support for functions must preserve every output there, too.
    from checks import c12
    nc, tries = (120 if tier == "quick" else 1500), 0
    k = 0
    while k < nc and tries < nc * 5:
        tries += 1
        p = c12.random_call_program(rng, f"f{k}")
        if p is None:
            continue
        p["pipeline"] = [CALL_STEPS[k % len(CALL_STEPS)]] if k % 3 else \
            [str(s) for s in rng.choice(CALL_STEPS, size=int(rng.integers(2, 4)))]
        progs.append(p)
        k += 1
    return progs


def snapshot(g: Any, data: list[np.ndarray]) -> tuple:
    """Structural snapshot: the reflective export of every field of every
    node (pickle bytes are NOT compared: memoised properties such as a cached
    shape legitimately appear in an object's state after a traversal)."""
    gj, _ = export.export_graph(g)
    import json
    return (json.dumps(gj, sort_keys=True, default=str), [d.tobytes() for d in data])


def rename_inputs(g: dict, rename: dict) -> dict:
    if rename:
        for nd in g["nodes"]:
            if nd["kind"] == "in" and nd["name"] in rename:
                nd["name"] = rename[nd["name"]]
    return g


def build(prog: dict) -> dict:
    import pytato as pt
    pid = prog["id"]
    rng = np.random.default_rng([seed(), abs(hash(pid)) % (2 ** 31)])
    res: dict[str, Any] = {"id": pid, "records": [], "problems": [], "status": "ok",
                           "steps": []}
    data = {}
    for i in prog["inputs"]:
        if i.get("kind") == "dw":
            arr = np.array(i["data"], rp.DT[i["dtype"]]).reshape(i["shape"]) if "data" in i \
                else rng.standard_normal(i["shape"]).astype(rp.DT[i["dtype"]])
            if i.get("alias_of") in data:
                arr = data[i["alias_of"]][...]       # a view: same buffer, new object
                if i.get("alias_T"):
                    arr = arr.T      # same start, shape, dtype -- different strides
            data[i["name"]] = arr
    if prog.get("funcs"):
        from checks import c12
        pb = c12.PtCalls(data)
        pb.mode = "trace"
    else:
        pb = rp.PtBackend(data)
    pb.run(prog)
    if pb.rejections:
        res["status"] = "pytato_rejects:" + str(next(iter(pb.rejections.values())))[:100]
        return res
    outs = pb.outs()
    if not all(isinstance(v, pt.Array) for v in outs.values()):
        res["status"] = "non_array_output"
        return res
    g_raw = pt.make_dict_of_named_arrays(outs)
    try:
        ga0, inputs0 = export.export_graph(g_raw)
    except export.Unsupported as ex:
        res["status"] = f"unsupported:{ex}"
        return res
    wrapped = [v for v in data.values()]
    cur = g_raw
    cur_rename: dict = {}
    # Cached mappers report structural duplicates as a cache collision (by
    # design: graphs are to be deduplicated first), so every pipeline starts
    # with deduplicate applied to the raw graph, which may contain duplicates.
    pipeline = ["dedup"] + [s for s in prog["pipeline"]]
    for si, step in enumerate(pipeline):
        if cur_rename:
            break      # after preprocessing the data wrappers are gone; stop the pipeline
        before = snapshot(cur, wrapped)
        try:
            new, rename = apply_step(step, cur)
        except Exception as ex:      # noqa: BLE001
            if type(ex).__name__ == "NameClashError":
                # the program tagged an input and also uses the untagged one: two
                # distinct inputs of one name -- the documented diagnostic, not a program
                res["status"] = "name_clash"
                break
            res["problems"].append({"step": step, "clause": "raised",
                                    "what": f"{type(ex).__name__}: {ex}"[:300]})
            break
        after = snapshot(cur, wrapped)
        if before[0] != after[0]:
            res["problems"].append({"step": step, "clause": "input_mutated",
                                    "what": "structural snapshot of the input changed"})
        if before[1] != after[1]:
            res["problems"].append({"step": step, "clause": "data_written",
                                    "what": "bytes of wrapped data changed"})
        try:
            gb, ib = export.export_graph(new)
        except export.Unsupported as ex:
            res["status"] = f"unsupported:{ex}"
            return res
        gb = rename_inputs(gb, rename)
        inputs = dict(inputs0)
        for k, v in ib.items():
            inputs.setdefault(rename.get(k, k), v)
        try:
            vals = export.make_valuations(inputs, 2, rng)
        except export.Unsupported as ex:
            res["status"] = f"unsupported:{ex}"
            return res
        rid = f"{pid}/{si}:{step}"
        res["records"].append({"id": rid + "#eq", "rel": "eq", "a": ga0, "b": gb,
                               "vals": vals, "dtype": True,
                               "meta": all(s in KEEPS_META for s in pipeline[:si + 1])})
        # structural post-conditions on the result alone
        checks = {"dedup": ["nodup"], "dce": ["nozero"], "preprocess": ["lowered"],
                  "dedup_dw": ["nodup_data"]}.get(step, [])
        if checks:
            res["records"].append({"id": rid + "#post", "rel": "struct", "g": gb,
                                   "checks": checks, "pairs": []})
        if step == "mpms" and not rename:
            try:
                g_before, _ = export.export_graph(cur)
                # "stored twins": two nodes that differ in their tags only (x and
                # x.tagged(ImplStored) both in the graph).  Storing the untagged one
                # makes them EQUAL and the result legitimately has one node fewer, so
                # the position-wise rule cannot be stated; the value, tag-only and
                # idempotence clauses still are.
                seen_nt = set()
                twins = False
                for nd in g_before["nodes"]:
                    k = (nd["loc_nt"], tuple(nd["kidlist"]))
                    twins = twins or k in seen_nt
                    seen_nt.add(k)
                if any(nd["kind"] == "lpres" for nd in g_before["nodes"]):
                    twins = True     # (what counts as materialised around loopy calls
                    #                   is not part of the stated rule)
                if twins:
                    res["mpms_rule_skipped_twins"] = res.get("mpms_rule_skipped_twins", 0) + 1
                else:
                    res["records"].append({"id": rid + "#mpmsrule", "rel": "mpms",
                                           "a": g_before, "b": gb,
                                           "outs": [o["node"] for o in g_before["outs"]]})
            except export.Unsupported:
                pass
        # relations between input and output of this step / idempotence
        if step in TAG_ONLY or step in ("copy", "map_and_copy") or step in IDEMPOTENT:
            ge = export.GraphExporter()
            try:
                a_pos = {k: ge.rec(v) for k, v in export.roots_of(cur).items()}
                b_pos = {k: ge.rec(v) for k, v in export.roots_of(new).items()}
                pairs_ab = [[a_pos[k], b_pos[k]] for k in a_pos if k in b_pos]
                recs = []
                if step in TAG_ONLY:
                    recs.append(("tagonly", ["same_nt"], pairs_ab))
                if step in ("copy", "map_and_copy"):
                    recs.append(("identity", ["same"], pairs_ab))
                if step in IDEMPOTENT:
                    twice, _ = apply_step(step, new)
                    c_pos = {k: ge.rec(v) for k, v in export.roots_of(twice).items()}
                    recs.append(("idempotent", ["same"],
                                 [[b_pos[k], c_pos[k]] for k in b_pos if k in c_pos]))
                gcomb = {"nodes": ge.nodes, "funcs": ge.funcs, "outs": []}
                for name, checks2, pairs in recs:
                    res["records"].append({"id": f"{rid}#{name}", "rel": "struct",
                                           "g": gcomb, "checks": checks2, "pairs": pairs})
            except export.Unsupported:
                pass
            except Exception as ex:      # noqa: BLE001
                res["problems"].append({"step": step, "clause": "raised_twice",
                                        "what": f"{type(ex).__name__}: {ex}"[:300]})
        if prog.get("ieee") and step != "preprocess":
            try:
                idata = {i["name"]: np.array([float(v) for v in i["data"]]).reshape(i["shape"])
                         for i in prog["inputs"]}
                ref = _ieee_outputs(g_raw, idata)
                got = _ieee_outputs(new, idata)
                from ptverif import runprog
                for k, v in ref.items():
                    msg = "missing" if k not in got else runprog.compare(
                        got[k], v, v.dtype, 1.0)
                    if msg:
                        res["problems"].append({
                            "step": step, "clause": "ieee_value",
                            "what": f"output {k} of the transformed graph, executed on "
                                    f"non-finite inputs, differs from the original: {msg}"})
                res["ieee_executed"] = res.get("ieee_executed", 0) + 1
            except Exception as ex:      # noqa: BLE001
                res["problems"].append({"step": step, "clause": "ieee_execution_raised",
                                        "what": f"{type(ex).__name__}: {ex}"[:300]})
        res["steps"].append(step)
        cur, cur_rename = new, rename
    res["nnodes"] = len(ga0["nodes"])
    return res


def _build_many(progs: list[dict]) -> list[dict]:
    return [build(p) for p in progs]


def main(tier: str, only: list[dict] | None = None) -> int:
    run = Run(PROP, tier, "model_checking")
    progs = only if only is not None else programs(tier)
    n = NCPU * 4
    with mp.Pool(NCPU) as pool:
        built = [b for chunk in pool.map(_build_many,
                                         [progs[i::n] for i in range(n) if progs[i::n]])
                 for b in chunk]
    by_id = {p["id"]: p for p in progs}
    records: list[dict] = []
    status: dict[str, int] = {}
    steps: dict[str, int] = {}
    for b in built:
        st = b["status"].split(":")[0]
        status[st] = status.get(st, 0) + 1
        if st == "unsupported":
            run.coverage.setdefault("unsupported_reasons", {}).setdefault(
                b["status"][12:60], 0)
            run.coverage["unsupported_reasons"][b["status"][12:60]] += 1
        for s in b["steps"]:
            steps[s] = steps.get(s, 0) + 1
        for pr in b["problems"]:
            run.violation(f"{b['id']}/{pr['step']}/{pr['clause']}",
                          f"{pr['step']} on {b['id']}: {pr['clause']}: {pr['what']}",
                          record=by_id[b["id"]],
                          sig={"step": pr["step"], "clause": pr["clause"],
                               "exc": pr["what"].split(":")[0]})
        records += b["records"]
    val = tlc.validate_records("PtCheck", "PtCheck.cfg", records, timeout=3000,
                               shards=NCPU)
    for rec in records:
        v = val.verdicts[rec["id"]]
        if v == "ok":
            continue
        pid = rec["id"].split("/")[0]
        step = rec["id"].split(":")[1].split("#")[0]
        which = rec["id"].rsplit("#", 1)[1]
        if v in ("shaperule_a", "poison_a"):
            raise MachineryError(f"the specification cannot evaluate the ORIGINAL graph of "
                                 f"{pid} (clause {v}); exporter / PtSem defect")
        run.violation(rec["id"],
                      f"{step} (pipeline {by_id[pid]['pipeline']}) on {pid}: clause '{v}' "
                      f"in check '{which}'", record=by_id[pid], observed=v,
                      sig={"step": step, "clause": v, "check": which})
    nontrivial = sum(1 for b in built if b["records"] and b.get("nnodes", 0) >= 4)
    run.coverage.update({
        "states": val.states, "transitions": val.transitions,
        "traces_validated_against_impl": len(records),
        "evaluations": len(progs), "distinct_nontrivial": nontrivial,
        "rule": "seeded random programs (2..7 calls, enriched with duplicates and tags) x "
                "one transformation or a random pipeline of 2..4; non-trivial = the exported "
                "graph has at least 4 nodes and at least one record reached TLC",
        "status": status, "steps_applied": steps, "exhaustive": False,
        "tlc_wall_s": round(val.wall, 1),
    })
    for b in built[:2]:
        run.sample({"program": by_id[b["id"]], "status": b["status"],
                    "records": [r["id"] for r in b["records"]]})
    run.assumptions += ["values: exact in GF(10007) with uninterpreted functions, 2 injective "
                        "valuations per record (Schwartz-Zippel for arithmetic identities)",
                        "symbolic shapes and loopy calls are outside PtSem (counted as "
                        "unsupported)"]
    return run.finish()


def replay(rep: dict) -> int:
    return main("quick", only=[rep["record"]])


def selftest(tier: str) -> int:
    """Corrupt one exported transformed graph (drop a roll's shift) and
    require the eq relation to reject it."""
    import copy
    prog = {"id": "st", "inputs": [progspace.inp("x", (2, 3))],
            "calls": [{"op": "roll", "a": 1, "shift": 1, "axis": 1},
                      {"op": "add", "a": 2, "b": 2}],
            "outs": {"out0": 3}, "pipeline": ["copy"]}
    b = build(prog)
    rec = next(r for r in b["records"] if r["rel"] == "eq")
    bad = copy.deepcopy(rec)
    bad["id"] = "corrupted"
    for nd in bad["b"]["nodes"]:
        if nd["kind"] == "roll":
            nd["shift"] = 2
    val = tlc.validate_records("PtCheck", "PtCheck.cfg", [rec, bad], shards=1)
    ok = val.verdicts[rec["id"]] == "ok" and val.verdicts["corrupted"] == "value"
    print("selftest", "passed" if ok else "FAILED", val.verdicts)
    return 0 if ok else 2
