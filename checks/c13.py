"""C13 -- cached mappers: once per node, sharing preserved, every child
reached, collisions reported.

M  spec/PtMapper.tla is model-checked over every DAG shape (canonical
   numbering) with <= 4 (quick) / 5 (thorough) nodes, with and without
   structural duplicates, for every mapper variant (transform / combine /
   walk; key = expr / id(expr) / (expr, extra); cached or not;
   err_on_collision, err_on_created_duplicate) and every per-node behaviour of
   the map method, under the invariants OncePerKey, AllChildrenReached,
   SharedMapsToOne, IdentityWhenUnchanged, ResultsDeduplicated,
   NoMoreNodesThanGiven, CollisionReported, DuplicateReported.
G  the same module emits every shape together with the model's final states
   (all visiting orders); each shape is instantiated as REAL pytato DAGs so that
   every edge kind occurs at every position, every discovered mapper class is
   run on it under observation (sys.setprofile + cache wrappers), and the
   observed final state must be one of the model's.
E  the recorded event trace of every run (and of ladders of depth 60, of
   API-built graphs pushed through the mapper-based public functions) is
   replayed by TLC through the actions of PtMapper (spec/PtMapperTrace.tla)
   against the graph obtained from an independent reflective walk.
"""
from __future__ import annotations

import json
import multiprocessing as mp
import os
import time
from concurrent.futures import ThreadPoolExecutor
from typing import Any

import numpy as np

from ptverif import tlc
from ptverif.common import NCPU, MachineryError, Run, scratch, seed

PROP = "C13"

INVARIANTS = ("TypeOK OncePerKey UncachedCost AllChildrenReached SharedMapsToOne "
              "IdentityWhenUnchanged ResultsDeduplicated NoMoreNodesThanGiven "
              "CollisionReported DuplicateReported CombineComplete EmitFinal")

ALLV = dict(Families='{"transform", "combine", "walk"}', Keys='{"expr", "id"}',
            Cacheds="{TRUE, FALSE}", ErrCols="{TRUE, FALSE}", ErrDups="{TRUE, FALSE}")


def write_cfg(name: str, **c: Any) -> str:
    d = dict(MaxN=4, MaxAr=2, Extras="{FALSE}", Dups="TRUE", ChgSet="{0, 1, 2}",
             AnyOrder="FALSE", Emit="FALSE", **ALLV)
    d.update(c)
    p = os.path.join(scratch(), f"PtMapper_{name}.cfg")
    with open(p, "w") as f:
        f.write("CONSTANTS\n" + "".join(f"  {k} = {v}\n" for k, v in d.items())
                + f"INIT Init\nNEXT Next\nINVARIANTS {INVARIANTS}\nCHECK_DEADLOCK TRUE\n")
    return p


def mc_configs(tier: str) -> list[tuple[str, dict]]:
    cfgs = [
        ("n4_ar2_seq", dict()),
        ("n4_ar2_anyorder", dict(AnyOrder="TRUE", ChgSet="{0, 1}")),
        ("n3_ar2_extra", dict(MaxN=3, Extras="{TRUE}", ChgSet="{0, 1}")),
        ("n3_ar3_seq", dict(MaxN=3, MaxAr=3)),
    ]
    if tier == "thorough":
        cfgs += [
            ("n5_ar2_seq_transform", dict(MaxN=5, Families='{"transform"}', ChgSet="{0, 1}")),
            ("n5_ar2_seq_other", dict(MaxN=5, Families='{"combine", "walk"}')),
            ("n4_ar3_seq", dict(MaxN=4, MaxAr=3, ChgSet="{0, 1}")),
            ("n5_ar2_anyorder", dict(MaxN=5, AnyOrder="TRUE", ChgSet="{0}",
                                     Families='{"transform"}', ErrDups="{TRUE}")),
            ("n4_ar2_extra", dict(MaxN=4, Extras="{TRUE}", ChgSet="{0, 1}",
                                  ErrDups="{TRUE}")),
        ]
    return cfgs


def run_mc(tier: str) -> list[dict]:
    cfgs = mc_configs(tier)
    per = max(2, NCPU // max(1, min(len(cfgs), 4)))

    def one(nc: tuple[str, dict]) -> dict:
        name, c = nc
        res = tlc.run_tlc("PtMapper", write_cfg(name, **c), workers=per,
                          timeout=1700 if tier == "thorough" else 400,
                          heap="6g" if tier == "thorough" else "3g", coverage=True)
        if not res.ok:
            raise MachineryError(
                f"PtMapper model checking failed in configuration {name}: "
                f"{res.violated or res.error or 'deadlock' if res.deadlock else res.out[-800:]}")
        return {"config": name, "constants": c, "states": res.distinct,
                "transitions": res.generated, "depth": res.depth,
                "wall_s": round(res.wall, 1),
                "coverage": {k: v for k, v in res.coverage.items()
                             if k in ("Enter", "Hit", "Collide", "ReturnT", "ReturnO",
                                      "Store", "Init", "InitFor")}}
    with ThreadPoolExecutor(max_workers=4) as ex:
        return list(ex.map(one, cfgs))


# --------------------------------------------------------------------------
# G: shapes and the model's final states

def _summary(fin: dict) -> tuple:
    """order-independent-enough summary of a final state: compared as a set
    over all visiting orders"""
    if fin["err"] != "none":
        return (fin["err"],)
    res = fin["result"]
    first: dict[int, int] = {}
    part = tuple(first.setdefault(r, len(first)) if r else -1 for r in res)
    ident = tuple(bool(r == i + 1) for i, r in enumerate(res))
    return ("none", tuple(fin["calls"]), part,
            ident if fin["family"] == "transform" else (), fin["nobjs"])


def vkey(v: dict) -> tuple:
    return (v["family"], v["key"], bool(v["cached"]), bool(v["errcol"]), bool(v["errdup"]))


def generate(maxn: int, maxar: int) -> tuple[list[tuple], dict]:
    """-> ([(ch, rep)], {(ch, rep, vkey): {summary}}) from one emitting TLC run"""
    cfg = write_cfg(f"gen{maxn}_{maxar}", MaxN=maxn, MaxAr=maxar, ChgSet="{0}",
                    AnyOrder="TRUE", Emit="TRUE")
    res = tlc.run_tlc("PtMapper", cfg, workers=1, timeout=900, heap="4g")
    if not res.ok:
        raise MachineryError(f"generator run failed: {res.violated or res.error}")
    fins = tlc.parse_printed_json(res, "MAP")
    if not fins:
        raise MachineryError("generator printed nothing")
    shapes: dict[tuple, None] = {}
    expect: dict[tuple, set] = {}
    for f in fins:
        ch = tuple(tuple(c) for c in f["ch"])
        rep = tuple(f["rep"])
        shapes.setdefault((ch, rep))
        expect.setdefault((ch, rep, vkey(f)), set()).add(_summary(f))
    return list(shapes), {"expect": expect, "states": res.distinct,
                          "transitions": res.generated, "finals": len(fins)}


# --------------------------------------------------------------------------
# real runs (worker processes)

_W: dict[str, Any] = {}


def _winit(expect: dict) -> None:
    import warnings
    warnings.simplefilter("ignore")
    from ptverif import mapperharness as H
    from ptverif.common import ensure_repo_on_path
    ensure_repo_on_path()
    _W["H"] = H
    _W["expect"] = expect
    _W["profiles"] = H.make_profiles()


def _strip(r: dict) -> dict:
    return {k: v for k, v in r.items() if not k.startswith("_")}


def _compare_with_model(r: dict, ch: tuple, rep: tuple, nodes: list, H: Any) -> list[dict]:
    """the observed final state must be one of the model's final states for
    this abstract shape and mapper variant (only for instances whose
    reflective graph IS the abstract shape)"""
    v = r.get("variant")
    g = r.get("_graph")
    if v is None or g is None or v["extra"] or r.get("outcome") == "raise":
        return []
    if v["family"] == "transform" and not v["ident"]:
        return []          # the generator's states are those of a faithful copy
    prof = _W["profiles"][r["mapper"]]
    if prof.skip_kinds != H.OPTIONAL_KINDS or prof.skip_nodes:
        return []          # documented exemptions: judged by the trace validation only
    if [tuple(c) for c in g.ch] != list(ch) or tuple(g.rep) != rep:
        return []
    r["compared"] = True
    exp = _W["expect"].get((ch, rep, vkey(v)))
    if exp is None:
        return [{"clause": "machinery:no_model_state_for_variant", "what": str(vkey(v))}]
    n = len(ch)
    if r["outcome"] != "ok":
        obs: tuple = (r["outcome"],)
    else:
        calls = tuple(r["counts"].get(i + 1, 0) for i in range(n))
        resobj = r["_resobj"]
        if v["family"] == "transform":
            by_key: dict[int, Any] = {}
            for i in range(n):
                k = rep[i] if v["key"] == "expr" else i + 1
                if i + 1 in resobj:
                    by_key.setdefault(k, resobj[i + 1])
            objs = [by_key.get(rep[i] if v["key"] == "expr" else i + 1) for i in range(n)]
            first: dict[int, int] = {}
            part = tuple(first.setdefault(id(o), len(first)) if o is not None else -1
                         for o in objs)
            ident = tuple(o is g.objs[i] for i, o in enumerate(objs))
            nobjs = len({id(o) for o in objs if o is not None and id(o) not in g.num})
        else:
            visited = {(rep[i] if v["key"] == "expr" else i + 1)
                       for i in range(n) if i + 1 in resobj or r["counts"].get(i + 1)}
            part = tuple(0 if (rep[i] if v["key"] == "expr" else i + 1) in visited else -1
                         for i in range(n))
            # the model's results of non-transform families: one class per key
            first2: dict[int, int] = {}
            part = tuple(first2.setdefault(rep[i] if v["key"] == "expr" else i + 1,
                                           len(first2)) if p == 0 else -1
                         for i, p in enumerate(part))
            ident, nobjs = (), 0
        obs = ("none", calls, part, ident, nobjs)
    if v["family"] != "transform" and obs[0] == "none":
        # results of combine / walk are opaque: compare calls only
        ok = any(e[0] == "none" and e[1] == obs[1] for e in exp)
    else:
        ok = obs in exp
    if ok:
        return []
    return [{"clause": "final_state_not_in_model", "what":
             f"observed {obs} not among the model's final states {sorted(exp)[:3]}"}]


def _t1_cases(shape: tuple, tier: str) -> list[tuple]:
    H = _W["H"]
    out = []
    for scheme in H.T1_SCHEMES:
        for root in ("array", "dict"):
            small = tier == "quick" or len(shape[0]) >= 5      # 5-node shapes: the subset
            if root == "dict" and small and scheme not in (
                    "il", "mixed0", "stack", "call", "ilshape"):
                continue
            out.append((scheme, root, "mix" if scheme.startswith("mixed") else
                        "sp" if scheme in ("ilshape", "phshape", "recvshape", "dwshape")
                        else "ph"))
    return out


def _work_t1(args: tuple) -> dict:
    shapes, tier, *rest = args
    flt = rest[0] if rest else None       # replay: one (scheme, root, mapper)
    H = _W["H"]
    profiles = _W["profiles"]
    records, findings, stats = [], [], {"runs": 0, "compared": 0, "documented_exception": 0,
                                        "templ": {}, "kinds": {}, "ekinds": {}}
    for si, (ch, rep) in shapes:
        for scheme, rootk, leaf in _t1_cases((ch, rep), tier if flt is None else "thorough"):
            if flt is not None and (scheme, rootk) != (flt["scheme"], flt["root"]):
                continue
            root, nodes, templ = H.build_t1([list(c) for c in ch], list(rep), scheme,
                                            seed=seed(), leaf=leaf, root=rootk)
            interner = H.Interner()
            g0 = H.reflect(root, interner)
            for t in templ:
                stats["templ"][t] = stats["templ"].get(t, 0) + 1
            for i in range(g0.n):
                stats["kinds"][g0.kind(i + 1)] = stats["kinds"].get(g0.kind(i + 1), 0) + 1
                for kd in g0.ek[i]:
                    stats["ekinds"][kd] = stats["ekinds"].get(kd, 0) + 1
            case = f"t1/s{si}/{scheme}/{rootk}"
            if rootk == "array":
                fs, npairs = _equality_findings(
                    H, lambda: H.build_t1([list(c) for c in ch], list(rep), scheme,
                                          seed=seed(), leaf=leaf, root=rootk)[0], case)
                findings += fs
                stats["eq_pairs"] = stats.get("eq_pairs", 0) + npairs
            for pname, prof in profiles.items():
                if prof.skip or prof.semantic:
                    continue
                if flt is not None and not pname.startswith(flt["mapper"]):
                    continue
                r = H.run_direct(pname, prof, root, interner, case)
                stats["runs"] += 1
                if r["status"] == "documented_exception":
                    stats["documented_exception"] += 1
                fs = list(r["findings"])
                if rootk == "array":
                    fs += _compare_with_model(r, ch, rep, nodes, H)
                if r.get("compared"):
                    stats["compared"] += 1
                for f in fs:
                    f.update(case=case, mapper=pname, shape=[list(map(list, ch)), list(rep)],
                             scheme=scheme, root=rootk, leaf=leaf, templ=templ)
                findings += fs
                records += r["records"]
    return {"records": records, "findings": findings, "stats": stats}


def _equality_findings(H: Any, build: Any, case: str) -> tuple[list[dict], int]:
    """EqualityComparer: two separately built copies of one graph are ==, and
    its per-pair method runs once per pair of nodes (it is memoised on
    (id, id)); hash() is cached per object."""
    a, b = build(), build()
    with H.Recorder() as rec:
        try:
            eq = bool(a == b)
            ha, hb = hash(a), hash(b)
        except Exception as ex:      # noqa: BLE001
            return [{"clause": "unexpected_exception", "exc": type(ex).__name__,
                     "mapper": "pytato.equality.EqualityComparer", "case": case,
                     "what": f"== raised {type(ex).__name__}: {ex}"[:200]}], 0
    fs = []
    pairs: dict[tuple, int] = {}
    for ev in rec.raw:
        if ev[0] == "map+" and type(ev[1]).__name__ == "EqualityComparer":
            pass
    for t in H.derive_traces(rec.raw).values():
        if type(t.mapper).__name__ != "EqualityComparer":
            continue
        for e in t.events:
            if e["ev"] == "enter":
                k = (id(t.mapper), id(e["obj"]), tuple(id(x) for x in e["extra"]))
                pairs[k] = pairs.get(k, 0) + 1
    if any(c > 1 for c in pairs.values()):
        fs.append({"clause": "OncePerKey:pair_compared_twice", "case": case,
                   "mapper": "pytato.equality.EqualityComparer",
                   "what": f"a pair of nodes was compared {max(pairs.values())} times "
                           f"by one EqualityComparer"})
    has_dw = any(type(o).__name__ == "DataWrapper" for o in H.reflect(a).objs)
    if (not eq or ha != hb) and not has_dw:      # data wrappers are equal only to themselves
        fs.append({"clause": "machinery:equal_copies_not_equal", "case": case,
                   "mapper": "pytato.equality.EqualityComparer",
                   "what": f"two identically built graphs: ==:{eq} hash equal:{ha == hb}"})
    return fs, len(pairs)


def _work_ladder(args: tuple) -> dict:
    (lname, ch, rep), scheme, depth = args
    H = _W["H"]
    profiles = _W["profiles"]
    records, findings = [], []
    stats = {"ladder_runs": 0, "ladder_nodes": 0, "eq_pairs": 0}
    root, nodes, templ = H.build_t1(ch, rep, scheme, seed=seed(), allowed=H.LADDER_SCHEMES)
    interner = H.Interner()
    g0 = H.reflect(root, interner)
    stats["ladder_nodes"] = g0.n
    case = f"ladder{depth}/{lname}/{scheme}"
    import signal

    def _alarm(*a: Any) -> None:
        raise TimeoutError("ladder case exceeded its time budget")
    # CPU time, not wall time: the verdict must not depend on the machine's load
    signal.signal(signal.SIGVTALRM, _alarm)
    for pname, prof in profiles.items():
        if prof.skip or prof.semantic:
            continue
        if pname in ("pytato.transform.WalkMapper", "pytato.stringifier.Reprifier"):
            continue      # uncached: exponential by documented design / output doubles per level
        t0 = time.process_time()
        signal.setitimer(signal.ITIMER_VIRTUAL, 30)
        try:
            r = H.run_direct(pname, prof, root, interner, case)
        except TimeoutError:
            # not a verdict (time is not what the property is about, and the
            # small shapes decide OncePerKey): recorded in the evidence
            stats.setdefault("over_budget", []).append(f"{pname} on {case}")
            continue
        finally:
            signal.setitimer(signal.ITIMER_VIRTUAL, 0)
        stats["ladder_runs"] += 1
        for f in r["findings"]:
            f.update(case=case, mapper=pname)
        findings += r["findings"]
        records += r["records"]
        if time.process_time() - t0 > 20:
            stats.setdefault("over_budget", []).append(f"{pname} on {case}")
    fs, npairs = _equality_findings(
        H, lambda: H.build_t1(ch, rep, scheme, seed=seed(), allowed=H.LADDER_SCHEMES)[0], case)
    findings += fs
    stats["eq_pairs"] = npairs
    # repr() with the default truncation must stay cheap however many paths there are
    t0 = time.process_time()
    _ = repr(root)
    if time.process_time() - t0 > 30:
        stats.setdefault("over_budget", []).append(f"repr on {case}")
    return {"records": records, "findings": findings, "stats": stats}


def _work_t2(args: tuple) -> dict:
    shapes, tier, *rest = args
    flt = rest[0] if rest else None
    H = _W["H"]
    profiles = _W["profiles"]
    classes = _W.setdefault("classes", H.discover_mappers())
    entries = _W.setdefault("entries", H.entry_points())
    records, findings = [], []
    stats: dict[str, Any] = {"entry_runs": 0, "entry_classes": {}, "entry_exceptions": {}}
    for si, (ch, rep) in shapes:
        for variant in H.T2_VARIANTS:
            for symbolic in (False, True):
                if symbolic and variant != "ew":
                    continue
                root = H.build_t2([list(c) for c in ch], list(rep), variant, seed=seed(),
                                  symbolic=symbolic)
                case = f"t2/s{si}/{variant}/{'sym' if symbolic else 'int'}"
                if flt is not None and case != flt["case"]:
                    continue
                for ename, fn in entries.items():
                    if flt is not None and flt.get("entry") and ename != flt["entry"]:
                        continue
                    if flt is None and ename in (
                            "generate_loopy", "generate_numpy_like",
                            "codegen.preprocess") and si % 12 != 0:
                        continue
                    r = H.run_entry(ename, fn, root, H.Interner(), case, profiles, classes)
                    stats["entry_runs"] += 1
                    for k, c in r["classes"].items():
                        stats["entry_classes"][k] = stats["entry_classes"].get(k, 0) + c
                    if r["exc"]:
                        kx = f"{ename}: {r['exc'][:80]}"
                        stats["entry_exceptions"][kx] = stats["entry_exceptions"].get(kx, 0) + 1
                        # a generic traversal (the property's anchor modules) that has
                        # no method for a standard node kind, or that reports a
                        # collision / created duplicate on a duplicate-free graph
                        anchors = ("DependencyMapper", "InputGatherer", "SizeParamGatherer",
                                   "TagCountMapper", "CopyMapper", "Deduplicator",
                                   "UsersCollector", "ListOfUsersCollector", "TopoSortMapper",
                                   "NodeCountMapper", "NodeMultiplicityMapper",
                                   "CallSiteCountMapper", "MaterializedNodeCollector",
                                   "ListOfDirectPredecessorsGetter", "CachedMapAndCopyMapper",
                                   "DataWrapperDeduplicator", "WalkMapper", "Reprifier")
                        m = next((a for a in anchors if f"{a} cannot handle" in r["exc"]
                                  or f"in <class 'pytato.transform.{a}'>" in r["exc"]
                                  or f"in <class 'pytato.analysis.{a}'>" in r["exc"]), None)
                        if m is not None and "cache collision" in r["exc"] and \
                                H.reflect(root).has_dups():
                            m = None      # duplicates present: reporting them is correct
                        if m is not None:
                            findings.append({
                                "clause": "unexpected_exception", "mapper": m, "case": case,
                                "exc": r["exc"].split(":")[0], "entry": ename,
                                "nodekind": r["exc"].rsplit(".", 1)[-1].strip("'>. "),
                                "what": f"{ename} raised {r['exc']}"})
                    for f in r["findings"]:
                        f.update(case=case)
                    findings += r["findings"]
                    records += r["records"]
    return {"records": records, "findings": findings, "stats": stats}


def _exclusive_kinds(g: Any) -> list[str]:
    """edge kinds K such that some node of g is reachable ONLY through edges
    of kind K"""
    inc: dict[int, set[str]] = {}
    for k in range(g.n):
        for c, kd in zip(g.ch[k], g.ek[k]):
            inc.setdefault(c, set()).add(kd)
    return sorted({next(iter(ks)) for ks in inc.values() if len(ks) == 1})


def _work_subst(args: tuple) -> dict:
    """substitution consistency: change ONE node X of a witness graph through
    each rewriter and compare with the independent reflective substitution"""
    name, flt = args
    H = _W["H"]
    root = H.all_witnesses()[name]
    records, findings = [], []
    stats: dict[str, Any] = {"subst_runs": 0, "subst_triples": {}}
    for j, (x, new, kind, eks) in enumerate(H.substitution_cases(root)):
        expected = H.reflect_substitute(root, x, new)
        for rname, fn in H.rewriters(x, new).items():
            case = f"subst/{name}/{j}"
            try:
                got = fn(root)
            except NotImplementedError as ex:
                if "no CopyMapper handler" in str(ex):
                    continue
                findings.append({"clause": "unexpected_exception", "mapper": rname, "case": case,
                                 "exc": "NotImplementedError", "nodekind": kind,
                                 "what": f"changing one {kind} raised {ex}"[:200]})
                continue
            except Exception as ex:      # noqa: BLE001
                findings.append({"clause": "unexpected_exception", "mapper": rname, "case": case,
                                 "exc": type(ex).__name__, "nodekind": kind,
                                 "what": f"changing one {kind} raised {type(ex).__name__}: {ex}"[:200]})
                continue
            stats["subst_runs"] += 1
            for ek in eks:
                k3 = f"{rname}/{kind}/{ek}"
                stats["subst_triples"][k3] = stats["subst_triples"].get(k3, 0) + 1
            records.append(H.subst_record(f"{case}|{rname}|{kind}|{'+'.join(eks)}", root,
                                          expected, got))
    return {"records": [], "subst": records, "findings": findings, "stats": stats}


def _work_t3(args: tuple) -> dict:
    """deterministic edge-kind witnesses: every entry point and every
    directly instantiable mapper class on every witness graph"""
    name, flt = args
    H = _W["H"]
    profiles = _W["profiles"]
    classes = _W.setdefault("classes", H.discover_mappers())
    entries = _W.setdefault("entries", H.entry_points())
    root = H.all_witnesses()[name]
    case = f"t3/{name}"
    records, findings = [], []
    g0 = H.reflect(root)
    stats: dict[str, Any] = {"witness_runs": 0, "witness_exclusive": {name: _exclusive_kinds(g0)},
                             "entry_classes": {}, "entry_exceptions": {}}
    for ename, fn in entries.items():
        if flt is not None and flt.get("entry") and ename != flt["entry"]:
            continue
        if flt is not None and not flt.get("entry"):
            break
        r = H.run_entry(ename, fn, root, H.Interner(), case, profiles, classes)
        stats["witness_runs"] += 1
        for k, c in r["classes"].items():
            stats["entry_classes"][k] = stats["entry_classes"].get(k, 0) + c
        if r["exc"]:
            kx = f"{ename}: {r['exc'][:80]}"
            stats["entry_exceptions"][kx] = stats["entry_exceptions"].get(kx, 0) + 1
        for f in r["findings"]:
            f.update(case=case)
        findings += r["findings"]
        records += r["records"]
    for pname, prof in profiles.items():
        if prof.skip:
            continue
        if flt is not None and (flt.get("entry") or not pname.startswith(flt["mapper"])):
            continue
        r = H.run_direct(pname, prof, root, H.Interner(), case)
        stats["witness_runs"] += 1
        for f in r["findings"]:
            f.update(case=case, mapper=pname)
        findings += r["findings"]
        records += r["records"]
    return {"records": records, "findings": findings, "stats": stats}


# --------------------------------------------------------------------------

def fncache_stage(run: Run, tier: str) -> dict:
    """Function definitions (spec/PtFnCache.tla): (1) TLC model-checks the design -- one
    function cache per mapper family -- over every call DAG of <= 4 definitions, and must
    REFUTE the deviation 'a fresh cache per body' (negative control); (2) the
    function-definition events of every entry point on call DAGs of definitions (Fibonacci
    nesting, diamonds, the function witnesses, traced programs of C12's generator) are
    replayed through the specification's actions (module PtFnCacheTrace)."""
    from checks import c12
    from ptverif import fncache
    out: dict[str, Any] = {}
    mc = tlc.run_tlc("PtFnCache", "PtFnCache.cfg", workers=min(NCPU, 8), timeout=900)
    if mc.error or mc.violated:
        raise MachineryError(f"PtFnCache: the design does not satisfy its own invariants: "
                             f"{(mc.error or str(mc.violated))[:300]}")
    neg = tlc.run_tlc("PtFnCache", "PtFnCacheFresh.cfg", workers=2, timeout=300)
    if not neg.violated:
        raise MachineryError("PtFnCache: the negative control (a fresh function cache per "
                             "body) was NOT refuted -- OncePerDefinition is vacuous")
    out["fncache_design_states"] = mc.distinct
    out["fncache_negative_control_refuted"] = True
    _winit({})
    H = _W["H"]
    graphs = dict(fncache.nested_witnesses())
    rng = np.random.default_rng(seed() + 13)
    want, tries = (25 if tier == "quick" else 250), 0
    while sum(1 for k in graphs if k.startswith("traced")) < want and tries < want * 6:
        tries += 1
        p = c12.random_call_program(rng, f"q{tries}")
        if p is None:
            continue
        pb = c12.PtCalls()
        pb.mode = "trace"
        pb.run(p)
        import pytato as pt
        if pb.rejections:
            continue
        outs = {k: v for k, v in pb.outs().items() if isinstance(v, pt.Array)}
        if not outs:
            continue
        graphs[f"traced{tries}"] = pt.make_dict_of_named_arrays(outs)
    # repr() truncates at depth 3 and keys by (node, depth): documented, outside this rule
    entries = {k: v for k, v in H.entry_points().items() if k != "repr"}
    recs, status = [], {}
    for gname, root in graphs.items():
        for ename, fn in entries.items():
            if gname.startswith("traced") and ename in (
                    "generate_loopy", "generate_numpy_like", "codegen.preprocess"):
                continue
            r = fncache.record(f"{gname}|{ename}", fn, root)
            st = r["status"].split(":")[0]
            status[st] = status.get(st, 0) + 1
            recs += r["records"]
    val = tlc.validate_records("PtFnCacheTrace", "PtFnCacheTrace.cfg", recs, timeout=900,
                               shards=min(NCPU, 8))
    byid = {r["id"]: r for r in recs}
    okfam = {rid.rsplit("/", 1)[0] for rid, v in val.verdicts.items() if v == "ok"}
    for rid, v in sorted(val.verdicts.items()):
        # (a family is judged under both numberings of the definitions, by == and by
        # identity: it keys its function cache one way or the other)
        if v == "ok" or rid.rsplit("/", 1)[0] in okfam or rid.endswith("/id"):
            continue
        gname, rest = rid.split("|", 1)
        ename = rest.rsplit("#", 1)[0]
        run.violation(f"fncache|{ename}|{v}|{gname if not gname.startswith('traced') else ''}",
                      f"{ename} on the call DAG {gname}: its function-definition events are "
                      f"not a behaviour of PtFnCache (clause {v})",
                      record={"case": f"fncache/{gname}", "entry": ename, "trace": byid[rid]},
                      observed=v,
                      sig={"mapper": ename, "clause": v.split(":")[0], "detail": v,
                           "nodekind": "FunctionDefinition", "edgekind": "function",
                           "exc": ""})
    out.update({"fncache_graphs": len(graphs), "fncache_traces": len(recs),
                "fncache_status": status, "fncache_trace_states": val.states,
                "fncache_events": sum(len(r["events"]) for r in recs)})
    return out


def report(run: Run, f: dict, byid: dict) -> None:
    sig = {"mapper": f["mapper"].split("#")[0], "clause": f["clause"].split(":")[0],
           "detail": f["clause"], "nodekind": f.get("nodekind", ""),
           "edgekind": f.get("edgekind", ""), "exc": f.get("exc", "")}
    key = "|".join([f["mapper"], f["clause"], sig["nodekind"], sig["edgekind"], sig["exc"]])
    rec = byid.get(f.get("record", ""))
    run.violation(key, f"{f['mapper']} on {f['case']}: {f['what']} {f.get('detail', '')}"
                       f" {sig['nodekind']} {sig['edgekind']}",
                  record={k: v for k, v in f.items() if k != "what"} | (
                      {"trace": rec} if rec else {}),
                  observed=f["what"], sig=sig)


def _dedupe(records: list[dict]) -> tuple[list[dict], dict[str, str]]:
    """identical traces (many mappers behave identically on one graph) are
    validated once; -> (unique records, id -> id of the representative)"""
    seen: dict[str, str] = {}
    alias: dict[str, str] = {}
    uniq = []
    for r in records:
        body = json.dumps({k: v for k, v in r.items()
                           if k not in ("id", "direct", "kind", "ek")},
                          sort_keys=True)
        if body in seen:
            alias[r["id"]] = seen[body]
        else:
            seen[body] = r["id"]
            alias[r["id"]] = r["id"]
            uniq.append(r)
    return uniq, alias


def _merge(a: dict, b: dict) -> None:
    for k, v in b.items():
        if isinstance(v, dict):
            _merge(a.setdefault(k, {}), v)
        elif isinstance(v, list):
            a[k] = sorted(set(a.get(k, [])) | set(v))
        else:
            a[k] = a.get(k, 0) + v


def main(tier: str, only: dict | None = None) -> int:
    run = Run(PROP, tier, "model_checking")
    from ptverif import mapperharness as H
    t0 = time.time()
    mc = run_mc(tier) if only is None and not os.environ.get("C13_DEBUG_NOMC") else []
    t_mc = time.time() - t0
    maxn, maxar = (4, 2) if tier == "quick" else (5, 2)
    shapes, gen = generate(maxn, maxar)
    if tier == "thorough":
        shapes3, gen3 = generate(4, 3)
        known = set(shapes)
        shapes += [s for s in shapes3 if s not in known]
        gen["expect"].update(gen3["expect"])
        for k in ("states", "transitions", "finals"):
            gen[k] += gen3[k]
    indexed = list(enumerate(shapes))
    flt = None
    if only is not None:
        parts_ = only["case"].split("/")
        flt = {"case": only["case"], "mapper": only.get("mapper", "").split("#")[0],
               "entry": only.get("entry", ""), "kind": parts_[0]}
        if parts_[0] in ("t1", "t2"):
            indexed = [indexed[int(parts_[1][1:])]]
            if parts_[0] == "t1":
                flt.update(scheme=parts_[2], root=parts_[3])
    stride = int(os.environ.get("C13_DEBUG_STRIDE", "1"))     # development aid only
    if stride > 1:
        indexed = indexed[::stride]
    chunks = [indexed[i::NCPU * 2] for i in range(NCPU * 2) if indexed[i::NCPU * 2]]
    depth = 60
    ladders = [(l, sc, depth) for l in H.ladder_shapes(depth)
               for sc in (H.LADDER_SCHEMES + ["mixed0", "mixed1"] if tier == "thorough"
                          else ["il", "csr", "send", "call", "dict", "mixed0"])]
    t2shapes = indexed[::3]
    t2chunks = [t2shapes[i::NCPU * 2] for i in range(NCPU * 2) if t2shapes[i::NCPU * 2]]
    with mp.Pool(NCPU, initializer=_winit, initargs=(gen["expect"],)) as pool:
        if only is None:
            a_t3 = pool.map_async(_work_t3, [(w, None) for w in H.all_witnesses()],
                                  chunksize=1)
            a_lad = pool.map_async(_work_ladder, ladders, chunksize=1)
            a_t2 = pool.map_async(_work_t2, [(c, tier) for c in t2chunks], chunksize=1)
            parts = pool.map_async(_work_t1, [(c, tier) for c in chunks]).get(2400)
            a_sub = pool.map_async(_work_subst, [(w, None) for w in H.all_witnesses()],
                                   chunksize=1)
            parts += a_lad.get(2400) + a_t2.get(2400) + a_t3.get(2400) + a_sub.get(2400)
        elif flt["kind"] == "subst":
            parts = pool.map_async(_work_subst, [(only["case"].split("/")[1], flt)]).get(2400)
        elif flt["kind"] == "t3":
            parts = pool.map_async(_work_t3, [(only["case"].split("/")[1], flt)]).get(2400)
        elif flt["kind"] == "t1":
            parts = pool.map_async(_work_t1, [(indexed, tier, flt)]).get(2400)
        elif flt["kind"] == "t2":
            parts = pool.map_async(_work_t2, [(indexed, tier, flt)]).get(2400)
        else:
            _, lname, scheme = only["case"].split("/")
            parts = pool.map_async(_work_ladder, [
                (l, sc, d) for l, sc, d in ladders
                if (l[0], sc) == (lname, scheme)] or [
                (l, scheme, depth) for l in H.ladder_shapes(depth) if l[0] == lname]).get(2400)
    records, findings, stats, subst = [], [], {}, []
    for p in parts:
        records += p["records"]
        subst += p.get("subst", [])
        findings += p["findings"]
        _merge(stats, p["stats"])
    # substitution consistency, judged by spec/PtSubst.tla
    sval = tlc.validate_records("PtSubst", "PtSubst.cfg", subst, timeout=900,
                                shards=min(NCPU, 8)) if subst else tlc.Validation({}, {})
    import re as _re
    for sr in subst:
        if sval.verdicts[sr["id"]] == "ok":
            continue
        case, rname, kind, eks = sr["id"].split("|")
        for cl in _re.findall(r'"([^"]+)"', sval.detail.get(sr["id"], "")) or ["failed"]:
            findings.append({"clause": "subst:" + cl.rsplit(":", 1)[0] if cl.count(":") > 1
                             else "subst:" + cl, "mapper": rname, "case": case,
                             "nodekind": kind, "edgekind": eks,
                             "what": f"changing one {kind} (reached through {eks}) only: {cl}",
                             "subst": sr["id"]})
    uniq, alias = _dedupe(records)
    val = tlc.validate_records("PtMapperTrace", "PtMapperTrace.cfg", uniq, timeout=1500,
                               shards=NCPU)
    byid = {r["id"]: r for r in records}
    rejected = set()
    for r in records:
        vd = val.verdicts[alias[r["id"]]]
        if vd == "ok":
            continue
        rejected.add(r["id"].rsplit("|", 1)[0])
        case, pname, _ = r["id"].split("|")
        pname = pname.split("@")[0] if "@" in pname else pname
        det = val.detail.get(alias[r["id"]], "")
        nums = [int(x) for x in det.replace("<<", "").replace(">>", "").split(",") if x.strip()]
        f = {"clause": vd, "case": case, "mapper": pname, "detail": det,
             "entry": r["id"].split("|")[1].partition("@")[2],
             "what": f"trace rejected by PtMapperTrace: {vd}", "record": r["id"]}
        if len(nums) >= 2 and 1 <= nums[1] <= r["n"]:
            f["nodekind"] = r["kind"][nums[1] - 1]
            if len(nums) >= 3 and 1 <= nums[2] <= len(r["ek"][nums[1] - 1]):
                f["edgekind"] = r["ek"][nums[1] - 1][nums[2] - 1]
        findings.append(f)
    for f in findings:
        if f["clause"].startswith("machinery"):
            raise MachineryError(f"{f}")
        if f["clause"] == "final_state_not_in_model" and \
                f"{f['case']}|{f['mapper']}" in rejected:
            continue        # the trace verdict names the clause
        report(run, f, byid)
    # which mapper class was validated on which deterministic witness graph
    wit: dict[str, set] = {}
    for r in records:
        case, pname, _ = r["id"].split("|")
        if case.startswith("t3/"):
            wit.setdefault(pname.split("@")[0].split("#")[0], set()).add(case[3:])
    classes = H.discover_mappers()
    profiles = H.make_profiles()
    skipped = {k: profiles[k].skip for k in profiles if profiles[k].skip}
    untabled = sorted(k for k in classes if k not in profiles)
    run.coverage.update({
        "states": sum(m["states"] for m in mc) + gen["states"] + val.states + sval.states,
        "transitions": sum(m["transitions"] for m in mc) + gen["transitions"] + val.transitions
        + sval.transitions,
        "traces_validated_against_impl": len(records) + len(subst),
        "substitution_records": len(subst),
        "substitution_triples": stats.get("subst_triples", {}),
        "distinct_traces": len(uniq),
        "evaluations": stats.get("runs", 0),
        "distinct_nontrivial": sum(1 for r in uniq if any(e["ev"] == "hit" or e["ev"] ==
                                                          "collision" for e in r["events"])),
        "rule": "one run = one mapper class on one real instance of one abstract DAG shape; "
                "distinct = distinct (variant, graph, event sequence); non-trivial = the "
                "trace contains a cache hit or a collision (sharing is exercised)",
        "exhaustive": True,
        "model_checking": mc, "mc_wall_s": round(t_mc, 1),
        "generator": {k: gen[k] for k in ("states", "transitions", "finals")},
        "shapes": len(shapes), "final_states_compared": stats.get("compared", 0),
        "documented_exceptions": stats.get("documented_exception", 0),
        "templates_used": stats.get("templ", {}), "node_kinds": stats.get("kinds", {}),
        "edge_kinds": stats.get("ekinds", {}),
        "mapper_classes_discovered": len(classes),
        "mapper_classes_skipped": skipped, "mapper_classes_without_profile": untabled,
        "tlc_trace_runs": val.runs, "tlc_trace_wall_s": round(val.wall, 1),
        "witness_exclusive_edge_kinds": stats.get("witness_exclusive", {}),
        "witness_graphs_per_class": {k: sorted(v) for k, v in sorted(wit.items())},
        "ladder_cases_over_cpu_budget": stats.get("over_budget", []),
        "entry_classes": stats.get("entry_classes", {}),
        "entry_exceptions": stats.get("entry_exceptions", {}),
    })
    if only is None:
        run.coverage.update(fncache_stage(run, tier))
    for r in uniq[:2]:
        run.sample(r)
    run.assumptions += [
        "TLC is trusted; the reflective walk over dataclass fields is the independent "
        "enumeration of the graph (it shares no code with pytato's mappers)",
        "events are observed with sys.setprofile on rec/map_* frames and by wrapping "
        "CachedMapperCache.add/retrieve; a mapper that visits a node without going through "
        "rec or a map_* method is invisible",
    ]
    if os.environ.get("PTVERIF_KEYS_OUT"):        # development aid (mutation experiments)
        import json as _json
        with open(os.environ["PTVERIF_KEYS_OUT"], "w") as f:
            _json.dump(sorted(v["key"] for v in run.violations), f)
    return run.finish()


def replay(rep: dict) -> int:
    """re-run the case of a replay file (same shape, scheme, root, mapper /
    entry point) against the current tree"""
    return main(rep.get("tier", "quick"), only=rep["record"])


def selftest(tier: str) -> int:
    """Binding demonstration.  (1) real traces of CopyMapper / TopoSortMapper
    on a diamond are accepted; each of these corruptions of ONE recorded
    event/field must be rejected: a hit turned into a second invocation, a
    dropped visit of a child, a hit returning another object, the result of an
    unchanged node replaced by a fresh object, a collision removed.  (2) the
    specification itself: weakening one guard of PtMapper must violate the
    corresponding invariant."""
    import copy
    import warnings
    warnings.simplefilter("ignore")
    from ptverif import mapperharness as H
    P = H.make_profiles()
    ch, rep = [[], [1], [1, 2], [3, 2, 1]], [1, 2, 3, 4]
    root, _, _ = H.build_t1(ch, rep, "il")
    recs = {}
    for pn in ("pytato.transform.CopyMapper", "pytato.transform.TopoSortMapper"):
        r = H.run_direct(pn, P[pn], root, H.Interner(), "selftest")
        recs[pn] = r["records"][0]
    root2, _, _ = H.build_t1([[], [], [1, 2]], [1, 1, 3], "il")
    rc = H.run_direct("pytato.transform.CopyMapper", P["pytato.transform.CopyMapper"], root2,
                      H.Interner(), "selftest")["records"][0]
    good = [recs["pytato.transform.CopyMapper"], recs["pytato.transform.TopoSortMapper"], rc]
    for i, g in enumerate(good):
        g["id"] = f"good{i}"
    bad = []

    def mut(base: dict, name: str, f: Any) -> None:
        b = copy.deepcopy(base)
        b["id"] = name
        f(b)
        bad.append(b)
    cm, ts = good[0], good[1]
    ihit = next(i for i, e in enumerate(cm["events"]) if e["ev"] == "hit")

    def second_invocation(b: dict) -> None:
        e = b["events"][ihit]
        b["events"][ihit:ihit + 1] = [
            {"ev": "enter", "n": e["n"], "x": 0, "res": 0},
            {"ev": "return", "n": e["n"], "x": 0, "res": e["res"], "ret": e["res"],
             "raw": e["res"], "rawcl": b["cls"][e["n"] - 1], "fresh": False, "lbl": True,
             "och": [], "fsame": True}]
    mut(cm, "bad_second_invocation", second_invocation)
    mut(ts, "bad_dropped_child", lambda b: b["events"].__delitem__(
        next(i for i, e in enumerate(b["events"]) if e["ev"] == "hit")))
    mut(cm, "bad_hit_other_object", lambda b: b["events"][ihit].__setitem__("res", 4))
    iret = next(i for i, e in enumerate(cm["events"]) if e["ev"] == "return" and e["n"] == 2)

    def fresh_result(b: dict) -> None:
        e = b["events"][iret]
        e.update(raw=99, res=99, ret=99, fresh=True, och=[1])
    mut(cm, "bad_copy_of_unchanged_node", fresh_result)

    def silent(b: dict) -> None:
        e = b["events"][-1]
        assert e["ev"] == "collision"
        e.update(ev="hit", res=1)
        b["outcome"] = "raise"
    mut(rc, "bad_silent_hit_on_duplicate", silent)
    val = tlc.validate_records("PtMapperTrace", "PtMapperTrace.cfg", good + bad, shards=1)
    ok = all(val.verdicts[g["id"]] == "ok" for g in good) and \
        all(val.verdicts[b["id"]] != "ok" for b in bad)
    print("trace binding:", {k: v for k, v in val.verdicts.items()})
    # (2) sabotage of the specification
    src = open(os.path.join(tlc.SPEC_DIR, "PtMapper.tla")).read()
    sab = [("OncePerKey", "  /\\ ~(V.cached /\\ KeyOf(n, x) \\in DOMAIN cache)", "  /\\ TRUE"),
           ("CollisionReported", "  /\\ V.errcol => cexpr[KeyOf(n, x)] = n", "  /\\ TRUE"),
           ("ResultsDeduplicated", "Stored(raw, rawcl) == IF InPool(rawcl) THEN pool[rawcl] ELSE raw",
            "Stored(raw, rawcl) == raw"),
           ("DuplicateReported", "     IF V.errdup /\\ IsCreatedDup(f, raw, rawcl, fsame)",
            "     IF FALSE")]
    d = os.path.join(scratch(), "sab")
    os.makedirs(d, exist_ok=True)
    for inv, old, new in sab:
        if old not in src:
            print("selftest: sabotage pattern not found:", inv)
            ok = False
            continue
        with open(os.path.join(d, "PtMapper.tla"), "w") as f:
            f.write(src.replace(old, new))
        res = tlc.run_tlc("PtMapper", write_cfg("sab", MaxN=3), workers=4, timeout=300,
                          spec_dir=d)
        print(f"spec sabotage [{inv}]: violated={res.violated}")
        ok = ok and inv in res.violated
    # (3) function definitions (PtFnCache): a real trace is accepted; a hit turned into a
    # second entry, a dropped body (its callee never asked), a hit of a definition that
    # was never mapped and a return of another definition are rejected; the deviation
    # "fresh cache per body" is refuted by TLC
    from ptverif import fncache
    fw = fncache.nested_witnesses()["diamond"]
    import pytato as pt
    base = [r for r in fncache.record("good", pt.transform.deduplicate, fw)["records"]
            if r["id"].endswith("/eq")][0]
    fbad = []

    def fmut(name: str, f: Any) -> None:
        b = copy.deepcopy(base)
        b["id"] = name
        f(b["events"])
        fbad.append(b)
    hit = next(k for k, e in enumerate(base["events"]) if e["ev"] == "hit")
    fmut("bad_hit_becomes_second_entry", lambda ev: ev.__setitem__(
        slice(hit, hit + 1), [{"ev": "enter", "g": ev[hit]["g"]},
                              {"ev": "return", "g": ev[hit]["g"]}]))
    inner = next(k for k, e in enumerate(base["events"])
                 if e["ev"] == "enter" and base["events"][k - 1]["ev"] == "enter")
    fmut("bad_callee_of_a_body_never_asked", lambda ev: ev.__delitem__(slice(inner, inner + 2)))
    fmut("bad_hit_of_unmapped_definition", lambda ev: ev.insert(0, {"ev": "hit", "g": 1}))
    fmut("bad_return_of_another_definition", lambda ev: ev.__setitem__(
        inner + 1, {"ev": "return", "g": ev[0]["g"]}))
    fval = tlc.validate_records("PtFnCacheTrace", "PtFnCacheTrace.cfg", [base, *fbad], shards=1)
    print("function-cache trace binding:", dict(fval.verdicts))
    ok = ok and fval.verdicts[base["id"]] == "ok" and all(
        fval.verdicts[b["id"]] != "ok" for b in fbad)
    neg = tlc.run_tlc("PtFnCache", "PtFnCacheFresh.cfg", workers=2, timeout=300)
    print("PtFnCache, fresh cache per body: violated =", neg.violated)
    ok = ok and "OncePerDefinition" in neg.violated
    print("selftest", "passed" if ok else "FAILED")
    return 0 if ok else 2
