"""C19 -- raising an index lambda to a high-level operation never misreads it.

G: the family of index lambdas the public API creates for the raisable
   operations (both operand orders, array/scalar operands, broadcasting,
   comparisons, logical operations, where, math functions, reductions over
   every axis subset, full, broadcast_to, astype, zeros_like) and
   systematically derived near-misses (permuted / shifted / reversed / fixed
   subscripts, extra operands, changed reduction bounds, wrapped operands).
E: the real index_lambda_to_high_level_op is called; the returned HighLevelOp
   is turned into a NumPy-level node of the specification (PtSem kinds full,
   binop, ucall, where, bcast, lnot, reduce) over the SAME exported operand
   nodes, and TLC decides  HLOSem(hlo) = EvalIL(il)  under injective
   valuations with type casts stripped on both sides (raising drops casts by
   design; NumPy's own promotion restores them).
Verdicts: soundness (value / shape rule); completeness on the API family
(must be recognised); anything else must be UnknownIndexLambdaExpr, never
another exception.
"""
from __future__ import annotations

import itertools
from typing import Any

import numpy as np

from ptverif import export, tlc
from ptverif import replay as rp
from ptverif.common import MachineryError, Run, seed
from ptverif.progspace import inp

PROP = "C19"
# created by the API and named in the quantifier, but not among the high-level
# operations the statement requires to be recognised: unknown is acceptable,
# a wrong classification or another exception is not
OPTIONAL = {"astype", "zeros_like"}


# --------------------------------------------------------------------------
# the API family

def _sc(kind: str, v: str) -> dict:
    return {"py": kind, "v": v} if kind in ("int", "float", "bool", "complex") \
        else {"np": kind, "v": v}


SCALARS = [_sc("int", "2"), _sc("float", "0.5"), _sc("f4", "1.5"), _sc("i4", "3"),
           _sc("bool", "True")]
ARITH = ["add", "sub", "mul", "truediv", "floordiv", "mod", "pow"]
CMP = ["lt", "le", "gt", "ge", "eq", "ne"]
LOGIC = ["logical_and", "logical_or"]
BITS = ["bitand", "bitor", "bitxor"]
UNARY = ["sin", "cos", "tan", "exp", "log", "sqrt", "sinh", "cosh", "tanh", "arcsin",
         "arccos", "arctan", "log10", "abs", "isnan", "real", "imag", "conj"]
SHAPE_PAIRS = [((3,), (3,)), ((2, 3), (3,)), ((2, 1), (1, 3)), ((), (2,)), ((2, 3), ()),
               ((2, 3), (2, 3)), ((1,), (3,)), ((0,), (1,)), ((2, 2), (2, 2))]


def api_programs(tier: str) -> list[dict]:
    progs: list[dict] = []

    def add(pid: str, inputs: list[dict], call: dict) -> None:
        progs.append({"id": pid, "inputs": inputs, "calls": [call],
                      "outs": {"out": len(inputs) + 1}})

    dts = [("f8", "f8"), ("f4", "i4"), ("i8", "f8")] if tier == "quick" else \
        [("f8", "f8"), ("f4", "i4"), ("i8", "f8"), ("i4", "i4"), ("c16", "f8"), ("f4", "f4")]
    for op in ARITH + CMP:
        for (sa, sb), (da, db) in itertools.product(SHAPE_PAIRS, dts):
            if op in ("floordiv", "mod") and "c" in da + db:
                continue
            add(f"{op}/aa/{sa}{sb}/{da}{db}", [inp("x", sa, da), inp("y", sb, db)],
                {"op": op, "a": 1, "b": 2})
        for s, (sh, d) in itertools.product(
                SCALARS, [((3,), "f8"), ((2, 3), "i4"), ((), "f4")]):
            sv = s.get("py", s.get("np")) + s["v"]
            add(f"{op}/as/{sh}/{d}/{sv}", [inp("x", sh, d)], {"op": op, "a": 1, "b": s})
            add(f"{op}/sa/{sh}/{d}/{sv}", [inp("x", sh, d)], {"op": op, "a": s, "b": 1})
    for op in LOGIC + BITS:
        for (sa, sb) in SHAPE_PAIRS:
            d = "b1"
            add(f"{op}/aa/{sa}{sb}", [inp("x", sa, d), inp("y", sb, d)],
                {"op": op, "a": 1, "b": 2})
        add(f"{op}/as", [inp("x", (3,), "b1")], {"op": op, "a": 1, "b": _sc("bool", "True")})
        add(f"{op}/sa", [inp("x", (3,), "b1")], {"op": op, "a": _sc("bool", "False"), "b": 1})
    for op in BITS:
        add(f"{op}/ii", [inp("x", (3,), "i4"), inp("y", (3,), "i4")],
            {"op": op, "a": 1, "b": 2})
    for op in UNARY:
        for sh, d in [((3,), "f8"), ((2, 3), "f4"), ((), "f8"), ((2,), "c16")]:
            add(f"{op}/{sh}/{d}", [inp("x", sh, d)], {"op": op, "a": 1})
    add("logical_not/3", [inp("x", (3,), "b1")], {"op": "logical_not", "a": 1})
    add("logical_not/2x3", [inp("x", (2, 3), "f8")], {"op": "logical_not", "a": 1})
    add("neg/3", [inp("x", (3,), "f8")], {"op": "neg", "a": 1})
    add("arctan2/aa", [inp("x", (2, 3), "f8"), inp("y", (3,), "f8")],
        {"op": "arctan2", "a": 1, "b": 2})
    add("arctan2/as", [inp("x", (2, 3), "f8")],
        {"op": "arctan2", "a": 1, "b": _sc("float", "0.5")})
    # where with every mixture of array / scalar operands
    for k, (c, a, b) in enumerate(itertools.product([0, 1], repeat=3)):
        if (c, a, b) == (0, 0, 0):
            continue
        inputs, refs = [], []
        for which, is_arr, sh, d in [("c", c, (2, 3), "b1"), ("a", a, (3,), "f8"),
                                     ("b", b, (2, 1), "f8")]:
            if is_arr:
                inputs.append(inp(which, sh, d))
                refs.append(len(inputs))
            else:
                refs.append(_sc("bool", "True") if which == "c" else _sc("float", "0.5"))
        add(f"where/{c}{a}{b}", inputs, {"op": "where", "c": refs[0], "a": refs[1],
                                         "b": refs[2]})
    add("where/f8cond", [inp("c", (3,), "f8"), inp("a", (3,), "f8"), inp("b", (3,), "f8")],
        {"op": "where", "c": 1, "a": 2, "b": 3})
    # reductions over every axis subset
    for op in ["sum", "prod", "amax", "amin", "all", "any"]:
        for sh in [(3,), (2, 3), (2, 3, 2), (1, 3), (2, 2)]:
            for r in range(0, len(sh) + 1):
                for axes in itertools.combinations(range(len(sh)), r):
                    if not axes:
                        continue
                    d = "b1" if op in ("all", "any") else "f8"
                    add(f"{op}/{sh}/{axes}", [inp("x", sh, d)],
                        {"op": op, "a": 1, "axis": list(axes)})
            add(f"{op}/{sh}/None", [inp("x", sh, "f8")], {"op": op, "a": 1, "axis": None})
    for d, fill in [("f8", _sc("float", "2.5")), ("i4", _sc("int", "7")),
                    ("f4", _sc("float", "nan"))]:
        add(f"full/{d}", [], {"op": "full", "shape": [2, 3], "fill": fill, "dtype": d})
    add("zeros", [], {"op": "zeros", "shape": [3], "dtype": "f8"})
    add("ones", [], {"op": "ones", "shape": [2, 2], "dtype": "i4"})
    for sa, sb in [((3,), (2, 3)), ((1, 3), (2, 3)), ((), (2,)), ((2, 1), (2, 3)),
                   ((2, 3), (2, 3)), ((1,), (1,)), ((2, 2), (2, 2)), ((3, 3), (2, 3, 3)),
                   ((3, 1, 3), (3, 3, 3))]:
        add(f"broadcast_to/{sa}->{sb}", [inp("x", sa)],
            {"op": "broadcast_to", "a": 1, "shape": list(sb)})
    for d1, d2 in [("f8", "f4"), ("i4", "f8"), ("f8", "i4"), ("b1", "f8")]:
        add(f"astype/{d1}->{d2}", [inp("x", (2, 3), d1)],
            {"op": "astype", "a": 1, "dtype": d2})
    add("zeros_like", [inp("x", (2, 3))], {"op": "zeros_like", "a": 1})
    add("ones_like", [inp("x", (2, 3))], {"op": "ones_like", "a": 1})
    return progs


# --------------------------------------------------------------------------
# near-misses derived from an index lambda

def near_misses(il: Any) -> list[tuple[str, Any]]:
    """Index lambdas that differ from *il* in one respect and are still well
    formed (in-bounds by construction, or filtered later by TLC's POISON)."""
    import pymbolic.primitives as p
    from constantdict import constantdict

    import pytato as pt
    from pytato.scalar_expr import IdentityMapper, Reduce

    out: list[tuple[str, Any]] = []

    def rebuild(expr: Any, shape: tuple | None = None) -> Any:
        return pt.IndexLambda(expr=expr, shape=il.shape if shape is None else shape,
                              dtype=il.dtype, bindings=il.bindings, axes=il.axes
                              if shape is None else tuple(pt.array.Axis(frozenset())
                                                          for _ in shape),
                              var_to_reduction_descr=il.var_to_reduction_descr,
                              tags=il.tags)

    class SubMut(IdentityMapper):
        def __init__(self, fn: Any, which: int) -> None:
            super().__init__()
            self.fn, self.which, self.count = fn, which, 0

        def map_subscript(self, expr: Any) -> Any:
            self.count += 1
            if self.count - 1 == self.which:
                shape = il.bindings[expr.aggregate.name].shape
                new = self.fn(expr.index_tuple, shape)
                if new is not None:
                    return p.Subscript(expr.aggregate, tuple(new))
            return p.Subscript(expr.aggregate, expr.index_tuple)

    def is_ix(e: Any) -> bool:
        return isinstance(e, p.Variable) and e.name.startswith("_") \
            and e.name[1:].isdigit()

    def swap(idx: tuple, shape: tuple) -> Any:
        pos = [k for k, e in enumerate(idx) if is_ix(e)]
        if len(pos) >= 2 and shape[pos[0]] == shape[pos[1]]:
            new = list(idx)
            new[pos[0]], new[pos[1]] = new[pos[1]], new[pos[0]]
            return new
        return None

    def shift(idx: tuple, shape: tuple) -> Any:
        for k, e in enumerate(idx):
            if is_ix(e) and isinstance(shape[k], int) and shape[k] >= 2:
                new = list(idx)
                new[k] = (e + 1) % shape[k]
                return new
        return None

    def reverse(idx: tuple, shape: tuple) -> Any:
        for k, e in enumerate(idx):
            if is_ix(e) and isinstance(shape[k], int) and shape[k] >= 2:
                new = list(idx)
                new[k] = shape[k] - 1 - e
                return new
        return None

    def fix0(idx: tuple, shape: tuple) -> Any:
        for k, e in enumerate(idx):
            if is_ix(e) and isinstance(shape[k], int) and shape[k] >= 2:
                new = list(idx)
                new[k] = 0
                return new
        return None

    nsub = [0]

    class Count(IdentityMapper):
        def map_subscript(self, expr: Any) -> Any:
            nsub[0] += 1
            return expr
    Count()(il.expr)
    for which in range(min(nsub[0], 3)):
        for name, fn in [("swap", swap), ("shift", shift), ("reverse", reverse),
                         ("fix0", fix0)]:
            m = SubMut(fn, which)
            new = m(il.expr)
            if new != il.expr:
                out.append((f"{name}{which}", rebuild(new)))

    e = il.expr
    if isinstance(e, (p.Sum, p.Product)) and len(e.children) == 2:
        out.append(("third_operand", rebuild(type(e)((*e.children, e.children[0])))))
        out.append(("nested", rebuild(type(e)((p.Product((2, e.children[0])),
                                               e.children[1])))))
    if isinstance(e, p.Call):
        out.append(("renamed_call", rebuild(p.Call(p.Variable("pytato.c99.frobnicate"),
                                                   e.parameters))))
        out.append(("call_of_sum", rebuild(p.Call(e.function, tuple(
            q + 1 for q in e.parameters)))))
    if isinstance(e, p.If):
        out.append(("if_swapped", rebuild(p.If(e.condition, e.else_, e.then))))
        out.append(("if_not", rebuild(p.If(p.LogicalNot(e.condition), e.then, e.else_))))
    if isinstance(e, p.Comparison):
        out.append(("cmp_off", rebuild(p.Comparison(e.left + 1, e.operator, e.right))))
    if isinstance(e, Reduce):
        for v, (lo, hi) in e.bounds.items():
            if isinstance(hi, int) and hi >= 2:
                b = dict(e.bounds)
                b[v] = (1, hi)
                out.append((f"lo1_{v}", rebuild(Reduce(e.inner_expr, e.op, constantdict(b)))))
                b[v] = (0, hi - 1)
                out.append((f"hi-1_{v}", rebuild(Reduce(e.inner_expr, e.op, constantdict(b)))))
        if isinstance(e.inner_expr, p.Subscript):
            sub = e.inner_expr
            shape = il.bindings[sub.aggregate.name].shape
            rpos = [k for k, q in enumerate(sub.index_tuple)
                    if isinstance(q, p.Variable) and q.name in e.bounds]
            # a reduction variable at TWO positions (a trace / diagonal, not a
            # reduction along whole axes)
            for k1 in rpos[:1]:
                for k2, q in enumerate(sub.index_tuple):
                    if k2 != k1 and isinstance(q, p.Variable) and shape[k2] == shape[k1]:
                        new = list(sub.index_tuple)
                        new[k2] = sub.index_tuple[k1]
                        b = {v: bd for v, bd in e.bounds.items()}
                        out.append((f"diag{k1}{k2}", rebuild(Reduce(
                            p.Subscript(sub.aggregate, tuple(new)), e.op, constantdict(b)))))
                        # ... with the displaced reduction variable dropped from the bounds
                        if q.name in e.bounds and q.name != sub.index_tuple[k1].name:
                            b2 = {v: bd for v, bd in e.bounds.items() if v != q.name}
                            il2 = pt.IndexLambda(
                                expr=Reduce(p.Subscript(sub.aggregate, tuple(new)), e.op,
                                            constantdict(b2)),
                                shape=il.shape, dtype=il.dtype, bindings=il.bindings,
                                axes=il.axes, tags=il.tags,
                                var_to_reduction_descr=constantdict(
                                    {v: d for v, d in il.var_to_reduction_descr.items()
                                     if v != q.name}))
                            out.append((f"trace{k1}{k2}", il2))
                        break
            # a reduction variable that indexes nothing (the sum counts it)
            if "_r9" not in e.bounds:
                b = dict(e.bounds)
                b["_r9"] = (0, 2)
                il3 = pt.IndexLambda(
                    expr=Reduce(sub, e.op, constantdict(b)), shape=il.shape, dtype=il.dtype,
                    bindings=il.bindings, axes=il.axes, tags=il.tags,
                    var_to_reduction_descr=constantdict(
                        {**il.var_to_reduction_descr,
                         "_r9": pt.array.ReductionDescriptor(frozenset())}))
                out.append(("unused_redn_var", il3))
        out.append(("red_of_sum", rebuild(Reduce(e.inner_expr + 1, e.op, e.bounds))))
        out.append(("red_scaled", rebuild(2 * Reduce(e.inner_expr, e.op, e.bounds))))
    # a VALUE-CHANGING cast of one operand inside the operation (cast(int8, a[_0]) + b[_0] is
    # not a + b), and an extra binding that nothing references (it must not decide anything)
    from pytato.scalar_expr import TypeCast
    if isinstance(e, (p.Sum, p.Product, p.Quotient, p.Comparison, p.If, p.Call)) \
            and il.dtype.kind in "fc":
        m2 = SubMut(lambda idx, shape: None, 0)

        class CastFirst(IdentityMapper):
            done = False

            def map_subscript(self, expr: Any) -> Any:
                if not self.done:
                    self.done = True
                    return TypeCast(np.dtype(np.int8), expr)
                return expr
        new = CastFirst()(e)
        if new != e:
            out.append(("narrowing_cast_of_operand", rebuild(new)))
    if il.bindings and all(isinstance(d, int) for d in il.shape) and len(il.shape) >= 1:
        big = pt.make_placeholder("zz_unused", (3, *il.shape), np.float64)
        out.append(("unused_wider_binding", pt.IndexLambda(
            expr=il.expr, shape=il.shape, dtype=il.dtype,
            bindings=constantdict({**il.bindings, "_in8": big}), axes=il.axes,
            var_to_reduction_descr=il.var_to_reduction_descr, tags=il.tags)))
    # an axis that NO operand supplies: the same expression with every index variable
    # shifted by one inside a result with an extra leading axis of length 2 (a broadcast of
    # the whole operation: not the operation itself), and with an extra trailing axis
    class ShiftIx(IdentityMapper):
        def map_variable(self, expr: Any) -> Any:
            if is_ix(expr):
                return p.Variable(f"_{int(expr.name[1:]) + 1}")
            return expr
    if all(isinstance(d, int) for d in il.shape):
        out.append(("extra_leading_axis", rebuild(ShiftIx()(il.expr), shape=(2, *il.shape))))
        out.append(("extra_trailing_axis", rebuild(il.expr, shape=(*il.shape, 2))))
    # an outer product / sum: the operands index DIFFERENT result axes
    if isinstance(e, (p.Sum, p.Product)) and len(e.children) == 2 and len(il.shape) == 1 \
            and all(isinstance(c, p.Subscript) and len(c.index_tuple) == 1
                    for c in e.children) and isinstance(il.shape[0], int):
        c0, c1 = e.children
        out.append(("outer", rebuild(type(e)((c0, p.Subscript(c1.aggregate,
                                                              (p.Variable("_1"),)))),
                                     shape=(il.shape[0], il.shape[0]))))
        # ... of operands of DIFFERENT lengths (they do not broadcast against each other)
        n = il.shape[0]
        other = pt.make_placeholder("zz_other", (n + 1,), il.bindings[c1.aggregate.name].dtype)
        out.append(("outer_mixed", pt.IndexLambda(
            expr=type(e)((c0, p.Subscript(p.Variable("_in9"), (p.Variable("_1"),)))),
            shape=(n, n + 1), dtype=il.dtype,
            bindings=constantdict({**il.bindings, "_in9": other}),
            axes=tuple(pt.array.Axis(frozenset()) for _ in range(2)),
            var_to_reduction_descr=il.var_to_reduction_descr, tags=il.tags)))
    if len(il.shape) == 1:
        out.append(("bare_index", rebuild(p.Variable("_0"))))
        out.append(("index_plus", rebuild(p.Variable("_0") + 1)))
    if isinstance(e, p.Subscript) and len(il.shape) >= 1:
        # a sliced-away axis: x[_0, 0] with a smaller result
        shape = il.bindings[e.aggregate.name].shape
        if len(shape) == len(il.shape) and len(shape) >= 2:
            new = (*e.index_tuple[:-1], 0)
            out.append(("drop_last_axis", rebuild(p.Subscript(e.aggregate, new),
                                                  shape=tuple(il.shape[:-1]))))
    return out


# --------------------------------------------------------------------------

def hlo_record(rid: str, il: Any, hlo: Any, vals_rng: np.random.Generator) -> dict:
    """a = exported index lambda, b = its bindings + one NumPy-level node."""
    import pytato as pt
    from pytato import raising as r

    ge = export.GraphExporter()

    def operand(x: Any) -> dict:
        if isinstance(x, pt.Array):
            return {"n": ge.rec(x)}
        return {"c": export.const(x)}

    binmap = {"ADD": "add", "SUB": "sub", "MULT": "mul", "LOGICAL_OR": "or",
              "LOGICAL_AND": "and", "BITWISE_OR": "bor", "BITWISE_AND": "band",
              "BITWISE_XOR": "bxor", "TRUEDIV": "quot", "FLOORDIV": "fdiv",
              "POWER": "pow", "MOD": "mod", "LESS": "lt", "LESS_EQUAL": "le",
              "GREATER": "gt", "GREATER_EQUAL": "ge", "EQUAL": "eq", "NOT_EQUAL": "ne"}
    if isinstance(hlo, r.FullOp):
        nd = {"kind": "full", "fill": operand(hlo.fill_value)}
    elif isinstance(hlo, r.BinaryOp):
        nd = {"kind": "binop", "op": binmap[hlo.binary_op.name],
              "x1": operand(hlo.x1), "x2": operand(hlo.x2)}
    elif isinstance(hlo, r.C99CallOp):
        nd = {"kind": "ucall", "f": export.func_id(hlo.function),
              "args": [operand(a) for a in hlo.args]}
    elif isinstance(hlo, r.WhereOp):
        nd = {"kind": "where", "c": operand(hlo.condition), "t": operand(hlo.then),
              "e": operand(hlo.else_)}
    elif isinstance(hlo, r.BroadcastOp):
        nd = {"kind": "bcast", "x": operand(hlo.x)}
    elif isinstance(hlo, r.LogicalNotOp):
        nd = {"kind": "lnot", "x": operand(hlo.x)}
    elif isinstance(hlo, r.ReduceOp):
        ops = {"SumReductionOperation": "sum", "ProductReductionOperation": "product",
               "MaxReductionOperation": "max", "MinReductionOperation": "min",
               "AllReductionOperation": "all", "AnyReductionOperation": "any"}
        nd = {"kind": "reduce", "op": ops[type(hlo.op).__name__], "x": ge.rec(hlo.x),
              "axes": sorted(int(a) for a in hlo.axes)}
    elif isinstance(hlo, r.ZerosLikeOp):
        ge.rec(hlo.x)
        nd = {"kind": "full", "fill": {"c": export.const(0)}}
    else:
        raise MachineryError(f"unknown HighLevelOp {type(hlo).__name__}")
    nd["shape"] = [int(s) for s in il.shape]
    nd["dtype"] = export.dt(il.dtype)
    ge.nodes.append(nd)
    gb = {"nodes": ge.nodes, "funcs": ge.funcs,
          "outs": [{"name": "out", "node": len(ge.nodes)}]}
    ga, ia = export.export_graph({"out": il})
    ia.update(ge.inputs)
    vals = export.make_valuations(ia, 2, vals_rng)
    return {"id": rid, "rel": "eq", "a": ga, "b": gb, "vals": vals, "nocast": True,
            "hlo": type(hlo).__name__}


def numpy_result_dtype(hlo: Any) -> Any:
    """dtype NumPy gives when the value-moving high-level ops are applied to
    the identified operands (None for arithmetic ops, whose promotion is
    C03's business)."""
    import pytato as pt
    from pytato import raising as r
    if isinstance(hlo, r.BroadcastOp):
        return np.dtype(hlo.x.dtype)
    if isinstance(hlo, r.WhereOp):
        ops = [o for o in (hlo.then, hlo.else_) if isinstance(o, pt.Array)]
        if len(ops) == 2:
            return np.result_type(ops[0].dtype, ops[1].dtype)
    return None


def _lossy_operand_casts(il: Any) -> list[str]:
    """casts TypeCast(t, <subscript of binding b>) with b.dtype not safely castable to t"""
    import pymbolic.primitives as p

    from pytato.scalar_expr import IdentityMapper, TypeCast
    found: list[str] = []

    class Scan(IdentityMapper):
        def map_type_cast(self, expr: Any) -> Any:
            inner = expr.inner_expr
            name = inner.aggregate.name if isinstance(inner, p.Subscript) and isinstance(
                inner.aggregate, p.Variable) else inner.name if isinstance(
                    inner, p.Variable) else None
            if name in il.bindings and not np.can_cast(il.bindings[name].dtype, expr.dtype,
                                                       "safe"):
                found.append(f"{name}:{il.bindings[name].dtype}->{expr.dtype}")
            return TypeCast(expr.dtype, self.rec(inner))
    try:
        Scan()(il.expr)
    except Exception:      # noqa: BLE001
        return []
    return found


def classify(il: Any) -> tuple[str, Any]:
    from pytato.diagnostic import UnknownIndexLambdaExpr
    from pytato.raising import index_lambda_to_high_level_op
    try:
        return "hlo", index_lambda_to_high_level_op(il)
    except UnknownIndexLambdaExpr:
        return "unknown", None
    except NotImplementedError as ex:
        return "notimpl", ex
    except Exception as ex:      # noqa: BLE001
        return "raised", ex


def main(tier: str, only: list[dict] | None = None) -> int:
    import pytato as pt
    run = Run(PROP, tier, "model_checking")
    rng = np.random.default_rng(seed())
    progs = only if only is not None else api_programs(tier)
    records: list[dict] = []
    meta: dict[str, dict] = {}
    counts = {"api": 0, "near_miss": 0, "hlo": 0, "unknown": 0, "notimpl": 0,
              "pytato_rejects": 0}
    hlo_kinds: dict[str, int] = {}

    def handle(rid: str, il: Any, family: str, prog: dict, variant: str) -> None:
        verdict, res = classify(il)
        op = prog["calls"][0]["op"]
        if verdict == "raised":
            run.violation(rid, f"index_lambda_to_high_level_op raised "
                               f"{type(res).__name__}: {res} for {rid} "
                               f"(expr {il.expr})",
                          record={"prog": prog, "variant": variant},
                          sig={"op": op, "family": family, "variant": variant,
                               "clause": "raised:" + type(res).__name__})
            return
        counts[verdict] += 1
        if verdict == "unknown":
            if family == "api" and op not in OPTIONAL:
                run.violation(rid, f"an index lambda produced by the public API is not "
                                   f"recognised: {rid} (expr {il.expr})",
                              record={"prog": prog, "variant": variant},
                              sig={"op": op, "family": family, "clause": "unrecognised"})
            return
        if verdict == "notimpl":
            return
        try:
            rec = hlo_record(rid, il, res, rng)
        except export.Unsupported as ex:
            run.add("unsupported_export")
            run.coverage.setdefault("unsupported_reasons", {})[str(ex)] = 1
            return
        # A value-moving operation (broadcast, where, fill) applied with NumPy yields
        # the operands' own dtype; the index lambda must be able to hold that exactly,
        # otherwise it is not that operation (it also casts, and the cast can change
        # values): e.g. x.astype(int8) is not broadcast_to(x).
        npd = numpy_result_dtype(res)
        if npd is not None and not np.can_cast(npd, il.dtype, "safe"):
            run.violation(rid + "|dtype",
                          f"{rid}: index lambda `{il.expr}` of dtype {il.dtype} was raised to "
                          f"{type(res).__name__}, whose NumPy result has dtype {npd}: the "
                          f"lambda's narrowing cast is lost",
                          record={"prog": prog, "variant": variant},
                          sig={"op": op, "family": family, "variant": variant,
                               "clause": "lossy_cast_dropped", "hlo": type(res).__name__})
        # ... and the same for a cast of an OPERAND inside the operation: raising drops
        # every cast, so a cast that the operand's dtype does not survive unchanged
        # (cast(int8, a[_0]) + b[_0]) makes the lambda something else than the operation
        lossy = _lossy_operand_casts(il)
        if lossy:
            run.violation(rid + "|operand_cast",
                          f"{rid}: index lambda `{il.expr}` was raised to "
                          f"{type(res).__name__} although it casts operand(s) {lossy} to a "
                          f"dtype that cannot hold them: the narrowing cast is lost",
                          record={"prog": prog, "variant": variant},
                          sig={"op": op, "family": family, "variant": variant,
                               "clause": "lossy_operand_cast_dropped",
                               "hlo": type(res).__name__})
        hlo_kinds[rec["hlo"]] = hlo_kinds.get(rec["hlo"], 0) + 1
        records.append(rec)
        meta[rid] = {"prog": prog, "variant": variant, "family": family, "op": op,
                     "hlo": repr(res)[:300], "expr": str(il.expr)}

    for prog in progs:
        pb = rp.PtBackend()
        pb.run(prog)
        if pb.rejections:
            counts["pytato_rejects"] += 1
            run.coverage.setdefault("rejected", []).append(
                prog["id"] + ": " + str(next(iter(pb.rejections.values())))[:80])
            continue
        il = pb.outs()["out"]
        if not isinstance(il, pt.IndexLambda):
            continue
        counts["api"] += 1
        handle(prog["id"], il, "api", prog, "")
        if prog.get("variant"):            # replay of one near-miss
            wanted = prog["variant"]
        else:
            wanted = None
        for name, nm in near_misses(il):
            if wanted and name != wanted:
                continue
            counts["near_miss"] += 1
            handle(f"{prog['id']}~{name}", nm, "near_miss", prog, name)

    val = tlc.validate_records("PtCheck", "PtCheck.cfg", records, timeout=1500)
    ill_formed = 0
    for rec in records:
        v = val.verdicts[rec["id"]]
        m = meta[rec["id"]]
        if v == "ok":
            continue
        if v == "poison_a" and m["family"] == "near_miss":
            ill_formed += 1          # the derived index lambda reads out of bounds
            continue
        run.violation(rec["id"],
                      f"{rec['id']}: index lambda `{m['expr']}` was raised to {m['hlo']} "
                      f"but the two differ (clause {v})",
                      record={"prog": m["prog"], "variant": m["variant"]}, observed=v,
                      sig={"op": m["op"], "family": m["family"], "variant": m["variant"],
                           "clause": v, "hlo": rec["hlo"]})
    run.coverage.update({
        "states": val.states, "transitions": val.transitions,
        "traces_validated_against_impl": len(records),
        "evaluations": counts["api"] + counts["near_miss"],
        "distinct_nontrivial": len(records),
        "rule": "one index lambda per API call instance plus its derived near-misses; "
                "non-trivial = classified as a high-level op (so that soundness is "
                "actually evaluated by TLC)",
        "counts": counts, "hlo_kinds": hlo_kinds, "ill_formed_near_misses": ill_formed,
        "exhaustive": False,
    })
    for rec in records[:3]:
        run.sample({"id": rec["id"], **{k: meta[rec["id"]][k] for k in ("expr", "hlo")},
                    "verdict": val.verdicts[rec["id"]]})
    run.assumptions += [
        "type casts are stripped on both sides (raising drops them by design)",
        "uninterpreted functions / GF(10007) arithmetic under 2 injective valuations",
    ]
    return run.finish()


def replay(rep: dict) -> int:
    prog = dict(rep["record"]["prog"])
    if rep["record"].get("variant"):
        prog["variant"] = rep["record"]["variant"]
    return main("quick", only=[prog])


def selftest(tier: str) -> int:
    """Swap the operands of a recorded BinaryOp(SUB) and require rejection."""
    import copy
    prog = {"id": "sub/st", "inputs": [inp("x", (3,)), inp("y", (3,))],
            "calls": [{"op": "sub", "a": 1, "b": 2}], "outs": {"out": 3}}
    pb = rp.PtBackend()
    pb.run(prog)
    il = pb.outs()["out"]
    _, hlo = classify(il)
    rec = hlo_record("good", il, hlo, np.random.default_rng(0))
    bad = copy.deepcopy(rec)
    bad["id"] = "corrupted"
    nd = bad["b"]["nodes"][-1]
    nd["x1"], nd["x2"] = nd["x2"], nd["x1"]
    val = tlc.validate_records("PtCheck", "PtCheck.cfg", [rec, bad], shards=1)
    ok = val.verdicts["good"] == "ok" and val.verdicts["corrupted"] == "value"
    print("selftest", "passed" if ok else "FAILED", val.verdicts)
    return 0 if ok else 2
