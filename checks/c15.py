"""C15 -- names in generated code are faithful, unique and collision-free.

G: spec/PtNames.tla (configs PtNamesGen*) enumerates adversarial NAMINGS of
   program templates -- user names drawn from {x, y, out, x_dim0, out_dim0,
   _pt_temp, acc_x, x_0} (and, in a second family, from the reserved region
   _pt_data, _pt_data_0, _pt_temp_0, _pt_in, _in0, _r0) placed on two inputs,
   two output keys and an optional Named tag -- together with the verdict the
   property demands (reject: two distinct entities share a user name).
E: each naming is replayed through the real generate_loopy (templates with
   two unnamed data wrappers, a stored intermediate, a reduction, an output
   that is an input) and the kernel is executed; the harness exports every
   identifier of the kernel with what it stands for (arguments, output
   arguments, temporaries, inames, substitution rules, bound_arguments keys,
   result keys) and TLC (PtNames!Clause) checks Faithful, Injective,
   GeneratedAreReserved, ClashRejected, DataHandedBack and that the values
   equal NumPy's (a silent merge of two arguments shows there).
"""
from __future__ import annotations

import json
import multiprocessing as mp
import re
from typing import Any

import numpy as np

from ptverif import tlc
from ptverif.common import NCPU, MachineryError, Run, robust_map, seed

PROP = "C15"

RESERVED_POOL = ["_pt_data", "_pt_data_0", "_pt_temp_0", "_pt_in", "_in0", "_r0", "x"]


def namings(tier: str) -> list[dict]:
    out = []
    for cfg, template in [("PtNamesGen.cfg", "T00"), ("PtNamesGenB.cfg", "T01")]:
        res = tlc.run_tlc("PtNames", cfg, workers=1, timeout=600)
        if res.error:
            raise MachineryError(f"PtNames generator: {res.error[:500]}")
        for n in tlc.parse_printed_json(res, "NAMING"):
            n["template"] = template
            n["family"] = "plain"
            out.append(n)
        gen_states = res.distinct
    # reserved-region names: expectation "either" unless two entities clash
    import itertools
    for a, b, o1, o2, nm in itertools.product(RESERVED_POOL, RESERVED_POOL,
                                              ["out", "_pt_data", "_pt_out"],
                                              ["res", "_pt_temp_0"], ["-", "_pt_temp", "_pt_data"]):
        clash = (a == b or o1 in (a, b) or o2 in (a, b) or nm in (a, b, o1, o2))
        out.append({"ins": [a, b], "outs": [o1, o2], "named": nm, "template": "T00",
                    "family": "reserved", "expect": "reject" if clash else "either"})
    res = tlc.run_tlc("PtNamesDW", "PtNamesDW.cfg", workers=1, timeout=600)
    if res.error:
        raise MachineryError(f"PtNamesDW generator: {res.error[:500]}")
    for n in tlc.parse_printed_json(res, "NAMING"):
        n["template"] = "DW"
        n["family"] = "wrapped_data"
        n["named"] = "-"
        out.append(n)
    gen_states += res.distinct
    res = tlc.run_tlc("PtNamesSP", "PtNamesSP.cfg", workers=1, timeout=600)
    if res.error:
        raise MachineryError(f"PtNamesSP generator: {res.error[:500]}")
    for n in tlc.parse_printed_json(res, "NAMING"):
        n["template"] = "SP"
        n["family"] = "size_param"
        n["named"] = "-"
        out.append(n)
    gen_states += res.distinct
    # two wrappers, possibly around ONE data object (small family: taken whole)
    res = tlc.run_tlc("PtNamesDW2", "PtNamesDW2.cfg", workers=1, timeout=600)
    if res.error:
        raise MachineryError(f"PtNamesDW2 generator: {res.error[:500]}")
    for n in tlc.parse_printed_json(res, "NAMING"):
        n["template"] = "DW2"
        n["family"] = "two_wrappers"
        n["named"] = "-"
        out.append(n)
    gen_states += res.distinct
    for k, n in enumerate(out):
        n["id"] = f"n{k}"
    rng = np.random.default_rng(seed())
    want = 900 if tier == "quick" else 12000
    plain = [n for n in out if n["family"] == "plain"]
    resv = [n for n in out if n["family"] == "reserved"]
    # stratify: rejects are the majority of the raw space; keep the accepts
    acc = [n for n in plain if n["expect"] in ("accept", "either")]
    rej = [n for n in plain if n["expect"] == "reject"]
    pick = lambda seq, k: [seq[i] for i in sorted(rng.permutation(len(seq))[:k])]  # noqa: E731
    dwf = [n for n in out if n["family"] == "wrapped_data"]
    spf = [n for n in out if n["family"] == "size_param"]
    dw2 = [n for n in out if n["family"] == "two_wrappers"]
    sel = spf + dw2 + (pick(acc, want * 4 // 10) + pick(rej, want * 1 // 10) + pick(resv, want * 2 // 10)
           + pick(dwf, want * 3 // 10))
    # ONE array under TWO output keys (a computed array: T02, an input: T03), and a
    # third reader of it: each key must still appear
    twice = []
    for n in pick([n for n in acc if n["outs"][0] != n["outs"][1] and n["template"] == "T00"],
                  want // 10):
        for t in ("T02", "T03"):
            twice.append({**n, "template": t, "id": n["id"] + t, "family": "same_array_twice"})
    # a stored intermediate tagged PrefixNamed(p) with p the name of an OUTPUT (stored
    # later), of an input, or the stem of an iname: the temporary gets a name DERIVED from
    # p that clashes with nothing, and the naming is accepted (output names are reserved
    # before any temporary is named)
    pref = []
    for n in pick([n for n in acc if n["template"] == "T00" and n["named"] == "-"
                   and n["expect"] == "accept"], want // 20):
        for which, pname in (("o0", n["outs"][0]), ("o1", n["outs"][1]), ("i0", n["ins"][0]),
                             ("dim", n["outs"][1] + "_dim0")):
            pref.append({**n, "template": "T00P", "prefix_temp": pname,
                         "id": f"{n['id']}P{which}", "family": "prefix_on_temporary"})
    # an INPUT that carries ImplStored (a no-op on an input), is itself an output and is
    # read by another output: still ONE argument of that name
    stin = []
    for n in pick([n for n in acc if n["template"] == "T01" and n["expect"] == "accept"],
                  want // 20):
        for t in ("T01", "T03"):
            stin.append({**n, "template": t, "stored_input": True, "id": f"{n['id']}S{t}",
                         "family": "stored_input_output"})
    # TRAVERSAL ORDER: the same wrapped-data namings with the wrapper reached BEFORE the named
    # input (bindings are visited in sorted order: `D + a*2` instead of `a*2 + D`) -- names
    # the user chose are reserved before any name is generated, whatever comes first
    wfirst = [{**n, "wfirst": True, "id": n["id"] + "W", "family": "wrapper_before_input"}
              for n in sel if n.get("family") == "wrapped_data"
              and (n.get("kind") == "prefix" or n["ins"][0].startswith("_pt_"))]
    return sel + twice + pref + stin + wfirst, gen_states, len(out)


def build_template(n: dict) -> tuple[Any, dict, dict]:
    import pytato as pt
    from pytato.tags import ImplStored, Named, PrefixNamed
    if n["template"] == "SP":
        p = pt.make_size_param(n["sp"])
        a = pt.make_placeholder("x", (p,), np.float64)

        def ref_sp(av: np.ndarray, bv: np.ndarray) -> dict:
            return {n["outs"][0]: av * av.shape[0] + 1}
        return {n["outs"][0]: a * p + 1}, {}, {"ref": ref_sp}
    if n["template"] == "DW2":
        a = pt.make_placeholder(n["ins"][0], (3,), np.float64)
        d1 = np.array([1.0, 2.0, 3.0])
        d2 = d1 if n["same"] else np.array([10.0, 20.0, 30.0])
        ws = []
        for w, d in enumerate((d1, d2)):
            W = pt.make_data_wrapper(d)
            if n["kinds"][w] == "named":
                W = W.tagged(Named(n["dws"][w]))
            elif n["kinds"][w] == "prefix":
                W = W.tagged(PrefixNamed(n["dws"][w]))
            ws.append(W)

        def ref2(av: np.ndarray, bv: np.ndarray) -> dict:
            return {n["outs"][0]: (av * 2 - d1) * d2}
        return ({n["outs"][0]: (a * 2 - ws[0]) * ws[1]},
                {"d1": d1} if n["same"] else {"d1": d1, "d2": d2}, {"ref": ref2})
    if n["template"] == "DW":
        a = pt.make_placeholder(n["ins"][0], (3,), np.float64)
        d1 = np.array([1.0, 2.0, 3.0])
        d2 = np.array([10.0, 20.0, 30.0])
        D = pt.make_data_wrapper(d1)
        if n["kind"] == "named":
            D = D.tagged(Named(n["dw"]))
        elif n["kind"] == "prefix":
            D = D.tagged(PrefixNamed(n["dw"]))
        wrapped = {"d1": d1}
        expr = D + a * 2 if n.get("wfirst") else a * 2 + D
        if n["ndw"] == 2:
            expr = expr + pt.make_data_wrapper(d2) * 3
            wrapped["d2"] = d2

        def ref1(av: np.ndarray, bv: np.ndarray) -> dict:
            return {n["outs"][0]: av * 2 + d1 + (d2 * 3 if n["ndw"] == 2 else 0)}
        return {n["outs"][0]: expr}, wrapped, {"ref": ref1}
    a = pt.make_placeholder(n["ins"][0], (3,), np.float64)
    if n.get("stored_input"):
        a = a.tagged(ImplStored())
    # (float32: two placeholders of one name must be DISTINCT inputs, not equal nodes)
    b = pt.make_placeholder(n["ins"][1], (3,), np.float32)
    d1 = np.array([1.0, 2.0, 3.0])
    d2 = np.array([10.0, 20.0, 30.0])
    D = pt.make_data_wrapper(d1)
    E = pt.make_data_wrapper(d2)
    tags: tuple = (ImplStored(),)
    if n["named"] != "-":
        tags = (ImplStored(), Named(n["named"]))
    if n.get("prefix_temp"):
        tags = (ImplStored(), PrefixNamed(n["prefix_temp"]))
    m = (a * b + D).tagged(tags)
    o1 = pt.sum(m) + pt.sum(E)
    o2 = a if n["template"] in ("T01", "T03") else m * 2 + E
    if n["template"] in ("T02", "T03"):
        o1 = o2                  # the SAME array object under both keys
    outs = {n["outs"][0]: o1, n["outs"][1]: o2}
    if n["template"] in ("T02", "T03"):
        outs["zz_third"] = o2 * 3 + pt.sum(m) + pt.sum(E)
    wrapped = {"d1": d1, "d2": d2}

    def ref(av: np.ndarray, bv: np.ndarray) -> dict:
        mm = av * bv + d1
        r2 = av if n["template"] in ("T01", "T03") else mm * 2 + d2
        r = {n["outs"][0]: mm.sum() + d2.sum(), n["outs"][1]: r2}
        if n["template"] in ("T02", "T03"):
            r[n["outs"][0]] = r2
            r["zz_third"] = r2 * 3 + mm.sum() + d2.sum()
        return r
    return outs, wrapped, {"ref": ref}


def observe(n: dict) -> dict:
    import pytato as pt

    from ptverif import cexec
    rec: dict[str, Any] = {"id": n["id"], "expect": n["expect"], "family": n["family"],
                           "naming": {k: n[k] for k in ("ins", "outs", "named", "template",
                                                        "kind", "dw", "ndw", "sp", "kinds",
                                                        "dws", "same", "prefix_temp", "wfirst")
                                      if k in n}}
    try:
        outs, wrapped, aux = build_template(n)
    except Exception as ex:      # noqa: BLE001
        rec.update({"verdict": "rejected", "exc": type(ex).__name__, "stage": "construction"})
        return rec
    before = {k: v.tobytes() for k, v in wrapped.items()}
    try:
        bp = cexec.generate(pt.make_dict_of_named_arrays(outs))
    except Exception as ex:      # noqa: BLE001
        rec.update({"verdict": "rejected", "exc": type(ex).__name__, "stage": "generation",
                    "msg": str(ex)[:200]})
        return rec
    knl = bp.program.default_entrypoint
    args = [a.name for a in knl.args]
    out_args = [a.name for a in knl.args if getattr(a, "is_output", False)]
    temps = sorted(knl.temporary_variables)
    user = set(n["ins"]) | set(n["outs"]) | set(outs) | ({n["sp"]} if "sp" in n else set()) | (
        {n["named"]} - {"-"}) | (
        {n["dw"]} if n.get("kind") == "named" else set()) | (
        {d for k, d in zip(n["kinds"], n["dws"]) if k == "named"} if "kinds" in n else set())
    prefixes = [n["prefix_temp"]] if n.get("prefix_temp") else \
        [n["dw"]] if n.get("kind") == "prefix" else \
        [d for k, d in zip(n.get("kinds", ()), n.get("dws", ())) if k == "prefix"]
    rng = np.random.default_rng(abs(hash(n["id"])) % (2 ** 31))
    av, bv = rng.standard_normal(3), rng.standard_normal(3).astype(np.float32)
    if n["template"] == "SP":
        av = rng.standard_normal(4)
    values_ok, result_keys = True, []
    try:
        kw = {}
        if n["ins"][0] in knl.arg_dict:
            kw[n["ins"][0]] = av
        if len(n["ins"]) > 1 and n["ins"][1] in knl.arg_dict:
            kw[n["ins"][1]] = bv
        got = bp(**kw)
        ref = aux["ref"](av, bv)
        result_keys = sorted(k for k in got if k not in bp.lifted)
        for k, v in ref.items():
            if k not in got or not np.allclose(got[k], v, rtol=1e-6, atol=1e-6):
                values_ok = False
    except Exception as ex:      # noqa: BLE001
        # generation ACCEPTED the naming; a failure only when the kernel is run
        # is not a rejection: judge the identifiers, and the values as wrong
        values_ok = False
        result_keys = sorted(n["outs"])
        rec["exec_error"] = f"{type(ex).__name__}: {ex}"[:200]
    bound = dict(bp.bound_arguments)
    data_identical = (
        all(any(v is w for w in wrapped.values()) for v in bound.values())
        and all(any(v is w for v in bound.values()) for w in wrapped.values())
        and all(w.tobytes() == before[k] for k, w in wrapped.items()))
    rec.update({
        "verdict": "accepted", "args": args, "out_args": out_args, "temps": temps,
        "inames": sorted(knl.all_inames()), "substs": sorted(knl.substitutions),
        "input_names": sorted(set(n["ins"]) | ({n["sp"]} if "sp" in n else set())),
        "out_keys": sorted(set(n["outs"]) | ({"zz_third"} if n["template"] in ("T02", "T03")
                                             else set())),
        "result_keys": result_keys,
        "named_honoured": ([n["named"]] if n["named"] != "-" else [])
        + ([n["dw"]] if n.get("kind") == "named" else [])
        + [d for k, d in zip(n.get("kinds", ()), n.get("dws", ())) if k == "named"],
        "prefix": n["dw"] if n.get("kind") == "prefix" else "",
        # (a PrefixNamed name is derived by the name generator from the prefix; when
        # the prefix itself ends in _<k>, the counter is incremented: x_0 -> x_1)
        "generated": [{"name": x, "reserved": x.startswith("_pt_") or any(
            x.startswith(re.sub(r"_[0-9]+$", "", p)) for p in prefixes)}
                      for x in args + temps if x not in user],
        # (every DataWrapper NODE is an entity with an argument of its own, also when
        # two of them wrap one object)
        "bound_keys": sorted(bound), "n_wrapped": 2 if n["template"] == "DW2" else len(wrapped),
        "data_identical": bool(data_identical), "values_ok": bool(values_ok)})
    return rec


def _observe_many(ns: list[dict]) -> list[dict]:
    return [observe(n) for n in ns]


def main(tier: str, only: list[dict] | None = None) -> int:
    run = Run(PROP, tier, "model_checking")
    if only is not None:
        sel, gen_states, total = only, 0, len(only)
    else:
        sel, gen_states, total = namings(tier)
    recs = robust_map(_observe_many, sel, crashed=lambda n, why: {
        "id": n["id"], "expect": n["expect"], "family": n["family"], "verdict": "accepted",
        "naming": {k: n[k] for k in ("ins", "outs", "named", "template") if k in n},
        "args": [], "out_args": [], "temps": [], "inames": [], "substs": [],
        "input_names": [], "out_keys": [], "result_keys": [], "named_honoured": [],
        "generated": [], "bound_keys": [], "n_wrapped": 0, "data_identical": True,
        "values_ok": False, "exec_error": why})
    by_id = {n["id"]: n for n in sel}
    # the "either" expectation of the reserved family: judged as accept when
    # accepted (all invariants except Faithful-by-name still apply), ok when rejected
    for r in recs:
        if r["expect"] == "either":
            r["expect"] = "accept" if r["verdict"] == "accepted" else "reject"
    val = tlc.validate_records("PtNames", "PtNamesCheck.cfg", recs, timeout=900)
    stats = {"accepted": 0, "rejected": 0}
    exc: dict[str, int] = {}
    for r in recs:
        stats[r["verdict"]] += 1
        if r["verdict"] == "rejected":
            exc[r["exc"]] = exc.get(r["exc"], 0) + 1
        n = by_id[r["id"]]
        v = val.verdicts[r["id"]]
        # two distinct inputs of one name: the documented diagnostic
        if v == "ok" and r["verdict"] == "rejected" and len(n["ins"]) > 1 \
                and n["ins"][0] == n["ins"][1] \
                and r["exc"] != "NameClashError":
            v = "same_input_name_not_a_NameClashError"
        if v != "ok":
            run.violation(r["id"] + "|" + json.dumps(r["naming"], sort_keys=True),
                          f"naming {r['naming']} (expect {n['expect']}): {v}"
                          + (f" [{r.get('exc')}: {r.get('msg', '')}]"
                             if r["verdict"] == "rejected" else
                             f" args={r.get('args')} temps={r.get('temps')} "
                             f"bound={r.get('bound_keys')}"),
                          record=n, observed=r,
                          sig={"clause": v, "family": n["family"], "dw_kind": n.get("kind", ""),
                               "reserved_input": sorted(x for x in n["ins"]
                                                        if x.startswith("_pt_")),
                               "exc": r.get("exc", "")})
    run.coverage.update({
        "states": val.states + gen_states, "transitions": val.transitions,
        "traces_validated_against_impl": len(recs),
        "evaluations": len(recs), "distinct_nontrivial": stats["accepted"],
        "rule": "namings enumerated by TLC (PtNames generator) + the reserved-region family; "
                "sampled (stratified accept/reject/reserved) from the enumerated space; "
                "non-trivial = accepted by generate_loopy, so that the identifier assignment "
                "is actually judged",
        "namings_enumerated": total, "verdicts": stats, "rejections_by_exception": exc,
        "exhaustive": False,
    })
    for r in recs[:3]:
        run.sample({k2: r.get(k2) for k2 in ("naming", "expect", "verdict", "args", "temps",
                                             "inames", "bound_keys")})
    run.assumptions += ["whether a name lies in the reserved _pt_ region is a lexical fact "
                        "computed by the harness", "loopy C target executes the kernel"]
    return run.finish()


def replay(rep: dict) -> int:
    return main("quick", only=[rep["record"]])


def selftest(tier: str) -> int:
    n = {"id": "st", "ins": ["x", "y"], "outs": ["out", "res"], "named": "-",
         "template": "T00", "family": "plain", "expect": "accept"}
    good = observe(n)
    bad = dict(good, id="corrupted", args=[*good["args"][:-1], good["args"][0]])
    val = tlc.validate_records("PtNames", "PtNamesCheck.cfg", [good, bad], shards=1)
    ok = val.verdicts["st"] == "ok" and val.verdicts["corrupted"] == "duplicate_identifier"
    print("selftest", "passed" if ok else "FAILED", val.verdicts)
    return 0 if ok else 2
