#!/venv/bin/python
"""Regenerates /verif/MANIFEST.json from the table below (single source of
truth for the registered checks).  Run after adding or changing a check."""
from __future__ import annotations

import json
import os

HERE = os.path.dirname(os.path.abspath(__file__))
VERIF = os.path.dirname(HERE)

ALL = [f"C{n:02d}" for n in range(1, 21)]

# id -> (level category, level text, level note, technique, design ref)
CHECKS: dict[str, tuple[str, str, str, str, str]] = {
    "C01": (
        "exploration",
        "Seeded random DAG programs over the whole operation alphabet (sharing, 1..3 outputs, "
        "outputs that are inputs, zero-size arrays, scalars, six dtypes) and systematic single "
        "operations are replayed through the public API, deduplicated, compiled by the real "
        "generate_loopy with a harness-side C target + gcc and EXECUTED on 2-3 input valuations "
        "(normal, injective, NaN/inf for the NaN-aware fragment); every output is compared "
        "with the NumPy mirror: declared shape/dtype, exact values for integer/boolean, "
        "scale-aware tolerance otherwise; any exception in generation/scheduling/compilation "
        "is a violation; outputs are also supplied in reversed order. In addition every "
        "generated kernel's instruction/dependency structure is model-checked by TLC "
        "(spec/PtKernel.tla) under ALL instruction orders its depends_on edges allow. "
        "Calls to hand-written loopy kernels (six kernels with their NumPy meaning, static "
        "shapes, one or several results, chained calls, scalar arguments from 0-d values) and "
        "every ordered pair of remapping operations are part of the program space; every "
        "program with a reduction also runs with reductions INLINED (harness decides "
        "quasi-affinity, see note).",
        "Floating-point values are sampled (the textbook wrong target for TLC); the array-level "
        "semantics is decided symbolically elsewhere (C02/C05). Trusted: NumPy, gcc, loopy's "
        "scheduling and C code generation, the harness shims in ptverif/cexec.py. The kernel "
        "model is at variable granularity. In this sandbox loopy's affine conversion fails on "
        "every expression, so pytato's is_quasi_affine is constantly False and reductions are "
        "always force-stored; cexec's qa_shim restores the decision so that both code paths "
        "run. Shape inference for size parameters of CALLEE kernels is not exercised (islpy "
        "here lacks dim_max).",
        "differential execution of generated C code against NumPy over generated programs + "
        "TLC model checking of every generated kernel's dependency graph (PtKernel) over all "
        "admissible instruction orders",
        "DESIGN.md section 4 C01"),
    "C02": (
        "model_checking",
        "Every instance of the bounded parameter scope of each high-level node kind is "
        "built through the public API, lowered by the real to_index_lambda, and the "
        "returned IndexLambda is evaluated by TLC with the specification's index-lambda "
        "semantics (PtSem!Ev) against the specification-level meaning of the operation and "
        "against the node's own fields, under injective valuations that decide pure index "
        "remapping for all inputs; NumPy on the same token arrays is the third voice. "
        "Exhaustive over slices/int indices and reshapes in the stated scope (thorough tier).",
        "Trusted: TLC, the JSON exporter (reflective, independent of pytato's mappers), "
        "NumPy as reference for the specification itself. Arithmetic nodes (einsum, CSR) are "
        "decided up to Schwartz-Zippel error <= deg/10007 per valuation.",
        "TLA+ denotational spec (PtSem) evaluated by TLC on index lambdas exported from the "
        "real lowering (artefact validation), exhaustive bounded enumeration",
        "DESIGN.md section 4 C02"),
    "C03": (
        "model_checking",
        "The full product of the property's quantifier (17 binary operators, where, unary "
        "functions, astype, reductions, stack/concatenate/roll/transpose/expand_dims/squeeze/"
        "reshape/matmul/broadcast_to x operand kinds array / Python scalar / NumPy scalar x all "
        "pairs of 13 dtypes; all shape pairs with 0..3 axes of length 0..4; every int index and "
        "slice on axis lengths 0..6; every axis argument in [-ndim-2, ndim+2]; reshape targets "
        "with -1) is performed on pytato and on NumPy, and each recorded call is judged by TLC "
        "against the specification's own inference rules (PtInfer/PtCore: NEP 50 promotion, "
        "broadcasting, CPython slice arithmetic): three voices, spec != NumPy is a machinery "
        "failure. Exhaustive over the stated product in the thorough tier.",
        "Trusted: TLC, the installed NumPy 2.x as the reference. pytato rejecting more than "
        "NumPy (documented restrictions such as negative axes) constrains nothing. Every "
        "intermediate node: each call of seeded random multi-call programs is judged the same "
        "way (calls whose operands already diverge upstream are not compared again).",
        "TLA+ inference rules (PtInfer) evaluated by TLC on recorded (pytato, NumPy) call "
        "results; exhaustive bounded enumeration of the call product",
        "DESIGN.md section 4 C03"),
    "C04": (
        "model_checking",
        "TLC enumerates (PtEqGen) every concrete node class (27, cross-checked reflectively "
        "against dataclasses.fields at run time) x every dataclass field x contexts (the node "
        "itself, under every edge kind, under nested edge pairs) with the members base / "
        "independently rebuilt / foreign / pickled here and by a process with another hash seed "
        "/ mapping fields in another insertion order / exactly one field changed; a pool of "
        "interpreter processes with different PYTHONHASHSEED builds them on the real classes and "
        "records ==, !=, hash, set and dict membership and cached hashes after unpickling; TLC "
        "(PtEqCheck) computes structural equality from the reflective export of the real objects "
        "and judges EqIsStructEq, symmetry, transitivity over all triples, EqualImpliesSameHash "
        "per process, NoHashCacheAfterUnpickle. Life-cycle behaviours (PtEqLife: "
        "Build/Mutate1/Hash/Pickle/Unpickle(proc), model-checked, exhaustive to 4/5 "
        "state-changing events) are replayed across processes and validated as traces; the "
        "memoised comparison is model-checked as a state machine (PtEqMemo) and real comparer "
        "traces are judged by its clauses.",
        "Hash seeds are sampled (4 quick / 16 thorough). Trusted: TLC, the reflective exporter, "
        "loopy's persistent key as the identity of a translation unit. DataWrapper: the "
        "specification compares wrapped data by identity of the data object. Contexts are "
        "bounded to depth 2.",
        "TLA+ specification of structural equality and of the hash/pickle life cycle; TLC as "
        "generator, as model checker of the life-cycle and memo state machines, and as evaluator "
        "of verdict matrices and traces recorded from real processes",
        "DESIGN.md section 4 C04; notes/eq.md"),
    "C05": (
        "model_checking",
        "Seeded random DAG programs (sharing, structural duplicates, near-duplicates differing "
        "in one parameter, zeros_like/ones_like references, multi-output dictionaries, tags, "
        "data wrappers sharing a buffer) are transformed by the real code (copy mapper, "
        "map_and_copy(identity), deduplicate, deduplicate_data_wrappers, eliminate_dead_code, "
        "materialize_with_mpms, unify_axes_tags, code-generation preprocessing), singly and in "
        "pipelines of <= 4; the exported before/after graphs are judged by TLC: same output "
        "names/shapes/dtypes(/axes/tags) and equal values under PtSem for every valuation, "
        "plus the structural post-conditions (no duplicates after deduplicate, no zero() call "
        "after DCE, only tags differ after the tag-adding steps, all nodes lowered after "
        "preprocessing, idempotence) via hash-consing classes computed by TLC. The harness "
        "compares a reflective structural snapshot of the input and the bytes of wrapped data "
        "before/after every step. Graphs with traced function calls go through the "
        "transformations that support them; a directed family whose value at NON-FINITE inputs "
        "differs from exact algebra (0*inf, x-x, x/x) is additionally EXECUTED (generated C "
        "code) before/after each transformation on inputs with inf / NaN / signed zeros; "
        "compute_order of preprocess must be a permutation of the output names.",
        "Trusted: TLC, the reflective exporter. Values are exact in GF(10007) with "
        "uninterpreted functions under 2 injective valuations (Schwartz-Zippel for arithmetic "
        "identities). Programs are sampled (not exhaustive); symbolic shapes and loopy calls "
        "are outside PtSem.",
        "TLA+ denotational spec (PtSem) + structural relations (PtCheck) evaluated by TLC on "
        "graphs exported before/after the real transformations (artefact validation)",
        "DESIGN.md section 4 C05"),
    "C06": (
        "model_checking",
        "Design level: PtDistLaw.tla model-checks the rule (x+y, x-y, c*x, x*c, x/c may be "
        "pushed through an einsum; c/x, x**c, f(x), x*y, broadcasting sums may not) "
        "exhaustively over GF(5)/GF(7). Implementation level: every operation form at every "
        "operand position of 8 einsum templates x inner forms plus seeded random nested trees, "
        "under EVERY distribution policy (all mixtures of distribute-operand-i / "
        "do-not-distribute per einsum), is rewritten by the real "
        "apply_distributive_property_to_einsums and rewrite_einsums_with_no_broadcasts, and "
        "TLC decides equality of original and rewritten graph under PtSem in GF(10007) at 3 "
        "valuations.",
        "Trusted: TLC, exporter. Polynomial identity testing: a false identity of degree d "
        "passes with probability <= (d/10007)^3. Documented refusals (RuntimeError for composed "
        "distribution, unraisable index lambdas) constrain nothing.",
        "TLC model checking of the distributive rule (PtDistLaw) + PtSem evaluated by TLC on "
        "real rewritten graphs over all policies (artefact validation)",
        "DESIGN.md section 4 C06"),
    "C07": (
        "exploration",
        "Programs of C01's space (biased towards reductions/einsums, plus directed shapes: a "
        "stored node used by two reductions, sum(x)+sum(x), an output read by another output) x "
        "seeded in-place assignments of {ImplStored, ImplInlined, ImplSubstitution, "
        "PrefixNamed, Named(fresh), user array/axis/reduction tags} to subsets of nodes, plus "
        "the all-tags-stripped variant: every variant is compiled by the real generate_loopy "
        "and executed; output names, shapes, dtypes must be identical to the untagged "
        "program's, values equal to NumPy's and to the untagged variant's, and code generation "
        "must not fail. Every variant's kernel is model-checked by TLC (spec/PtKernel.tla) "
        "under ALL instruction orders its depends_on edges allow.",
        "As C01: floating-point values sampled; gcc/loopy trusted. Every program with a "
        "reduction runs both with force-stored reductions (what the installed loopy leads to) "
        "and with inlined reductions (cexec qa_shim); sparse matmul with every strategy on the "
        "reduction node and tags on results of loopy calls are included.",
        "differential execution of tagged vs untagged generated code against NumPy + TLC "
        "model checking of every variant's kernel dependency graph (PtKernel)",
        "DESIGN.md section 4 C07"),
    "C08": (
        "model_checking",
        "DistExec.tla models execute_distributed_partition at the grain of its blocking MPI "
        "calls on all ranks over a model of MPI matching; its instance data are the REAL "
        "partitions of all ranks, exported after find_distributed_partition -> verify -> "
        "number_distributed_tags ran under a simulated MPI on programs that DistComm.tla "
        "enumerates (all communication structures <= 3 ranks <= 4 messages up to rank "
        "permutation, -simulate beyond, all variants) plus a library of 30 named topologies. TLC "
        "explores all schedules of every instance (crash = read before produced / after "
        "release, spin, misdelivery, wrong outputs, deadlock; liveness under weak fairness). The "
        "real executor runs under a controlled scheduler on random schedules and, for the small "
        "instances, on ALL schedules (DFS re-execution); outputs are compared with the "
        "unpartitioned global graph, every run's event trace is validated by DistTrace.tla, and "
        "the set of global states the real executor reaches must equal TLC's reachable set. "
        "Waitsome reports completed indices in varying order (ascending / descending / rotated). "
        "Time stepping: DistExecEpochs.tla (two unsynchronised consecutive executions of the "
        "same partition per rank, memoised reference counts as state) is model-checked on the "
        "real partitions under all schedules, its negative control (the executor works on the "
        "memoised object) must be reported, and the real executor runs three unsynchronised "
        "steps on ONE partition object under a random schedule.",
        "Trusted: TLC; the simulated MPI (non-overtaking per (source, tag), buffered Isend, "
        "rendezvous Wait, arbitrary non-empty Waitsome subsets), not a real MPI. In the "
        "exhaustive-schedule stages part programs are a NumPy reference evaluator of the part "
        "expressions; on a sample of the programs every part is compiled by pytato's own "
        "generate_code_for_partition (harness C target) and the real kernels run inside the "
        "real executor under random schedules, each kernel result also compared with the "
        "reference evaluation of its part. Program space beyond the exhaustive bound is "
        "sampled.",
        "TLA+ state machine of the executor model-checked by TLC on partitions exported from the "
        "real partitioner; trace validation and reachable-state-set comparison against the real "
        "executor under an exhaustive controlled scheduler",
        "DESIGN.md section 4 C08; notes/dist.md"),
    "C09": (
        "model_checking",
        "DistPartition.tla states the DistributedGraphPart contract, RoundsAgree "
        "(algorithm-free: one global round assignment that every rank's part sequence projects) "
        "and the tag-numbering rules as predicates over the partitions of ALL ranks; TLC "
        "evaluates them on every instance exported from the real partitioner (ranks as threads, "
        "and as separate processes with different hash seeds; symbolic tags of seven hashable "
        "types), names the failing clauses, and additionally model-checks every instance with "
        "DistExec. The specification's own partitioner is held to the same contract for every "
        "structure in the exhaustive bound.",
        "Artefact validation: the partitions are real, the predicates are the specification; "
        "exporter = reflective walk over dataclass fields. Hash seeds are sampled. RoundsAgree's "
        "witness construction is cross-checked against brute-force search on small instances.",
        "TLA+ predicates evaluated by TLC on exported artefacts of all ranks + model checking of "
        "the executor on them",
        "DESIGN.md section 4 C09; notes/dist.md"),
    "C10": (
        "fault_enumeration",
        "DistComm.tla injects every single fault (drop/duplicate/retag/redirect one send or one "
        "receive, self message, cycle-closing dependency) at every communication operation of "
        "every valid program in its bound, pairs on small programs and samples beyond; "
        "WellFormedInput (evaluated by TLC both on the abstract program and on the skeleton "
        "extracted from the real DAGs) decides the expected verdict; the real "
        "find_distributed_partition/verify run on all ranks under a simulated MPI with "
        "peer-raised classification; malformed => documented diagnostic on a rank showing the "
        "fault, nobody keeps a partition (otherwise DistExec model-checks what was returned); "
        "well-formed => accepted.",
        "'Affected ranks' is read as: raised on a rank whose local graph shows the fault or on "
        "the root. Faults are those expressible on single ends of messages.",
        "fault enumeration by a TLA+ generator with an executable well-formedness predicate as "
        "oracle; three-way agreement (generator, real-DAG skeleton, reference evaluator) before "
        "judging the implementation",
        "DESIGN.md section 4 C10; notes/dist.md"),
    "C11": (
        "model_checking",
        "For every kernel produced by the real generate_loopy (C01's random static programs, "
        "C16's symbolic-shape templates, directed roll/pad/concatenate/reshape/slice/einsum/"
        "stored-reduction programs) the harness exports the access model: per subscript the "
        "index expressions, the accessed array's extent, the guard context (enclosing If "
        "conditions, negated on else branches), the ISL iteration domain (reduction bounds "
        "substituted) and the size parameters. The model becomes a generated TLA+ module; for "
        "kernels with size parameters Apalache decides Init => InBounds over UNBOUNDED integers "
        "(all loop indices, all non-negative sizes) and TLC re-checks the module on a bounded "
        "range as a cross-check of the translation; static kernels have finite domains and TLC "
        "decides them completely. Data-dependent index components are skipped as documented.",
        "Trusted: Apalache 0.58 / Z3, TLC, loopy's ISL domains, the expression walker in "
        "ptverif/kernelexport.py. The kernel checked is BoundProgram.program before loopy's own "
        "preprocessing. If an Apalache batch times out the evidence says so and only the "
        "bounded result holds for it.",
        "symbolic (SMT) model checking with Apalache of a TLA+ module generated from the access "
        "model of real kernels, TLC on bounded ranges as cross-check; TLC alone for static kernels",
        "DESIGN.md section 4 C11"),
    "C12": (
        "model_checking",
        "Seeded random caller programs with 1..3 call sites (bodies: random programs over 1..4 "
        "parameters returning array / tuple / dict; positional, keyword and mixed arguments; a "
        "definition called repeatedly with different arguments; nesting depth <= 3; caller "
        "placeholders named like parameters) are replayed through the real code as (a) direct "
        "application, (b) trace_call, (c) inline_calls(tag_all_calls_to_be_inlined(b)); TLC "
        "decides on the exported graphs that (b) and (c) have the shapes, dtypes and values of "
        "(a) for every valuation (PtSem's call semantics: body evaluated under the parameter "
        "binding in its own name space) and the harness that (c) is call-free.",
        "Trusted: TLC, exporter. Values exact in GF(10007) with uninterpreted functions, 2 "
        "injective valuations. Programs are sampled, bodies have static shapes.",
        "TLA+ denotational spec with function-call semantics (PtSem) evaluated by TLC on "
        "directly applied / traced / inlined graphs exported from the real code",
        "DESIGN.md section 4 C12"),
    "C13": (
        "model_checking",
        "PtMapper.tla models CachedMapper.rec / CachedWalkMapper.rec (stack of frames, cache, "
        "first-seen result pool, per-node and per-key call counters, error flag) with actions "
        "Enter / Hit / Collide / ReturnT (replace_if_different + TransformMapperCache.add incl. "
        "the created-duplicate rule) / ReturnO; TLC model-checks OncePerKey, AllChildrenReached, "
        "SharedMapsToOne, IdentityWhenUnchanged, ResultsDeduplicated, NoMoreNodesThanGiven, "
        "CollisionReported, DuplicateReported over ALL DAG shapes with <= 4 (thorough 5) nodes, "
        "with and without structural duplicates, for transform / combine / walk x key function "
        "variants. The same module emits every shape with the model's final states; each is "
        "instantiated as real pytato DAGs so that every edge kind (operand, shape, index, CSR "
        "part, send payload, call / loopy binding, dict entry, container) occurs, every "
        "reflectively discovered mapper class (49) is run under observation (sys.setprofile on "
        "map_* frames, wrapped cache add/retrieve) and its observed final state must be one of "
        "the model's; every recorded event trace (incl. depth-60 ladders with 2^60 paths and 30 "
        "mapper-based public functions) is validated against PtMapper's actions by "
        "PtMapperTrace; nodes reached are compared with an independent reflective walk. Function "
        "definitions: PtFnCache.tla (one function cache per mapper family, shared by the "
        "clone_for_callee clones; OncePerDefinition, AllReached, Linear) is model-checked over "
        "every call DAG of <= 4 definitions, the deviation 'fresh cache per body' must be "
        "refuted, and the function-definition events of every entry point on nested / "
        "Fibonacci / diamond call DAGs and traced programs are replayed through its actions by "
        "PtFnCacheTrace.",
        "Trusted: TLC, the sys.setprofile recorder (a mapper that visits a node without rec / "
        "map_* is invisible), the reflective walk over dataclass fields. Real instances are "
        "structural (never evaluated). Some mapper classes are only observed inside their entry "
        "points (listed in the evidence).",
        "TLC model checking of a TLA+ model of cached traversal over all small DAG shapes + "
        "replay of TLC-generated shapes on real mappers + trace validation of recorded mapper "
        "events against the model's actions",
        "DESIGN.md section 4 C13; notes/mapper.md"),
    "C14": (
        "exploration",
        "Seeded random DAG programs and systematic single operations (static shapes, no sparse "
        "matmul / loopy calls) go through the real generate_numpy_like with a harness-side "
        "NumpyLikePythonTarget for real NumPy; the generated function is executed on 2-3 input "
        "valuations and every output compared with the NumPy mirror (shape, values exactly or "
        "within a scale-aware tolerance); the generated signature must take only the user's "
        "inputs and pre-bind the very objects that were wrapped; inputs must not be written; a "
        "refusal must be a not-supported error at generation, never AttributeError / NameError "
        "/ TypeError at run time. For index nodes the slice text in the generated source is "
        "extracted and TLC (PtCheck rel sliceeq over PtCore's CPython slice semantics) decides "
        "that it selects the same elements as the user's index, over the C02 slice scope.",
        "Floating-point values are sampled; real NumPy stands in for jax.numpy (absent here): "
        "generate_jax (plain and jit=True), JAXPythonTarget and the processing of bound "
        "arguments are driven on a stand-in jax package whose jax.numpy is NumPy. "
        "Trusted: NumPy, TLC for the slice relation.",
        "differential execution of generated Python code against NumPy over generated programs "
        "+ TLC validation of the re-synthesised slice text against the CPython slice semantics "
        "in PtCore",
        "DESIGN.md section 4 C14"),
    "C15": (
        "model_checking",
        "spec/PtNames.tla and PtNamesDW.tla enumerate ~67k adversarial namings of program "
        "templates (user names from {x, y, out, x_dim0, out_dim0, _pt_temp, acc_x, x_0} and "
        "from the reserved region on two inputs, two output keys, an optional Named tag, and "
        "unnamed / Named / PrefixNamed wrapped data) together with the verdict the property "
        "demands (reject / either / accept); a stratified sample is replayed through the real "
        "generate_loopy, the kernel is executed, and the harness exports every identifier with "
        "what it stands for; TLC (PtNames!Clause) checks Faithful, Injective, "
        "GeneratedAreReserved, ClashRejected, DataHandedBack and value equality with NumPy on "
        "the real assignment.",
        "Trusted: TLC, loopy C target. Whether a name lies in the reserved region is a lexical "
        "fact computed by the harness. Namings are sampled from the enumerated space in the "
        "quick tier.",
        "TLC-enumerated adversarial namings with expected verdicts (PtNames) replayed through "
        "generate_loopy; identifier assignment of the real kernel validated by TLC",
        "DESIGN.md section 4 C15"),
    "C16": (
        "exploration",
        "Design level: TLC proves (spec/PtAffine.tla) over ALL pairs of affine forms with "
        "coefficients in [-3,3] over 1 and 2 parameters that coefficient equality coincides with "
        "equality on an affinely spanning grid of non-negative valuations. Implementation: the "
        "pairs (all 2401 one-parameter pairs, sampled / all 117649 two-parameter pairs in "
        "quick / thorough, sampled three-parameter pairs, biased to near-equal forms) are built "
        "from SizeParam arithmetic, the real are_shape_components_equal and the accept/reject "
        "of broadcasting, stacking and einsum axis matching are recorded, and TLC validates "
        "every decision against CoeffEq. 15 templates over symbolic-shape placeholders: each "
        "inferred symbolic shape component is exported and evaluated by TLC (PtSem) at every "
        "size valuation against the concrete NumPy shape, and ONE compiled kernel per template "
        "is executed at all sizes 1..6 and compared with NumPy.",
        "Sizes are sampled for execution (C11 covers all sizes symbolically); floating-point "
        "values compared with tolerance. Besides the hand-written templates, programs over "
        "symbolic shapes are GENERATED (random programs grown with marker axis lengths that "
        "become size parameters; 60 quick / 800 thorough); documented refusals (reductions "
        "over symbolic axes) constrain nothing.",
        "TLC model checking of the equality rule (PtAffine) + TLC validation of recorded "
        "decisions and of inferred shape expressions + execution of one kernel at many sizes",
        "DESIGN.md section 4 C16"),
    "C17": (
        "exploration",
        "For a fixed list of programs given as data (hand-written programs covering sharing, "
        "reductions, einsum, indexing, named/unnamed data wrappers, function calls, loopy calls, "
        "nested named results, symbolic sizes; random programs of C01's space; the distributed "
        "library and simulated DistComm programs) a pool of interpreter processes "
        "(PYTHONHASHSEED 0..k-1 x two allocation histories) emits, twice each, the canonical "
        "loopy kernel text, loopy's key of the translation unit, the C source, the Python "
        "source, and per rank the partition summary + structure and the tag-number map; TLC "
        "(PtProcess) folds each (artefact, program) trace through Emit and checks SingleValued "
        "at every step and Witnessed (>= 2 seeds, >= 2 histories, 2 repetitions) at the end; "
        "mismatches are classified and stored as unified diffs.",
        "Seeds (4 quick / 16 thorough) and histories are sampled, programs are a fixed list: "
        "exploration, not exhaustive. All ranks of a world run in one process. loopy's own code "
        "generation is inside what is compared.",
        "trace validation of emission events from real interpreter processes against a TLA+ "
        "specification of single-valuedness with a vacuity guard",
        "DESIGN.md section 4 C17; notes/eq.md"),
    "C18": (
        "model_checking",
        "The families of C04 (every node class x field x context, rebuilt / pickled / permuted "
        "members, wrapped data with the same contents in another object, one element changed, "
        "another dtype or shape with identical bytes) and whole programs with single-node "
        "changes are keyed by the real PytatoKeyBuilder in processes with different hash seeds, "
        "before and after pickling and for objects pickled by another process; TLC (PtKey) "
        "computes the canonical form from the reflective export and checks KeyOK (no collision "
        "between different canonical forms, no split of identical ones), KeyStablePickle and "
        "KeyStableProcs.",
        "Creation-traceback tagging off; pairs differing only in non_equality_tags are "
        "unconstrained. Seeds sampled. Canon of a loopy translation unit is loopy's own key.",
        "TLA+ specification of key faithfulness evaluated by TLC on keys and structures exported "
        "from real processes; exhaustive over (kind, field, context) in the bound",
        "DESIGN.md section 4 C18; notes/eq.md"),
    "C19": (
        "model_checking",
        "Every index lambda the public API creates for the raisable operations (both operand "
        "orders, array/scalar operands, broadcasting, comparisons, logical ops, where, math "
        "functions, reductions over every axis subset, full, broadcast_to, astype, zeros_like) "
        "and ~5 systematically derived near-misses per instance are passed to the real "
        "index_lambda_to_high_level_op; each returned HighLevelOp becomes a NumPy-level node of "
        "the specification over the same exported operands and TLC decides HLOSem(hlo) = "
        "EvalIL(il) (soundness, for all inputs up to uninterpreted functions); API-produced "
        "lambdas must be recognised (completeness); anything else must be "
        "UnknownIndexLambdaExpr, never another exception.",
        "Trusted: TLC, exporter. Type casts are stripped on both sides (raising drops them by "
        "design). Near-misses are derived by a fixed rule set, not exhaustive over all "
        "expressions.",
        "TLA+ denotational spec (PtSem: Ev vs NumPy-level kinds) evaluated by TLC on real "
        "classifications (artefact validation) over an enumerated API family plus mutated "
        "near-misses",
        "DESIGN.md section 4 C19"),
    "C20": (
        "model_checking",
        "PtGraph.tla defines predecessors / users (with multiplicity), the send convention, "
        "topological order, node / type / tag counts, multiplicities, call sites and the "
        "materialised set; PtGraphMC model-checks their internal relations (users converse of "
        "predecessors with multiplicity, counts add up, numbering is a topological order) over "
        "55 740 typed instances with <= 4 nodes. For every real instance (all edge-kind schemes "
        "x roots, API-built graphs incl. symbolic shapes, functions, distributed nodes, stored "
        "tags, dictionaries; ~2000 graphs quick) the answers of the real analyses "
        "(ListOf/DirectPredecessorsGetter, get_list_of_users, get_nusers, get_users, "
        "rec_get_user_nodes, TopoSortMapper, get_num_nodes, get_node_type_counts, "
        "get_node_multiplicities, get_num_tags_of_type, get_num_call_sites, "
        "collect_materialized_nodes) are exported together with the reflectively exported graph "
        "and judged by TLC (PtGraphCheck) in 9 clause families.",
        "Trusted: TLC, the reflective walk (never pytato's mappers). Where the documentation "
        "leaves a choice (derived-shape arrays as predecessors, counts with or without function "
        "bodies, type-based materialisation) both answers are accepted.",
        "TLA+ specification of the graph relations model-checked over all small typed DAGs + "
        "TLC validation of the real analyses' answers on reflectively exported graphs",
        "DESIGN.md section 4 C20; notes/mapper.md"),
}

NOT_APPLICABLE: dict[str, str] = {}

PENDING_REASON = ("not claimed yet: the TLA+-based check for this property is designed "
                  "(DESIGN.md section 4) but not implemented/registered at this commit")


def build() -> dict:
    checks = []
    for pid in ALL:
        if pid not in CHECKS:
            continue
        cat, text, note, tech, ref = CHECKS[pid]
        checks.append({
            "property_id": pid,
            "quick_cmd": f"/venv/bin/python checks/run.py {pid} quick",
            "thorough_cmd": f"/venv/bin/python checks/run.py {pid} thorough",
            "evidence_file": f"evidence/{pid}.json",
            "replay_cmd_template": f"/venv/bin/python checks/run.py {pid} --replay {{path}}",
            "engine": "tlc",
            "level_claimed": {"category": cat, "text": text, "design_ref": ref},
            "level_note": note,
            "technique": tech,
        })
    na = [{"property_id": p, "reason": NOT_APPLICABLE.get(p, PENDING_REASON)}
          for p in ALL if p not in CHECKS]
    return {
        "version": 1,
        "setup_cmd": "sh checks/setup.sh",
        "hooks": {
            "guard": "PYTATO_VERIF",
            "enable": "no in-source hooks: every observation point is reachable from "
                      "outside (public API, subclassing, harness-side wrapping, a fake "
                      "mpi4py, a harness-side loopy target); checks import pytato from "
                      "/repo's working tree (editable install, nothing to build)",
            "baseline_off_cmd": "sh checks/baseline.sh",
            "source_commits": [],
            "add_only": True,
        },
        "engines": [
            {"name": "apalache", "path": "/opt/veriftools/apalache",
             "serves_properties": ["C11"],
             "kind_free_text": "Apalache 0.58.0 symbolic model checker (SMT) for TLA+, used "
                               "for unbounded integer obligations of C11"},
            {"name": "tlc", "path": "/opt/veriftools/tla/tla2tools.jar",
             "serves_properties": sorted(CHECKS),
             "kind_free_text": "TLC 1.8.0: explicit-state model checker and evaluator of "
                               "the TLA+ specification family in /verif/spec"},
        ],
        "checks": checks,
        "not_applicable": na,
        "notes": "Every check is `checks/run.py <id> quick|thorough`; exit 0 held, 1 "
                 "VIOLATION, 2 machinery failure.  known_findings.jsonl lists recorded and "
                 "fixed defects.  See DESIGN.md.",
    }


if __name__ == "__main__":
    m = build()
    with open(os.path.join(VERIF, "MANIFEST.json"), "w") as f:
        json.dump(m, f, indent=1)
        f.write("\n")
    print(f"MANIFEST.json: {len(m['checks'])} checks, {len(m['not_applicable'])} not claimed")
