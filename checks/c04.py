"""C04 -- equality and hashing are a sound structural congruence.

G  spec/PtEqGen.tla enumerates, for every node kind of PtEq!Fields and every
   context (the node itself; under a parent through every edge kind; under two
   nested edges), the family {base, independently rebuilt, foreign object,
   pickled-and-restored here / in another process, mapping fields in another
   insertion order, and for EVERY field the node with exactly that field
   changed} together with the verdict matrix predicted by the model.
   spec/PtEqLife.tla enumerates the life-cycle behaviours
   Build / Mutate1 / Hash / Pickle / Unpickle(proc) (and model-checks the
   life-cycle invariants on the model itself).
E  a pool of interpreter processes started with different PYTHONHASHSEEDs
   builds every family on the real classes and records ==, !=, hash, set and
   dict membership, cached hashes after unpickling, plus the reflective export
   of all members; spec/PtEqCheck.tla computes StructEq from the export (never
   pytato's ==) and judges EqIsStructEq, NeIsNotEq, Reflexive, Symmetric,
   Transitive (all triples), EqualImpliesSameHash (per process), Hashable,
   Set/DictMembership, NoHashCacheAfterUnpickle.  Life-cycle behaviours are
   replayed across processes with different seeds and the observed trace is
   validated against PtEq's step function.
M  spec/PtEqMemo.tla: the memoised pairwise comparison as a state machine on
   every pair of expressions over a pool of N nodes (OncePerPair, MemoSound,
   ResultIsStructEq); event traces of the real EqualityComparer on DAGs with up
   to 2^18 paths are judged by the same clauses.
Three voices: generator prediction, StructEq on the export, pytato.  The first
two disagreeing is a machinery failure (exit 2), never a violation.
"""
from __future__ import annotations

import copy
import json
import os
import threading
import time
from collections import defaultdict
from concurrent.futures import ThreadPoolExecutor
from typing import Any

from ptverif import eqlib, tlc, tlcx
from ptverif.common import NCPU, MachineryError, Run, seed
from ptverif.procpool import Pool, Worker

PROP = "C04"

MACHINERY_CLAUSES = ("machinery",)


# --------------------------------------------------------------------------
# G: families

def generate_families(tier: str) -> tuple[list[dict], dict[str, dict], dict, tlc.TLCResult]:
    cfg = "PtEqGenAll.cfg" if tier == "thorough" else "PtEqGen.cfg"
    res = tlc.run_tlc("PtEqGen", cfg, workers=1, timeout=600)
    if not res.ok:
        raise MachineryError(f"PtEqGen failed: {res.error or res.violated or res.out[-1500:]}")
    cases = tlcx.parse_tagged_json(res.out, "CASE")
    kinds = {k["kind"]: k for k in tlcx.parse_tagged_json(res.out, "KIND")}
    tables = tlcx.parse_tagged_json(res.out, "FIELDS")
    if not cases or not kinds or len(tables) != 1:
        raise MachineryError("PtEqGen printed no cases / kinds / field table")
    for c in cases:
        c["ctx"] = list(c["ctx"])       # "[]" deserialises fine, but be explicit
    cases.sort(key=lambda c: (c["kind"], len(c["ctx"]), c["ctx"]))
    return cases, kinds, tables[0], res


def chunks(seq: list, n: int) -> list[list]:
    return [seq[i::n] for i in range(n)]


def eval_families(pool: Pool, seeds: list[int], per_seed: int, cases: list[dict],
                  kinds: dict[str, dict], want_keys: bool) -> dict[str, dict[int, dict]]:
    """-> fam id -> seed -> record"""
    from ptverif.eqlib import SYM_MEMBERS, key_members
    members = {k: list(v["members"]) + SYM_MEMBERS.get(k, [])
               + (key_members(v["members"]) if want_keys else [])
               for k, v in kinds.items()}
    parts = chunks(cases, per_seed)
    widx = {(s, k): pool.workers[i * per_seed + k]
            for i, s in enumerate(seeds) for k in range(per_seed)}

    def phase1(key: tuple[int, int]) -> dict[str, str]:
        return widx[key].call("eqlib.pickles", cases=parts[key[1]])
    keys = list(widx)
    with ThreadPoolExecutor(max_workers=len(keys)) as ex:
        blobs = dict(zip(keys, ex.map(phase1, keys)))

    def phase2(key: tuple[int, int]) -> list[dict]:
        s, k = key
        prev = seeds[(seeds.index(s) - 1) % len(seeds)]
        # every process exports every family; only the first seed ships the node
        # lists, the others ship the digest of theirs (compared below)
        return widx[key].call("eqlib.families", cases=parts[k], members=members,
                              xblobs=blobs[(prev, k)], want_keys=want_keys,
                              want_nodes=s == seeds[0])
    with ThreadPoolExecutor(max_workers=len(keys)) as ex:
        recs = dict(zip(keys, ex.map(phase2, keys)))
    out: dict[str, dict[int, dict]] = defaultdict(dict)
    for (s, _k), lst in recs.items():
        for r in lst:
            out[r["fam"]][s] = r
    return out


OBS_FIELDS = ("eq", "ne", "hash", "inset", "indict", "stale")


def _pad_identity(m: list[list[bool]], n: int, names: list[str] | None = None
                  ) -> list[list[bool]]:
    """The generator's expected matrix extended for the members added in
    Python: a member with an alias (eqlib.ALIASES: derived through the public
    API, must be structurally identical to a generated member) takes the row
    of its alias; every other added member (symbolic-shape presentations,
    several tags, ...) is different from every other member."""
    from ptverif.eqlib import ALIASES
    k = len(m)
    rep = list(range(n))
    if names is not None:
        for i, nm in enumerate(names):
            if nm in ALIASES:
                rep[i] = names.index(ALIASES[nm])
    return [[(m[rep[i]][rep[j]] if rep[i] < k and rep[j] < k else rep[i] == rep[j])
             for j in range(n)] for i in range(n)]


def family_records(fams: dict[str, dict[int, dict]], kinds: dict[str, dict],
                   seeds: list[int]) -> list[dict]:
    """One TLC record per (family, distinct export); the observations of all
    processes whose export is identical ride on the same record."""
    records = []
    for fid in sorted(fams):
        by_export: dict[str, dict] = {}
        for s in seeds:
            r = fams[fid][s]
            sig = r["export_sha"]
            rec = by_export.get(sig)
            if rec is None:
                if r["nodes"] is None:
                    raise MachineryError(
                        f"family {fid}: the reflective export of process seed={s} differs "
                        f"from that of seed={seeds[0]} (the builders are not deterministic)")
                rec = {"id": fid if not by_export else f"{fid}#{len(by_export)}",
                       "rel": "family", "kind": r["kind"], "ctx": r["ctx"],
                       "names": r["names"], "nodes": r["nodes"], "roots": r["roots"],
                       "expect": _pad_identity(kinds[r["kind"]]["ident"], len(r["names"]),
                                                 r["names"]),
                       "obs": [], "seeds": []}
                by_export[sig] = rec
            rec["obs"].append({f: r[f] for f in OBS_FIELDS})
            rec["seeds"].append(s)
        records += list(by_export.values())
    return records


# --------------------------------------------------------------------------
# attribution of failing (clause, members) to a precise signature

def _label(member: str) -> tuple[str, str]:
    """-> ("field", name) for single-field mutants, ("member", name) otherwise"""
    if member.startswith("mut:"):
        return "field", member[4:]
    return "member", member


def family_failures(rec: dict, detail: list) -> dict[tuple[str, str], dict]:
    """(clause, culprit member) -> {"n": count, "seeds": set, "pairs": [...]} for
    one family.  Membership failures that merely restate a failing == or hash
    clause of the same pair are dropped (derived)."""
    names = rec["names"]
    raw = []
    for f in detail:
        p, clause, idx = f[0], f[1], [names[i - 1] for i in f[2:]]
        raw.append((p, clause, tuple(idx)))
    primary = {(p, frozenset(idx)) for p, c, idx in raw
               if c in ("EqIsStructEq", "EqualImpliesSameHash")}
    raw = [(p, c, idx) for p, c, idx in raw
           if not (c in ("SetMembership", "DictMembership")
                   and (p, frozenset(idx)) in primary)]
    blamed: dict[str, set[str]] = defaultdict(set)
    for p, c, idx in raw:
        s = set(idx)
        if "base" in s and len(s) == 2:
            blamed[c] |= s - {"base"}
    out: dict[tuple[str, str], dict] = {}
    for p, c, idx in raw:
        culprits = sorted({m for m in idx if m in blamed[c]}) or \
            ["|".join(sorted(set(idx)))]
        for m in culprits:
            e = out.setdefault((c, m), {"n": 0, "seeds": set(), "pairs": []})
            e["n"] += 1
            e["seeds"].add(rec["seeds"][p - 1])
            if len(e["pairs"]) < 4:
                e["pairs"].append(list(idx))
    return out


ARRAY_LIFTS = ("NamedArray._container", "NamedCallResult._container",
               "LoopyCallResult._container", "Call.function",
               "DistributedSendRefHolder.send", "CSRMatmul.matrix", "Placeholder.axes",
               "IndexLambda.axes", "IndexLambda.var_to_reduction_descr",
               "Einsum.redn_axis_to_redn_descr", "CSRMatmul.reduction_descr")


def attribute(per_family: dict[str, tuple[dict, dict]]) -> list[dict]:
    """per_family: fam id -> (record, failures of family_failures).
    -> findings [{"sig", "key", "what", "example", "count", "families"}]

    A failure seen on the bare node (context <<>>) is a defect of that kind's
    own == / hash: signature {kind, field|member, clause}; the same failure in
    deeper contexts is folded into it.  A failure that only shows under a
    parent is blamed on the edge (the parent's handling of that child):
    signature {kind: parent kind, field: parent field, clause, member|inner}."""
    by_kind: dict[str, dict[tuple, dict]] = defaultdict(dict)
    for _fid, (rec, fl) in per_family.items():
        by_kind[rec["kind"]][tuple(rec["ctx"])] = {"rec": rec, "fails": fl}
    findings: dict[str, dict] = {}

    def add(key: str, sig: dict, what: str, rec: dict, info: dict) -> None:
        f = findings.setdefault(key, {"key": key, "sig": sig, "what": what,
                                      "example": {"kind": rec["kind"], "ctx": rec["ctx"],
                                                  "pairs": info["pairs"]},
                                      "count": 0, "families": 0, "seeds": set()})
        f["count"] += info["n"]
        f["families"] += 1
        f["seeds"] |= info["seeds"]

    def mclass(member: str) -> str:
        return "mut" if member.startswith("mut:") else member

    # pass 1: which single edges fail (for a failure not visible on the bare node)
    edge_fail: set[tuple[str, str, str]] = set()
    for kind, ctxs in by_kind.items():
        root = ctxs.get((), {"fails": {}})["fails"]
        for ctx, ent in ctxs.items():
            if len(ctx) == 1:
                for (clause, member) in ent["fails"]:
                    if (clause, member) not in root:
                        edge_fail.add((ctx[0], clause, mclass(member)))
    edge_hits: dict[tuple[str, str, str], dict] = {}
    for kind, ctxs in sorted(by_kind.items()):
        root = ctxs.get((), {"fails": {}})["fails"]
        for ctx, ent in sorted(ctxs.items()):
            for (clause, member), info in sorted(ent["fails"].items()):
                lk, lv = _label(member)
                if (clause, member) in root:
                    key = f"{kind}.{lv}/{clause}"
                    add(key, {"kind": kind, lk: lv, "clause": clause},
                        f"{clause} fails for {kind} ({lk} {lv})", ent["rec"], info)
                    continue
                if len(ctx) == 1:
                    edge = ctx[0]
                else:
                    inner = ctxs.get((ctx[0],))
                    outer = ctxs.get((ctx[1],))
                    if inner is not None and (clause, member) in inner["fails"]:
                        edge = ctx[0]
                    elif outer is not None and (clause, member) in outer["fails"]:
                        edge = ctx[1]
                    elif (ctx[1], clause, mclass(member)) in edge_fail:
                        edge = ctx[1]
                    elif (ctx[0], clause, mclass(member)) in edge_fail:
                        edge = ctx[0]
                    else:
                        edge = ">".join(ctx)
                d = edge_hits.setdefault((edge, clause, mclass(member)), {})
                d.setdefault(f"{kind}.{lv}", []).append((ent["rec"], info))
    for (edge, clause, mc), inners in sorted(edge_hits.items()):
        pk, _, pf = edge.partition(".")
        few = len(inners) <= 4
        for inner, lst in sorted(inners.items()):
            for rec, info in lst:
                if mc != "mut":
                    key = f"{edge}<{mc}>/{clause}"
                    sig = {"kind": pk, "field": pf, "clause": clause, "member": mc}
                    what = (f"{clause} fails for the member '{mc}' of nodes under edge "
                            f"{edge} ({len(inners)} kinds of children)")
                elif few:
                    key = f"{edge}[{inner}]/{clause}"
                    sig = {"kind": pk, "field": pf, "clause": clause, "inner": inner}
                    what = f"{clause} fails under edge {edge} for a changed {inner}"
                else:
                    key = f"{edge}/{clause}"
                    sig = {"kind": pk, "field": pf, "clause": clause}
                    what = (f"{clause} fails under edge {edge} for {len(inners)} kinds of "
                            "changed children")
                add(key, sig, what, rec, info)
    return list(findings.values())


# --------------------------------------------------------------------------
# life cycle

LIFE_SUBJECTS = sorted(eqlib.SUBJECTS)


def generate_life(depth: int, simulate: int = 0, np_: int = 2
                  ) -> tuple[list[list[dict]], tlc.TLCResult]:
    from ptverif.common import scratch
    cfg = os.path.join(scratch(), f"PtEqLife_{depth}_{simulate}.cfg")
    with open(cfg, "w") as f:
        f.write(f"CONSTANTS NP = {np_} NV = 2 Depth = {depth}\nINIT Init\nNEXT Next\n"
                "INVARIANT InvNoHashCacheAfterUnpickle\nINVARIANT InvEqualImpliesSameHash\n"
                "INVARIANT UnpickleDropsCache\nINVARIANT Emit\nCHECK_DEADLOCK FALSE\n")
    args = []
    if simulate:
        args = ["-simulate", f"num={simulate}", "-depth", str(depth + 1),
                "-seed", str(seed() + 17)]
    res = tlc.run_tlc("PtEqLife", cfg, workers=1, args=args, timeout=900)
    if res.error or res.violated:
        raise MachineryError(f"PtEqLife failed: {res.error or res.violated}")
    behs = tlcx.parse_tagged_json(res.out, "LC")
    return behs, res


def replay_life(workers: list[Worker], bid: str, subject: str, evs: list[dict]
                ) -> list[dict]:
    """Replay one behaviour (TLC's prefix + the observation round) on the
    real classes; workers[p-1] is process p.  -> the observed trace"""
    trace: list[dict] = []
    objs: list[int] = []          # proc of object i (1-based index = position + 1)
    blobs: list[str] = []
    pending: list[dict] = []
    pend_proc = [0]

    def flush() -> None:
        if pending:
            res = workers[pend_proc[0] - 1].call("eqlib.lc", bid=bid, subject=subject,
                                                 events=list(pending))
            for ev in res:
                if ev["op"] == "pickle":
                    blobs[ev["blobno"] - 1] = ev.pop("data")
                trace.append(ev)
            pending.clear()

    def push(proc: int, ev: dict) -> None:
        if pend_proc[0] != proc:
            flush()
            pend_proc[0] = proc
        if ev["op"] == "unpickle" and not blobs[ev["blob"] - 1]:
            flush()
            pend_proc[0] = proc
        if ev["op"] == "unpickle":
            ev["data"] = blobs[ev["blob"] - 1]
        pending.append(ev)

    def do(ev: dict) -> None:
        ev = {k: v for k, v in ev.items() if k != "h"}
        op = ev["op"]
        if op == "build":
            objs.append(ev["proc"])
            push(ev["proc"], {**ev, "new": len(objs)})
        elif op == "mutate":
            p = objs[ev["obj"] - 1]
            objs.append(p)
            push(p, {**ev, "new": len(objs)})
        elif op in ("hash", "pickle"):
            p = objs[ev["obj"] - 1]
            if op == "pickle":
                blobs.append("")
                ev = {**ev, "blobno": len(blobs)}
            push(p, ev)
        elif op == "unpickle":
            objs.append(ev["proc"])
            push(ev["proc"], {**ev, "new": len(objs)})
        elif op == "compare":
            push(objs[ev["a"] - 1], ev)
        else:
            raise MachineryError(f"unknown event {op}")

    for ev in evs:
        do(ev)
    # observation round 1: compare everything, then hash everything twice
    nprefix = len(objs)
    procs = sorted(set(objs))
    for p in procs:
        mine = [i + 1 for i, q in enumerate(objs) if q == p]
        for a in mine:
            for b in mine:
                if a <= b:
                    do({"op": "compare", "a": a, "b": b})
        for a in mine:
            do({"op": "hash", "obj": a})
            do({"op": "hash", "obj": a})
    # round 2: every object (now carrying a cached hash) travels to the next process
    nproc = len(workers)
    for i in range(1, nprefix + 1):
        do({"op": "pickle", "obj": i})
    for i in range(1, nprefix + 1):
        tgt = objs[i - 1] % nproc + 1
        if tgt > 1 and (tgt - 1) not in set(objs):
            tgt = 1
        do({"op": "unpickle", "blob": len(blobs) - nprefix + i, "proc": tgt})
    for p in sorted(set(objs)):
        mine = [i + 1 for i, q in enumerate(objs) if q == p]
        new = [i for i in mine if i > nprefix]
        for a in new:
            do({"op": "hash", "obj": a})
        for a in new:
            for b in mine:
                if a != b and (b <= nprefix or a < b):
                    do({"op": "compare", "a": min(a, b), "b": max(a, b)})
    flush()
    for ev in trace:
        ev.pop("new", None)
        ev.pop("blobno", None)
    return trace


def run_life(behs: list[list[dict]], seeds: list[int], groups: int, tag: str,
             subjects: list[str] | None = None) -> list[dict]:
    """Replay every behaviour for every subject; -> TLC trace records."""
    jobs = [(bi, subj) for bi in range(len(behs)) for subj in (subjects or LIFE_SUBJECTS)]
    records: list[dict] = []
    lock = threading.Lock()
    # rotate the seeds so that the groups do not all use the same pair
    pools = []
    for g in range(groups):
        ss = [seeds[(g + k) % len(seeds)] for k in range(2)]
        if ss[0] == ss[1]:
            ss[1] = ss[0] + 1000
        pools.append(Pool(ss))
    try:
        for p in pools:
            p.__enter__()

        def work(g: int) -> None:
            ws = pools[g].workers
            for n, (bi, subj) in enumerate(jobs):
                if n % groups != g:
                    continue
                bid = f"{tag}{bi}/{subj}"
                tr = replay_life(ws, bid, subj, behs[bi])
                has_data, caches = eqlib.SUBJECTS[subj]
                with lock:
                    records.append({"id": bid, "rel": "trace", "subject": subj,
                                    "hasData": has_data, "caches": caches, "evs": tr,
                                    "prefix": behs[bi],
                                    "seeds": [w.seed for w in ws]})
        with ThreadPoolExecutor(max_workers=groups) as ex:
            list(ex.map(work, range(groups)))
    finally:
        for p in pools:
            p.__exit__(None, None, None)
    records.sort(key=lambda r: r["id"])
    return records


# --------------------------------------------------------------------------

def tiers(tier: str) -> dict[str, Any]:
    if tier == "thorough":
        return {"seeds": list(range(16)), "per_seed": 1, "life_depth": 5,
                "life_sim": 300, "life_sim_depth": 8, "groups": 12,
                "life_subjects": None}
    return {"seeds": [0, 1, 2, 3], "per_seed": 4, "life_depth": 4,
            "life_sim": 30, "life_sim_depth": 6, "groups": 8,
            "life_subjects": ["expr", "data", "call"]}


def check_families(run: Run, cases: list[dict], kinds: dict[str, dict], T: dict,
                   stats: dict, batch: int = 1600) -> list[dict]:
    """-> light records (without node lists) of all families"""
    seeds = [s + seed() for s in T["seeds"]]
    per_family = {}
    light: list[dict] = []
    for k in ("wall_family_eval_s", "wall_family_tlc_s", "family_records",
              "family_observations", "pairs_compared", "export_variants"):
        stats[k] = 0
    with Pool(seeds, T["per_seed"]) as pool:
        for b0 in range(0, len(cases), batch):
            part = cases[b0:b0 + batch]
            t0 = time.time()
            fams = eval_families(pool, seeds, T["per_seed"], part, kinds, want_keys=False)
            records = family_records(fams, kinds, seeds)
            for fid, by_seed in fams.items():
                for s_, r_ in by_seed.items():
                    for i, j, op, exn in r_.get("raised") or []:
                        run.violation(
                            f"raised/{r_['kind']}/{exn.split(':')[0]}",
                            f"{r_['names'][i]} {op} {r_['names'][j]} RAISED {exn} in family "
                            f"{fid} (seed {s_}): a comparison must answer, not raise",
                            record={"check": "family", "id": fid, "kind": r_["kind"],
                                    "ctx": r_["ctx"], "pairs": [[r_["names"][i],
                                                                 r_["names"][j]]]},
                            sig={"clause": "comparison_raised", "kind": r_["kind"],
                                 "exc": exn.split(":")[0]})
            stats["wall_family_eval_s"] += round(time.time() - t0, 1)
            t0 = time.time()
            val = tlcx.validate("PtEqCheck", "PtEqCheck.cfg", records, timeout=2400,
                                per_shard=30, heap="3g")
            stats["wall_family_tlc_s"] += round(time.time() - t0, 1)
            stats["states"] += val.states
            stats["transitions"] += val.transitions
            stats["family_records"] += len(records)
            stats["family_observations"] += sum(len(r["obs"]) for r in records)
            stats["pairs_compared"] += sum(len(r["obs"]) * len(r["names"]) ** 2
                                           for r in records)
            stats["export_variants"] += len(records) - len(fams)
            for rec in records:
                v = val.verdicts[rec["id"]]
                lt = {k: rec[k] for k in ("id", "kind", "ctx", "names", "roots", "seeds")}
                lt["eq_row_of_base"] = rec["obs"][0]["eq"][0]
                light.append(lt)
                if v == "ok":
                    continue
                if v.startswith("machinery"):
                    raise MachineryError(
                        f"family {rec['id']}: {v}: {str(val.detail.get(rec['id']))[:600]} "
                        "-- the harness did not build what the model describes, or "
                        "PtEq!Fields is out of date")
                per_family[rec["id"]] = (lt, family_failures(rec, val.detail[rec["id"]]))
    stats["families_failing"] = len(per_family)
    findings = attribute(per_family)
    for f in findings:
        run.violation(f["key"],
                      f"{f['what']}: {f['count']} failing comparisons in {f['families']} "
                      f"families, seeds {sorted(f['seeds'])}; e.g. {f['example']}",
                      record={"check": "family", **f["example"]},
                      observed=f["example"]["pairs"], sig=f["sig"])
    return light


def check_life(run: Run, T: dict, stats: dict) -> None:
    seeds = [s + seed() for s in T["seeds"]]
    t0 = time.time()
    behs, res = generate_life(T["life_depth"])
    sim, res2 = generate_life(T["life_sim_depth"], simulate=T["life_sim"])
    seen = set()
    sim = [b for b in sim if not (json.dumps(b) in seen or seen.add(json.dumps(b)))]
    stats["wall_life_gen_s"] = round(time.time() - t0, 1)
    stats["states"] += res.distinct + res2.distinct
    stats["transitions"] += res.generated + res2.generated
    stats["life_behaviours_exhaustive"] = len(behs)
    stats["life_behaviours_simulated"] = len(sim)
    stats["life_model_states"] = res.distinct
    if not behs:
        raise MachineryError("PtEqLife generated no behaviour")
    t0 = time.time()
    records = run_life(behs, seeds, T["groups"], "x", T["life_subjects"]) + \
        run_life(sim, seeds, T["groups"], "s")
    stats["wall_life_replay_s"] = round(time.time() - t0, 1)
    t0 = time.time()
    judge_life(run, records, stats)
    stats["wall_life_tlc_s"] = round(time.time() - t0, 1)


def judge_life(run: Run, records: list[dict], stats: dict) -> None:
    val = tlcx.validate("PtEqCheck", "PtEqCheck.cfg", records, timeout=2400,
                        per_shard=200)
    stats["states"] += val.states
    stats["transitions"] += val.transitions
    stats["life_traces"] = stats.get("life_traces", 0) + len(records)
    stats["life_events"] = stats.get("life_events", 0) + sum(len(r["evs"]) for r in records)
    # vacuity guards (measured): a cached hash existed when an object was pickled,
    # and objects crossed process boundaries
    stats["life_pickled_with_cached_hash"] = stats.get("life_pickled_with_cached_hash", 0) \
        + sum(1 for r in records for e in r["evs"] if e["op"] == "pickle" and e["cached"])
    for rec in records:
        v = val.verdicts[rec["id"]]
        if v == "ok":
            continue
        if v.startswith("machinery"):
            raise MachineryError(f"life-cycle trace {rec['id']}: {v} at event "
                                 f"{val.detail.get(rec['id'])}")
        _, clause, k, _ = val.detail[rec["id"]][0]
        ev = rec["evs"][k - 1]
        run.violation(f"lc/{rec['subject']}/{clause}/{ev['op']}",
                      f"life cycle of subject {rec['subject']}: {clause} at event {k} "
                      f"({ev}) of behaviour {rec['prefix']} (seeds {rec['seeds']})",
                      record={"check": "life", "subject": rec["subject"],
                              "prefix": rec["prefix"]},
                      observed=ev,
                      sig={"lc": rec["subject"], "clause": clause, "op": ev["op"]})


def memo_model(n: int, use_memo: bool = True) -> tlc.TLCResult:
    from ptverif.common import scratch
    cfg = os.path.join(scratch(), f"PtEqMemo_{n}_{use_memo}.cfg")
    with open(cfg, "w") as f:
        f.write(f"CONSTANTS N = {n} UseMemo = {str(use_memo).upper()}\nINIT Init\nNEXT Next\n"
                "INVARIANT OncePerPair\nINVARIANT MemoSound\nINVARIANT MemoFunctional\n"
                "INVARIANT ResultIsStructEq\nCHECK_DEADLOCK FALSE\n")
    return tlc.run_tlc("PtEqMemo", cfg, workers=NCPU, timeout=1500, heap="4g")


def check_memo(run: Run, tier: str, T: dict, stats: dict) -> None:
    """M: the memoised comparison as a state machine on every pair of
    expressions over a pool of N nodes; E: event traces of the real comparer
    on DAGs with 2^n paths judged by the same clauses."""
    t0 = time.time()
    res = memo_model(5 if tier == "thorough" else 4)
    if not res.ok:
        raise MachineryError(f"PtEqMemo: {res.error or res.violated}")
    stats["states"] += res.distinct
    stats["transitions"] += res.generated
    stats["memo_model_states"] = res.distinct
    seeds = [s + seed() for s in T["seeds"]][:2]
    cases = eqlib.memo_cases(tier)
    with Pool(seeds, 1) as pool:
        per = pool.map(lambda w: w.call("eqlib.memo", cases=cases))
    records = []
    for s, recs in zip(seeds, per):
        for r in recs:
            r["id"] = f"{r['id']}@{s}"
            records.append(r)
    # A comparison that creates further comparer instances (each with an empty memo)
    # or whose trace is super-linear in the number of node pairs has already lost
    # the memo: report it here; such traces can be exponentially long, so they are
    # not handed to TLC.
    keep = []
    for rec in records:
        npairs = max(1, len(rec["nodes"])) ** 2
        if rec["ncomparers"] != 1 or len(rec["evs"]) > 8 * npairs:
            run.violation(f"memo/comparers/{rec['id'].split('@')[0]}",
                          f"EqualityComparer on {rec['id']}: {rec['ncomparers']} comparer "
                          f"instance(s) and {len(rec['evs'])} events for {len(rec['nodes'])} "
                          f"nodes ({rec['paths']} paths): the pairwise memo is not shared",
                          record={"check": "memo", "id": rec["id"]},
                          sig={"memo": rec["id"].split("/")[1], "clause": "MemoSingleComparer"})
        else:
            keep.append(rec)
    records = keep
    val = tlcx.validate("PtEqCheck", "PtEqCheck.cfg", records, timeout=1200, per_shard=10)
    stats["states"] += val.states
    stats["transitions"] += val.transitions
    stats["memo_traces"] = len(records)
    stats["memo_events"] = sum(len(r["evs"]) for r in records)
    stats["memo_max_paths"] = max(r["paths"] for r in records)
    stats["wall_memo_s"] = round(time.time() - t0, 1)
    for rec in records:
        v = val.verdicts[rec["id"]]
        if v == "ok":
            continue
        if v.startswith("machinery"):
            raise MachineryError(f"memo trace {rec['id']}: {v} {val.detail.get(rec['id'])}")
        _, clause, k, _ = val.detail[rec["id"]][0]
        run.violation(f"memo/{clause}",
                      f"EqualityComparer on {rec['id']}: {clause} (detail {k}); "
                      f"{len(rec['evs'])} events, {rec['ncomparers']} comparer(s)",
                      record={"check": "memo", "id": rec["id"]},
                      sig={"memo": rec["id"].split("/")[1], "clause": clause})


def main(tier: str, only: dict | None = None) -> int:
    run = Run(PROP, tier, "model_checking")
    T = tiers(tier)
    stats: dict[str, Any] = {"states": 0, "transitions": 0}
    cases, kinds, table, gres = generate_families(tier)
    stats["states"] += gres.distinct
    stats["transitions"] += gres.generated
    eqlib.check_field_table(table)           # reflective cross-check (machinery)
    if only is not None and only.get("check") == "family":
        # the failing family plus the contexts the attribution looks at
        cases = [c for c in cases
                 if c["kind"] == only["kind"]
                 and (c["ctx"] == only["ctx"] or not c["ctx"]
                      or (len(c["ctx"]) == 1 and c["ctx"][0] in only["ctx"]))]
    records: list[dict] = []
    if only is None or only.get("check") == "family":
        records = check_families(run, cases, kinds, T, stats)
    if only is None or only.get("check") == "memo":
        check_memo(run, tier, T, stats)
    if only is None:
        check_life(run, T, stats)
    elif only.get("check") == "life":
        seeds = [s + seed() for s in T["seeds"]]
        recs = run_life([only["prefix"]], seeds, 1, "r")
        judge_life(run, [r for r in recs if r["subject"] == only["subject"]], stats)
    nkinds = len({c["kind"] for c in cases})
    nfields = sum(len(kinds[k]["members"]) for k in {c["kind"] for c in cases})
    run.coverage.update({
        "states": stats["states"], "transitions": stats["transitions"],
        "traces_validated_against_impl":
            stats.get("family_observations", 0) + stats.get("life_traces", 0)
            + stats.get("memo_traces", 0),
        "evaluations": stats.get("pairs_compared", 0) + stats.get("life_events", 0)
            + stats.get("memo_events", 0),
        "distinct_nontrivial": sum(1 for r in records for i in range(len(r["roots"]))
                                   for j in range(i) if r["roots"][i] != r["roots"][j]),
        "rule": "one unordered pair of distinct members per (node kind, context) family; "
                "distinct by (kind, context, member pair); non-trivial = the two members "
                "are different Python objects (counted from the export's node numbers)",
        "exhaustive": True,
        "node_kinds": nkinds, "kind_member_combinations": nfields,
        "contexts": len(cases), "seeds": [s + seed() for s in T["seeds"]],
        **{k: v for k, v in stats.items() if k not in ("states", "transitions")},
        "scope": "every concrete node class of the implementation (reflective check "
                 "against PtEq!Fields) x every dataclass field x contexts of depth 0, 1 "
                 "(every edge kind) and 2 ("
                 + ("every pair of edge kinds" if tier == "thorough" else
                    "a rotation of edge pairs plus Stack above every edge") + "); "
                 f"life-cycle behaviours of {T['life_depth']} state-changing events "
                 f"exhaustively (2 processes, 2 mutations; subjects "
                 f"{T['life_subjects'] or LIFE_SUBJECTS}) plus simulated ones of "
                 f"{T['life_sim_depth']} events for all {len(LIFE_SUBJECTS)} subjects, each "
                 "followed by the observation round; the memoised comparison as a state machine "
                 f"on all expression pairs over {5 if tier == 'thorough' else 4} pooled nodes "
                 "and real comparer traces on shared DAGs",
    })
    for r in records[:2]:
        run.sample({"family": r["id"], "members": r["names"], "seeds": r["seeds"],
                    "eq_row_of_base": r["eq_row_of_base"]})
    run.assumptions += [
        "TLC, the Json module and the reflective exporter (ptverif/eqexport.py: walks "
        "dataclasses.fields, sorts sets and mapping entries canonically) are trusted",
        "hash seeds are sampled (4 quick / 16 thorough), not exhausted",
        "loopy translation units are identified by the digest of an order-preserving, "
        "set-sorting dump of their kernels (not by a persistent-hash key, which could be "
        "contaminated by digests cached by the key builder under test); pymbolic "
        "expressions by their dataclass fields",
        "DataWrapper: StructEq compares the wrapped data by identity of the data object",
    ]
    return run.finish()


def replay(rep: dict) -> int:
    return main("quick", only=rep["record"])


def selftest(tier: str) -> int:
    """Binding demonstration: corrupt one recorded verdict / hash / cache flag /
    exported field and require rejection by TLC."""
    cases, kinds, table, _ = generate_families("quick")
    eqlib.check_field_table(table)
    pick = [c for c in cases if c["kind"] == "Roll" and c["ctx"] == ["Stack.arrays"]]
    seeds = [11, 12]
    with Pool(seeds, 1) as pool:
        fams = eval_families(pool, seeds, 1, pick, kinds, want_keys=False)
    good = family_records(fams, kinds, seeds)[0]
    good["id"] = "good"
    names = good["names"]
    b, rb, ms = names.index("base") , names.index("rebuild"), names.index("mut:shift")
    variants = {"good": good}

    def variant(name: str) -> dict:
        r = copy.deepcopy(good)
        r["id"] = name
        variants[name] = r
        return r
    r = variant("eq_flipped")            # == reported True for a changed shift
    r["obs"][1]["eq"][b][ms] = True
    r = variant("hash_corrupted")        # equal objects, different hash in one process
    r["obs"][0]["hash"][rb] = "12345"
    r = variant("stale_cache")           # a cached hash survived unpickling
    r["obs"][1]["stale"][names.index("xpick")] = ["Roll"]
    r = variant("asymmetric")
    r["obs"][0]["eq"][rb][b] = False
    r = variant("export_corrupted")      # the export no longer shows the changed field
    for n in r["nodes"]:
        if n["kind"] == "Roll":
            for f in n["f"]:
                if f[0] == "shift":
                    f[1] = {"t": "i", "i": "1"}
    r = variant("unknown_field")
    r["nodes"][0]["f"].append(["brand_new_field", {"t": "none"}])
    val = tlcx.validate("PtEqCheck", "PtEqCheck.cfg", list(variants.values()), shards=1)
    want = {"good": "ok", "eq_flipped": "EqIsStructEq", "hash_corrupted":
            "EqualImpliesSameHash", "stale_cache": "NoHashCacheAfterUnpickle",
            "asymmetric": "Symmetric", "export_corrupted": "machinery:spec_mismatch",
            "unknown_field": "machinery:fields"}
    ok = True
    for name, w in want.items():
        v = val.verdicts[name]
        got = v if v != "fail" else sorted({f[1] for f in val.detail[name]})
        hit = (v == w) if v != "fail" else (w in got)
        print(f"  selftest family {name}: expected {w}, TLC said {got}")
        ok &= hit
    # the reflective field check must name an unknown field
    t2 = copy.deepcopy(table)
    del t2["Reshape"]["order"]
    try:
        eqlib.check_field_table(t2)
        ok = False
        print("  selftest field table: missing field NOT noticed")
    except MachineryError as ex:
        named = "Reshape.order" in str(ex)
        print(f"  selftest field table: rejected, names the field: {named}")
        ok &= named
    # life cycle: flip the cache flag after unpickling / the verdict of a compare
    behs, _ = generate_life(4)
    beh = next(b for b in behs if [e["op"] for e in b] ==
               ["build", "hash", "pickle", "unpickle"] and b[3]["proc"] == 2)
    recs = [r for r in run_life([beh], [21, 22], 1, "t") if r["subject"] == "expr"]
    good_t = recs[0]
    bad1 = copy.deepcopy(good_t)
    bad1["id"] = "lc_stale"
    next(e for e in bad1["evs"] if e["op"] == "unpickle")["cached"] = True
    bad2 = copy.deepcopy(good_t)
    bad2["id"] = "lc_eq"
    e = next(e for e in bad2["evs"] if e["op"] == "compare" and e["a"] != e["b"])
    e["eq"], e["ne"] = (not e["eq"]), e["eq"]
    bad3 = copy.deepcopy(good_t)
    bad3["id"] = "lc_hash"
    hs = [e for e in bad3["evs"] if e["op"] == "hash" and e["obj"] == 2]
    hs[-1]["h"] = "777"
    val = tlcx.validate("PtEqCheck", "PtEqCheck.cfg", [good_t, bad1, bad2, bad3], shards=1)
    for rid, w in ((good_t["id"], "ok"), ("lc_stale", "NoHashCacheAfterUnpickle"),
                   ("lc_eq", "EqIsStructEq"), ("lc_hash", None)):
        v = val.verdicts[rid]
        got = v if v != "fail" else val.detail[rid][0][1]
        hit = got == w if w else got in ("HashStable", "EqualImpliesSameHash")
        print(f"  selftest life {rid}: expected {w or 'HashStable/EqualImpliesSameHash'}, "
              f"TLC said {got}")
        ok &= hit
    # memo: the model without its memo must violate OncePerPair; a trace with a
    # repeated enter / a wrong stored result must be rejected
    res = memo_model(4, use_memo=False)
    hit = "OncePerPair" in res.violated
    print(f"  selftest memo model without memo: violated {res.violated}")
    ok &= hit
    mrecs = eqlib.h_memo([c for c in eqlib.memo_cases("quick")
                          if c["id"] == "memo/add/3/shared/same"])
    g = mrecs[0]
    b1 = copy.deepcopy(g)
    b1["id"] = "memo_twice"
    first = next(e for e in b1["evs"] if e["ev"] == "enter")
    b1["evs"].append(dict(first))
    b2 = copy.deepcopy(g)
    b2["id"] = "memo_wrong"
    next(e for e in b2["evs"] if e["ev"] == "ret")["res"] = False
    val = tlcx.validate("PtEqCheck", "PtEqCheck.cfg", [g, b1, b2], shards=1)
    for rid, w in ((g["id"], "ok"), ("memo_twice", "MemoOncePerPair"),
                   ("memo_wrong", "MemoSound")):
        v = val.verdicts[rid]
        got = v if v != "fail" else val.detail[rid][0][1]
        print(f"  selftest memo trace {rid}: expected {w}, TLC said {got}")
        ok &= got == w
    print("selftest", "passed" if ok else "FAILED")
    return 0 if ok else 2
