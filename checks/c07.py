"""C07 -- tags carry no semantics; implementation strategies are equivalent.

G: programs of C01's space x seeded assignments of {ImplStored, ImplInlined,
   ImplSubstitution, PrefixNamed, Named(fresh), user array / axis / reduction
   tags} to subsets of nodes (tags attached IN PLACE, so every user of a node
   sees the tagged node), plus the all-tags-stripped variant.
   For the untagged program and each tagged variant the real generate_loopy
   output is compiled and executed (as C01): output names, shapes and dtypes
   must be identical, every value must equal NumPy's and the untagged
   variant's within tolerance, and code generation must not fail.
M: every variant's kernel is model-checked by TLC under ALL instruction orders
   its depends_on edges allow (spec/PtKernel.tla): the strategies differ
   exactly in which instructions, temporaries and dependency edges exist -- a
   stored node used by two reductions, a substitution inside a reduction, a
   stored output read by a later output.
"""
from __future__ import annotations

import multiprocessing as mp
import re
from typing import Any

import numpy as np

from checks import c01
from ptverif import progspace, runprog, tlc
from ptverif.common import NCPU, MachineryError, Run, robust_map, seed

PROP = "C07"

VARIANTS = [
    {"name": "stored", "kinds": ["stored"], "p": 0.6},
    {"name": "mixed_impl", "kinds": ["stored", "inlined", "subst"], "p": 0.6},
    {"name": "naming", "kinds": ["prefix", "named", "stored"], "p": 0.5},
    {"name": "user", "kinds": ["user", "axis", "redn"], "p": 0.7},
    {"name": "all", "kinds": ["stored", "inlined", "subst", "prefix", "named", "user",
                              "axis", "redn"], "p": 0.7},
    {"name": "subst", "kinds": ["subst"], "p": 0.9},
]


def run_prog(prog: dict) -> dict:
    base = c01.run_variant(prog, None, keep_outputs=True)
    res: dict[str, Any] = {"id": prog["id"], "status": base["status"], "problems": [],
                           "kernels": [], "variants": 0, "tagged_nodes": 0, "compared": 0}
    if base["status"] != "ok" or base["problems"] or "outputs" not in base:
        # problems of the untagged program are C01's business
        res["status"] = "base_not_clean" if base["status"] == "ok" else base["status"]
        return res
    if base["kernel"]:
        k = dict(base["kernel"])
        k["id"] = prog["id"] + "|untagged"
        res["kernels"].append(k)
    rng = np.random.default_rng([seed(), abs(hash(prog["id"])) % (2 ** 31)])
    chosen = [VARIANTS[int(i)] for i in rng.permutation(len(VARIANTS))[:prog.get("nvar", 3)]]
    for v in [*chosen, "strip"]:
        spec = v if v == "strip" else {"seed": int(rng.integers(2 ** 31)), **v}
        name = "strip" if v == "strip" else v["name"]
        if prog.get("only_variant") and prog["only_variant"]["name"] != name:
            continue
        if prog.get("only_variant"):
            spec = prog["only_variant"]["spec"]
        r = c01.run_variant(prog, spec, keep_outputs=True)
        res["variants"] += 1
        res["tagged_nodes"] += sum((r.get("tag_counts") or {}).values())
        res["compared"] += r["compared"]
        for pr in r["problems"]:
            if pr["clause"] == "generate_loopy_raised" \
                    and pr["what"].startswith("ValueError: Cannot assign the name") \
                    and (r.get("tag_counts") or {}).get("named"):
                # "a Named tag yields exactly that name or an error" (C15): the
                # documented diagnostic, e.g. when a Named stored array is both an
                # output and an operand of another output
                res["named_refused"] = res.get("named_refused", 0) + 1
                continue
            res["problems"].append({**pr, "variant": name, "spec": spec,
                                    "tags": r.get("tag_counts")})
        if r["kernel"]:
            k = dict(r["kernel"])
            k["id"] = prog["id"] + "|" + name
            res["kernels"].append(k)
        if "outputs" in r:
            if set(r["outputs"]) != set(base["outputs"]):
                res["problems"].append({"clause": "output_names", "variant": name,
                                        "spec": spec, "exc": "",
                                        "what": f"{sorted(r['outputs'])} vs untagged "
                                                f"{sorted(base['outputs'])}"})
                continue
            for k2, g in r["outputs"].items():
                b = base["outputs"][k2]
                if g.shape != b.shape or g.dtype != b.dtype:
                    res["problems"].append({"clause": "shape_or_dtype_changed",
                                            "variant": name, "spec": spec, "exc": "",
                                            "what": f"{k2}: {g.shape}/{g.dtype} vs untagged "
                                                    f"{b.shape}/{b.dtype}"})
                    continue
                msg = runprog.compare(g, b, g.dtype, base["scale"], True)
                if msg:
                    res["problems"].append({"clause": "differs_from_untagged",
                                            "variant": name, "spec": spec, "exc": "",
                                            "what": f"{k2}: {msg}"})
    return res


def _run_many(progs: list[dict]) -> list[dict]:
    import traceback
    out = []
    for p in progs:
        try:
            out.append(run_prog(p))
        except Exception as ex:      # noqa: BLE001
            out.append({"id": p["id"], "status": "harness_error:" + repr(ex)[:200]
                        + traceback.format_exc()[-400:], "problems": [], "kernels": [],
                        "variants": 0, "tagged_nodes": 0, "compared": 0})
    return out


def programs(tier: str) -> list[dict]:
    rng = np.random.default_rng(seed() + 7)
    n = 220 if tier == "quick" else 4000
    progs = []
    for k in range(n):
        # reductions and einsums matter most here: bias the alphabet
        ops = progspace.ALL_OPS + progspace.ALPHABET["reduce"] * 2 + ["einsum", "matmul"] * 2
        progs.append(progspace.random_program(rng, f"t{k}", int(rng.integers(2, 8)), ops=ops))
    progs += list(progspace.fam_lpcall(rng, 40 if tier == "quick" else 600))
    # reductions whose BOUNDS depend on the output index (sparse matmul), read by
    # a consumer: every implementation strategy on the reduction node
    for p in progspace.fam_csr(rng, 8 if tier == "quick" else 60):
        n = len(p["inputs"]) + len(p["calls"])
        p["calls"] += [{"op": "mul", "a": n, "b": {"py": "float", "v": "2.0"}},
                       {"op": "add", "a": n + 1, "b": n}]
        p["outs"] = {"out0": n + 2, "out1": n + 1}
        p["nvar"] = len(VARIANTS)
        progs.append(p)
    # directed shapes: a stored node used by two reductions; shared reduction
    x = progspace.inp("x", (3, 4))
    progs.append({"id": "d/two_redn_of_stored", "inputs": [x],
                  "calls": [{"op": "mul", "a": 1, "b": 1}, {"op": "sum", "a": 2, "axis": 0},
                            {"op": "sum", "a": 2, "axis": 1}, {"op": "amax", "a": 2,
                                                               "axis": None},
                            {"op": "sum", "a": 3, "axis": None},
                            {"op": "add", "a": 5, "b": 6}],
                  "outs": {"out0": 7, "out1": 4, "out2": 3}, "nvar": 5})
    progs.append({"id": "d/sum_plus_sum", "inputs": [x],
                  "calls": [{"op": "sum", "a": 1, "axis": None},
                            {"op": "add", "a": 2, "b": 2},
                            {"op": "sum", "a": 1, "axis": None}, {"op": "add", "a": 2, "b": 4}],
                  "outs": {"out0": 3, "out1": 5}, "nvar": 5})
    progs.append({"id": "d/output_read_by_output", "inputs": [x],
                  "calls": [{"op": "sin", "a": 1}, {"op": "sum", "a": 2, "axis": 1},
                            {"op": "mul", "a": 2, "b": {"py": "float", "v": "2.0"}}],
                  "outs": {"out0": 2, "out1": 3, "out2": 4}, "nvar": 5})
    # arithmetic on booleans consumed by wider arithmetic: stored (a bool temporary) and
    # inlined (a C expression over 0/1 integers) variants must agree
    for p in [*progspace.fam_boolarith(), *progspace.fam_same_buffer()]:
        p["outs"] = {("out0" if k == "out" else k): v for k, v in p["outs"].items()}
        p["nvar"] = 2
        progs.append(p)
    # ... and with reductions INLINED where their bounds are affine (cexec qa_shim):
    # the implementation tags decide much more there
    return c01.with_inlined_reductions(progs)


def main(tier: str, only: list[dict] | None = None) -> int:
    run = Run(PROP, tier, "exploration")
    progs = only if only is not None else programs(tier)
    results = robust_map(_run_many, progs, crashed=lambda p, why: {
        "id": p["id"], "status": "ok", "kernels": [], "variants": 1, "tagged_nodes": 0,
        "compared": 0,
        "problems": [{"clause": "execution_crashed", "exc": "", "what": why, "variant": "?",
                      "spec": None}]})
    by_id = {p["id"]: p for p in progs}
    status: dict[str, int] = {}
    kernels: list[dict] = []
    nvar = ntag = compared = 0
    for r in results:
        st = r["status"].split(":")[0]
        status[st] = status.get(st, 0) + 1
        if st == "harness_error":
            raise MachineryError(f"{r['id']}: {r['status']}")
        nvar += r["variants"]
        ntag += r["tagged_nodes"]
        compared += r["compared"]
        kernels += r["kernels"]
        for pr in r["problems"]:
            rec = dict(by_id[r["id"]])
            rec["only_variant"] = {"name": pr["variant"], "spec": pr["spec"]}
            run.violation(f"{r['id']}|{pr['variant']}|{pr['clause']}|{pr['what'][:50]}",
                          f"{r['id']} variant {pr['variant']} (tags {pr.get('tags')}): "
                          f"{pr['clause']}: {pr['what']}", record=rec,
                          sig={"clause": pr["clause"], "variant": pr["variant"],
                               "exc": pr.get("exc", ""), "what": pr["what"][:70],
                               "where": (pr.get("where") or "").strip().rpartition(" in ")[2][:60],
                               "named_array_tagged": bool((pr.get("tags") or {}).get(
                                   "user_on_named")),
                               "loopy_rule_arity_clash": bool(re.match(
                                   r"RuntimeError: Rule '_pt_subst\w*' invoked with \d+ "
                                   r"arguments", pr["what"]))})
    kmap = {k["id"]: by_id[k["id"].split("|")[0]] for k in kernels}
    c01.check_kernels(run, kernels, kmap)
    run.coverage.update({
        "evaluations": compared, "distinct_nontrivial": sum(
            1 for r in results if r["variants"] and r["tagged_nodes"]),
        "rule": "evaluations = output comparisons of tagged variants with NumPy; "
                "non-trivial = distinct programs for which at least one variant actually "
                "tagged a node and was executed",
        "programs": len(progs), "variants_executed": nvar, "nodes_tagged": ntag,
        "status": status, "exhaustive": False,
        "states": run.coverage.get("kernel_states", 0),
        "transitions": run.coverage.get("kernel_transitions", 0),
        "note": "is_quasi_affine() is always False with the installed loopy, so every "
                "reduction is stored with bound temporaries; the inlined-reduction path is "
                "unreachable in this sandbox",
    })
    for p in progs[-2:]:
        run.sample({k: p[k] for k in ("id", "inputs", "calls", "outs")})
    run.assumptions += ["as C01 (sampled floating-point values; gcc / loopy trusted)"]
    return run.finish()


def replay(rep: dict) -> int:
    return main("quick", only=[rep["record"]])


def selftest(tier: str) -> int:
    return c01.selftest(tier)
