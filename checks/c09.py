"""C09 -- every distributed partition is well formed and all ranks agree on it.

G: the programs of C08's space (spec/DistComm.tla exhaustively / by
   -simulate, plus the named-topology library) under symbolic tags of several
   hashable types.
E: the REAL find_distributed_partition -> verify_distributed_partition ->
   number_distributed_tags run on all ranks -- as threads under the simulated
   MPI, and, for a part of the programs, as SEPARATE interpreter processes
   with different hash seeds whose collectives the parent relays over pipes.
   The partitions of all ranks are exported (names, part order, receive / send
   nodes with symbolic and integer tags, the names each stored expression
   really reads and the communication nodes inside it, found by a reflective
   walk) and spec/DistPartition.tla -- the DistributedGraphPart contract as
   predicates over the partitions of ALL ranks at once, including RoundsAgree
   and the tag-numbering predicates -- is evaluated by TLC on every exported
   instance; one verdict line per instance naming the failing clauses.
M: every exported instance is additionally model-checked with DistExec (all
   schedules): a partition on which the executor can deadlock, crash or
   misdeliver is not a well-formed partition, whatever the predicates say.
   The specification's own partitioner (DistComm!AbsParts: dependency levels
   -> batches -> parts) is put through the same two judges for every
   communication structure of the exhaustive bound (a design-level result;
   failure = exit 2), and its parts-per-rank are compared with the real
   partitioner's as a diagnostic only (the algorithm is documented as
   non-binding).
"""
from __future__ import annotations

import copy
import os
from concurrent.futures import ThreadPoolExecutor
import time
from typing import Any

from ptverif import distcheck as dc
from ptverif import distprogs as dp
from ptverif import disttags
from ptverif.common import NCPU, REPO, VERIF, MachineryError, Run, seed

PROP = "C09"


def programs(tier: str) -> tuple[list[dict], list[dict]]:
    stats = []
    if tier == "quick":
        progs = dp.library(("str", "class", "frozenset"))
        progs += [p for k, p in enumerate(dp.library(("int", "tuple", "dataclass", "mixed")))
                  if k % 3 == seed() % 3]
        bs, st = dp.generate("struct", MaxRanks=3, MaxOps=3)
        stats.append(st)
        progs += dp.progs_from(bs)
        bs, st = dp.generate("sim", simulate=400, MaxRanks=4, MaxOps=6, NTags=3,
                             Variants=True, MinOps=2, Exhaustive=False)
        stats.append(st)
        progs += dp.progs_from(bs)
    else:
        progs = dp.library(disttags.KINDS)
        bs, st = dp.generate("struct", MaxRanks=3, MaxOps=4)
        stats.append(st)
        progs += dp.progs_from(bs)
        bs, st = dp.generate("var", MaxRanks=2, MaxOps=1, Variants=True)
        stats.append(st)
        progs += dp.progs_from(bs)
        for lab, minops, num in (("sim2", 2, 1500), ("sim4", 4, 1500)):
            bs, st = dp.generate(lab, simulate=num, MaxRanks=4, MaxOps=6, NTags=3,
                                 Variants=True, MinOps=minops, Exhaustive=False, timeout=1500)
            stats.append(st)
            progs += dp.progs_from(bs)
    seen, out = set(), []
    for p in progs:
        if p["id"] not in seen:
            seen.add(p["id"])
            out.append(p)
    return out, stats


def _proc_chunk(args: tuple[list[dict], list[int], int]) -> list[dict]:
    progs, seeds, sd = args
    from ptverif import procmpi
    pool = procmpi.RankPool(max(p["nranks"] for p in progs), seeds, REPO, VERIF)
    try:
        return [pool.run(p, seed=sd) for p in progs]
    finally:
        pool.close()


def run_in_processes(progs: list[dict]) -> list[dict]:
    """Ranks as separate processes with pairwise different hash seeds."""
    if not progs:
        return []
    nchunk = min(max(1, NCPU // 4), len(progs))
    chunks = []
    for i in range(nchunk):
        seeds = [1 + 1000 * i + 37 * r + seed() for r in range(8)]
        chunks.append((progs[i::nchunk], seeds, seed()))
    with ThreadPoolExecutor(max_workers=nchunk) as ex:
        res = list(ex.map(_proc_chunk, chunks))
    by_id = {r["id"]: r for chunk in res for r in chunk}
    return [by_id[p["id"]] for p in progs]


def sig_of(prog: dict, clause: str, mode: str) -> dict:
    return {"clause": clause, "forward_recv": dp.has_forward_recv(prog),
            "nested_holder": dp.has_nested_holder(prog),
            "source": prog["id"].split("/")[0], "mode": mode}


def forwarded_only(inst: dict) -> bool:
    """Every received name that is also a part output is the name of an array
    that the same part sends on unchanged (its expression reads only itself)."""
    for rk in inst["ranks"]:
        outs = {o for p in rk["parts"] for o in p["outs"]}
        for p in rk["parts"]:
            for rv in p["recvs"]:
                if rv["name"] in outs:
                    ex = p["exprs"].get(rv["name"])
                    if ex is None or ex["reads"] != [rv["name"]] or \
                            not any(s["name"] == rv["name"] for s in p["sends"]):
                        return False
    return True


def report(run: Run, prog: dict, iid: str, clauses: list[str], mode: str,
           inst: dict | None) -> None:
    for c in clauses:
        if c.startswith("MACHINERY"):
            raise MachineryError(f"{iid}: DistPartition self-check failed: {c}")
        sig = sig_of(prog, c, mode)
        if inst is not None:
            sig["only_forwarded_names"] = forwarded_only(inst)
            sig["verify"] = ",".join(sorted(set(inst.get("verify", [])) - {"ok"}))
        run.violation(f"{iid}:{c}",
                      f"{iid} ({mode} ranks): the partition returned by "
                      f"find_distributed_partition violates clause '{c}' of the "
                      f"DistributedGraphPart contract",
                      record={"prog": prog, "mode": mode},
                      observed={"clauses": clauses,
                                "verify": inst.get("verify") if inst else None},
                      sig=sig)


def parse_clauses(detail: str | None) -> list[str]:
    import re
    return re.findall(r'"([^"]+)"', detail or "")


def main(tier: str, only: list[dict] | None = None) -> int:
    run = Run(PROP, tier, "model_checking")
    t0 = time.time()
    if only is None:
        progs, gstats = programs(tier)
    else:
        progs, gstats = only, []
    t1 = time.time()
    by_id = {p["id"]: p for p in progs}
    results = dc.process_all(progs, {"seed": seed(), "execute": False})
    t2 = time.time()
    insts = []
    for r in results:
        if r.get("hang"):
            raise MachineryError(f"{r['id']}: {r['hang']}")
        if not r.get("ref_ok"):
            raise MachineryError(f"{r['id']}: reference evaluator finds a valid program "
                                 f"malformed: {r.get('ref_err')}")
        if not r.get("numbered"):
            st = r["stages"]
            bad = [(k, i, s["exc"] or s["status"]) for k in ("find", "number")
                   for i, s in enumerate(st[k]) if s and s["status"] != "ok"]
            run.violation(f"{r['id']}:no_partition",
                          f"{r['id']}: a well-formed program got no partition: {bad}",
                          record={"prog": by_id[r["id"]], "mode": "thread"}, observed=r["summary"],
                          sig=sig_of(by_id[r["id"]], "no_partition", "thread"))
            continue
        for an in r.get("anomalies", []):
            run.violation(f"{r['id']}:{an['what']}", f"{r['id']}: {an}",
                          record={"prog": by_id[r["id"]], "mode": "thread"},
                          sig=sig_of(by_id[r["id"]], an["what"], "thread"))
        insts.append(r["inst"])
    # ranks in separate processes with different hash seeds
    k = 5 if tier == "quick" else 2
    psel = [p for i, p in enumerate(progs) if i % k == seed() % k]
    pres = run_in_processes(psel)
    pinsts = []
    for r in pres:
        if "inst" in r:
            i2 = copy.deepcopy(r["inst"])
            i2["id"] = r["id"] + "%proc"
            pinsts.append(i2)
    thread_by_id = {i["id"]: i for i in insts}
    agree = 0
    for r in pres:
        t = thread_by_id.get(r["id"])
        if t is None or "inst" not in r:
            if (t is None) != ("inst" not in r):
                run.violation(f"{r['id']}:proc_differs",
                              f"{r['id']}: partitioned in one mode (threads / processes with "
                              f"different hash seeds) but not in the other",
                              record={"prog": by_id[r["id"]], "mode": "proc"},
                              sig=sig_of(by_id[r["id"]], "proc_differs", "proc"))
            continue
        agree += 1
    # the specification's own partitioner on the same communication structures
    ainsts = []
    for p in progs:
        g = p.get("gen") or {}
        if g.get("abs") and not g.get("faults") and p["id"].startswith("struct/"):
            ai = dp.abs_instance(dict(g, n=p["nranks"]), p["id"] + "%abs")
            if ai is not None:
                ainsts.append(ai)
    with ThreadPoolExecutor(max_workers=2) as ex:
        f_pv = ex.submit(dc.validate_partitions, insts + pinsts + ainsts)
        f_mc = ex.submit(dc.model_check, insts + ainsts)
        pv, mc = f_pv.result(), f_mc.result()
    run.coverage["phase_wall_s"] = {"generate": round(t1 - t0, 1), "real_code": round(t2 - t1, 1),
                                    "processes_and_tlc": round(time.time() - t2, 1)}
    same_parts = 0
    for ai in ainsts:
        if pv.verdicts[ai["id"]] != "ok" or mc["clauses"][ai["id"]] != {"ok"}:
            raise MachineryError(
                f"{ai['id']}: the specification's own partitioner (DistComm!AbsParts) fails "
                f"its own contract / executor model: {pv.detail.get(ai['id'])} "
                f"{sorted(mc['clauses'][ai['id']])}")
        real = thread_by_id.get(ai["id"][:-4])
        if real is not None and [len(rk["parts"]) for rk in real["ranks"]] == \
                [len(rk["parts"]) for rk in ai["ranks"]]:
            same_parts += 1
    for ai in ainsts:
        mc["clauses"].pop(ai["id"], None)
    nbad = 0
    rounds: dict[str, int] = {}
    for inst in insts + pinsts:
        iid = inst["id"]
        pid, mode = (iid[:-5], "proc") if iid.endswith("%proc") else (iid, "thread")
        v = pv.verdicts[iid]
        if v == "ok":
            nr = (pv.detail.get(iid) or "0").strip()
            rounds[nr] = rounds.get(nr, 0) + 1
            continue
        nbad += 1
        report(run, by_id[pid], iid, parse_clauses(pv.detail.get(iid)), mode, inst)
    inst_by_id = {i["id"]: i for i in insts}
    for iid, cl in mc["clauses"].items():
        for c in sorted(cl - {"ok"}):
            run.violation(f"{iid}:exec:{c}",
                          f"{iid}: DistExec finds a schedule on the returned partitions that "
                          f"ends in '{c}'", record={"prog": by_id[iid], "mode": "thread"},
                          observed=dc.counterexample(inst_by_id[iid]),
                          sig=sig_of(by_id[iid], "exec:" + c, "thread"))
    kinds: dict[str, int] = {}
    for p in progs:
        kinds[p["tagkind"]] = kinds.get(p["tagkind"], 0) + 1
    run.coverage.update({
        "states": pv.states + mc["nstates"], "transitions": pv.transitions + mc["ntrans"],
        "traces_validated_against_impl": len(insts) + len(pinsts),
        "evaluations": len(progs),
        "distinct_nontrivial": sum(1 for p in progs if any(
            nd["k"] == "hold" for rk in p["ranks"] for nd in rk["nodes"])),
        "rule": "programs as in C08 (library x tag types, DistComm exhaustive structures, "
                "-simulate samples with all variants); distinct by id (content hash); "
                "non-trivial = at least one message; every program's partitions of all ranks "
                "are one exported instance judged by DistPartition",
        "exhaustive": False,
        "instances_thread_ranks": len(insts),
        "instances_process_ranks_different_hash_seeds": len(pinsts),
        "thread_and_process_modes_both_partitioned": agree,
        "instances_with_contract_violations": nbad,
        "rounds_histogram": rounds, "tag_kinds": kinds,
        "distexec_states": mc["nstates"], "generator": gstats,
        "abstract_partitions_of_the_spec_checked": len(ainsts),
        "real_partition_has_same_parts_per_rank_as_abstract": same_parts,
        "tlc_wall_s": round(pv.wall + mc["wall"], 1),
        "tlc_distpartition_wall_s": round(pv.wall, 1), "tlc_distexec_wall_s": round(mc["wall"], 1),
    })
    for p in progs[:1] + progs[len(progs) // 2:len(progs) // 2 + 1]:
        run.sample({"program": {k: p[k] for k in ("id", "nranks", "tagkind", "ranks")}})
    if insts:
        run.sample({"exported_partition": insts[len(insts) // 2]["ranks"][0]})
    run.assumptions += [
        "the simulated MPI's collectives (pickled payloads, rank-dependent allreduce fold "
        "order) stand for real MPI collectives",
        "hash seeds are sampled (one set of pairwise different seeds per worker), not "
        "enumerated",
        "the exporter's reflective walk (dataclass fields) finds every array-valued "
        "constituent of the nodes used here",
        "TLC and the Json module are trusted",
    ]
    return run.finish()


def replay(rep: dict) -> int:
    rec = rep["record"]
    return main("quick", only=[rec["prog"]])


def selftest(tier: str) -> int:
    """Binding demonstration: corrupt one exported field of a real partition at
    a time and require DistPartition to name the right clause."""
    from ptverif import tlc
    lib = {p["id"]: p for p in dp.library(("str",))}
    prog = lib["lib/pingpong2"]
    res = dc.process_all([prog], {"seed": seed(), "execute": False}, nproc=1)[0]
    inst = res["inst"]
    cases: list[tuple[str, Any, str]] = []

    def case(name: str, clause: str, f: Any) -> None:
        c = copy.deepcopy(inst)
        c["id"] = name
        f(c)
        cases.append((name, c, clause))

    def first_send(c: dict) -> dict:
        return next(s for rk in c["ranks"] for p in rk["parts"] for s in p["sends"])

    def first_recv(c: dict) -> dict:
        return next(s for rk in c["ranks"] for p in rk["parts"] for s in p["recvs"])
    case("tag-differs-at-one-end", "tags_agree", lambda c: first_send(c).update(tag=99))

    def same_tags(c: dict) -> None:
        for rk in c["ranks"]:
            for p in rk["parts"]:
                for s in p["sends"] + p["recvs"]:
                    s["tag"] = 42
    case("all-messages-one-integer", "tags_distinct", same_tags)

    def recv_is_out(c: dict) -> None:
        rk = next(rk for rk in c["ranks"] if rk["posted"])
        p = next(p for p in rk["parts"] if p["recvs"])
        nm = p["recvs"][0]["name"]
        p["outs"].append(nm)
        p["exprs"][nm] = {"reads": [nm], "ncomm": 0}
        rk["known"].append(nm)
    case("received-name-is-part-output", "recv_not_output", recv_is_out)

    def sent_not_out(c: dict) -> None:
        rk = next(rk for rk in c["ranks"] if any(p["sends"] for p in rk["parts"]))
        p = next(p for p in rk["parts"] if p["sends"])
        nm = p["sends"][0]["name"]
        p["outs"].remove(nm)
        del p["exprs"][nm]
        rk["known"].remove(nm)
    case("sent-name-not-an-output", "sent_are_outputs", sent_not_out)

    def comm_inside(c: dict) -> None:
        p = c["ranks"][0]["parts"][0]
        p["exprs"][p["outs"][0]]["ncomm"] = 1
    case("recv-node-left-in-expression", "no_comm_inside", comm_inside)

    def cyclic(c: dict) -> None:
        rk = next(rk for rk in c["ranks"] if len(rk["parts"]) >= 2)
        rk["parts"][0]["needed"] = [1]
    case("cyclic-part-order", "acyclic", cyclic)

    def undefined_read(c: dict) -> None:
        rk = next(rk for rk in c["ranks"] if len(rk["parts"]) >= 2)
        late = rk["parts"][-1]["outs"][0]
        p0 = rk["parts"][0]
        p0["ins"].append(late)
        p0["part_in"].append(late)
        p0["exprs"][p0["outs"][0]]["reads"].append(late)
    case("part-reads-a-later-output", "reads_defined", undefined_read)

    def rounds(c: dict) -> None:
        rk = next(rk for rk in c["ranks"] if len(rk["parts"]) >= 2 and rk["parts"][1]["recvs"])
        rk["parts"][0]["recvs"] += rk["parts"][1]["recvs"]
        rk["parts"][1]["recvs"] = []
    case("receive-moved-before-the-send-it-answers", "rounds_agree", rounds)

    def twice(c: dict) -> None:
        rk = next(rk for rk in c["ranks"] if len(rk["parts"]) >= 2)
        nm = rk["overall"][0]
        for p in rk["parts"]:
            if nm not in p["outs"]:
                p["outs"].append(nm)
                p["exprs"][nm] = {"reads": [], "ncomm": 0}
    case("overall-output-produced-twice", "produced_once", twice)
    case("send-missing-from-partition", "complete",
         lambda c: next(p for rk in c["ranks"] for p in rk["parts"] if p["sends"])["sends"].pop())
    recs = [inst] + [c for _, c, _ in cases]
    val = tlc.validate_records("DistPartition", "DistPartition.cfg", recs, shards=1)
    ok = val.verdicts[inst["id"]] == "ok"
    print(inst["id"], val.verdicts[inst["id"]])
    for name, _c, clause in cases:
        got = parse_clauses(val.detail.get(name))
        hit = val.verdicts[name] == "bad" and clause in got
        ok = ok and hit
        print(f"  {name}: expect {clause}; got {got} {'' if hit else '  <-- NOT DETECTED'}")
    print("selftest", "passed" if ok else "FAILED")
    return 0 if ok else 2
