#!/bin/sh
# Runs the repository's pinned baseline (guard off) and compares with BASELINE.json's stable_pass list.
# usage: checks/baseline.sh   -> exit 0 iff all 80 stable tests pass
unset PYTATO_VERIF
OUT=$(mktemp /var/tmp/ptverif_junit.XXXXXX.xml)
cd /repo && /venv/bin/python -m pytest -ra -q -p no:cacheprovider --timeout=900 --continue-on-collection-errors --junitxml="$OUT" >/dev/null 2>&1
/venv/bin/python - "$OUT" <<'PY'
import json, sys, xml.etree.ElementTree as ET
base = json.load(open("/root/.vp/BASELINE.json"))["stable_pass"] if __import__("os").path.exists("/root/.vp/BASELINE.json") else None
passed = set()
for tc in ET.parse(sys.argv[1]).getroot().iter("testcase"):
    if not any(c.tag in ("failure", "error", "skipped") for c in tc):
        passed.add(f"{tc.get('classname')}::{tc.get('name')}")
if base is None:
    print(f"{len(passed)} passed (no BASELINE.json to compare with)"); sys.exit(0 if len(passed) >= 80 else 1)
missing = [t for t in base if t not in passed]
print(f"baseline: {len(base) - len(missing)}/{len(base)} stable tests pass")
for m in missing: print("  MISSING", m)
sys.exit(1 if missing else 0)
PY
RC=$?
rm -f "$OUT"
exit $RC
