#!/venv/bin/python
"""Confirms a seeded change produced by an independent sub-agent and adopts it.

usage: checks/adopt.py <worktree> <out-subdir (A|B)> <new id, e.g. C05-C> "<needs>"

In the agent's own scratch worktree (which must be clean): the demo must exit
0 without the patch and non-zero with it, and the two baseline test files must
give `80 passed` (+ the 2 failures that exist on the unchanged tree) with it.
Only then is /verif/seeded/<id>/ written.  /repo is never touched.
"""
from __future__ import annotations

import json
import os
import re
import shutil
import subprocess
import sys

VERIF = os.path.dirname(os.path.dirname(os.path.abspath(__file__)))


def sh(cmd: str, cwd: str) -> subprocess.CompletedProcess:
    env = dict(os.environ, PYTHONPATH=cwd, PYTHONHASHSEED="0")
    return subprocess.run(cmd, shell=True, cwd=cwd, env=env, capture_output=True, text=True)


def main(wt: str, sub: str, sid: str, needs: str) -> int:
    out = os.path.join(wt, "out", sub)
    patch, demo = os.path.join(out, "patch.diff"), os.path.join(out, "demo.py")
    if not (os.path.isfile(patch) and os.path.isfile(demo)):
        print("missing patch.diff / demo.py")
        return 2
    sh("git checkout -- pytato", wt)
    r0 = sh(f"/venv/bin/python {demo}", wt)
    a = sh(f"git apply {patch}", wt)
    if a.returncode:
        print("patch does not apply:", a.stderr[:300])
        return 2
    try:
        r1 = sh(f"/venv/bin/python {demo}", wt)
        t = sh("/venv/bin/python -m pytest -q -p no:cacheprovider test/test_pytato.py "
               "test/test_linalg.py 2>&1 | tail -3", wt)
    finally:
        sh("git checkout -- pytato", wt)
    m = re.search(r"(\d+) failed, (\d+) passed", t.stdout)
    tests_ok = bool(m) and m.group(2) == "80" and m.group(1) == "2"
    print(f"demo clean rc={r0.returncode}  demo patched rc={r1.returncode}  "
          f"tests: {t.stdout.strip().splitlines()[-1] if t.stdout.strip() else '?'}")
    if r0.returncode != 0 or r1.returncode == 0 or not tests_ok:
        print("NOT adopted")
        print(r0.stdout[-500:], r1.stdout[-500:])
        return 1
    dst = os.path.join(VERIF, "seeded", sid)
    os.makedirs(dst, exist_ok=True)
    for f in ("patch.diff", "demo.py", "notes.md"):
        if os.path.exists(os.path.join(out, f)):
            shutil.copy(os.path.join(out, f), os.path.join(dst, f))
    prop = sid.split("-")[0]
    with open(os.path.join(dst, "meta.json"), "w") as f:
        json.dump({"id": sid, "property": prop, "needs": needs, "checks": [prop],
                   "demo": "demo.py",
                   "origin": "independent sub-agent given only the property text and a "
                             "scratch worktree (told which changes were already known)",
                   "confirmed": f"main session re-ran: demo rc {r0.returncode} on the clean tree, "
                                f"rc {r1.returncode} with the patch; baseline tests with the "
                                f"patch: {m.group(2)} passed + the same {m.group(1)} known failures"},
                  f, indent=1)
    print("adopted as", sid)
    return 0


if __name__ == "__main__":
    sys.exit(main(*sys.argv[1:5]))
