"""C11 -- generated kernels are memory-safe for every admissible size.

G: programs of C01's space (static shapes) plus programs over symbolic
   (size-parameter) shapes (C16's templates and directed ones: roll / pad /
   concatenate / reshape / slices / einsum / stored reductions).
E: for each kernel produced by the real generate_loopy the harness exports the
   ACCESS MODEL (ptverif/kernelexport.access_model): for every subscript of
   every instruction its index expressions, the extent of the accessed array,
   the guard context (conditions of the enclosing If branches, negated on
   else-branches), the iteration domain (from the ISL sets, with the
   single-assignment scalar temporaries that hold reduction bounds substituted)
   and the size parameters.  Data-dependent index components are skipped, as
   the property allows; their affine neighbours are not.
M: the access model becomes a generated TLA+ module (ptverif/bounds.py):
     * kernels with size parameters: Apalache decides  Init => InBounds  over
       UNBOUNDED integers (all loop indices, all non-negative sizes), and TLC
       re-checks the same module on a bounded range (sizes 0..8) to validate
       the translation;
     * static kernels: the iteration domain is finite, TLC decides it
       completely.
   A counterexample names the obligation (array, axis, instruction) and the
   index / size values.
"""
from __future__ import annotations

import multiprocessing as mp
import traceback
from concurrent.futures import ThreadPoolExecutor
from typing import Any

import numpy as np

from checks import c16
from ptverif import bounds, progspace, tlc
from ptverif import replay as rp
from ptverif.common import NCPU, MachineryError, Run, seed

PROP = "C11"


def symbolic_programs() -> list[dict]:
    """name -> builder(pt) -> outputs, over size-parameter shapes."""
    progs = []

    def add(name: str, build: Any) -> None:
        progs.append({"id": "sym/" + name, "build": name})
    for t in c16.templates():
        add("c16:" + t["name"], None)
    for name in DIRECTED:
        add(name, None)
    return progs


def generated_symbolic(rng: np.random.Generator, n: int) -> list[dict]:
    """C16's generated programs over symbolic shapes, as kernels."""
    return [{"id": "symgen/" + p["id"], "build": "c16gen", "gen": p}
            for p in c16.generated(rng, n)]


def _directed() -> dict[str, Any]:
    def roll_sym(pt: Any) -> dict:
        n = pt.make_size_param("n")
        x = pt.make_placeholder("x", (n, 3), np.float64)
        return {"a": pt.roll(x, 2, 0), "b": pt.roll(x, -5, 0), "c": pt.roll(x, 1, 1)}

    def pad_static(pt: Any) -> dict:
        y = pt.make_placeholder("y", (4, 3), np.float64)
        return {"a": pt.pad(y, ((1, 2), (0, 1))), "b": pt.pad(y, 2), "c": pt.pad(y[1:], (0, 3))}

    def concat_static(pt: Any) -> dict:
        y = pt.make_placeholder("y", (4, 3), np.float64)
        z = pt.make_placeholder("z", (2, 3), np.float64)
        return {"a": pt.concatenate([y, z, y[1:3]], axis=0),
                "b": pt.concatenate([y, y], axis=1), "c": pt.stack([y, y * 2], axis=1)}

    def reshape_static(pt: Any) -> dict:
        y = pt.make_placeholder("y", (4, 3), np.float64)
        return {"a": pt.reshape(y, (2, 6))[::-1, 1:5:2], "b": pt.reshape(y, (3, 4), order="F"),
                "c": pt.reshape(y, (12,))[::-3], "d": pt.reshape(y[:, 1:], (2, 2, 2))}

    def slices_sym(pt: Any) -> dict:
        n = pt.make_size_param("n")
        x = pt.make_placeholder("x", (2 * n + 1, 4), np.float64)
        return {"a": x[:, 1:3] + 1, "b": x[:, ::-1] * 2, "c": x[:, 3]}

    def einsum_sym(pt: Any) -> dict:
        n = pt.make_size_param("n")
        m = pt.make_size_param("m")
        A = pt.make_placeholder("A", (n, m), np.float64)
        B = pt.make_placeholder("B", (m, 3), np.float64)
        v = pt.make_placeholder("v", (m,), np.float64)
        return {"a": A @ B, "b": pt.einsum("ij,j->i", A, v), "c": pt.einsum("ij,ij->i", A, A)}

    def bcast_sym(pt: Any) -> dict:
        n = pt.make_size_param("n")
        x = pt.make_placeholder("x", (n, 1), np.float64)
        y = pt.make_placeholder("y", (1, 4), np.float64)
        s = pt.make_placeholder("s", (), np.float64)
        return {"a": x + y * s, "b": pt.maximum(x, y), "c": pt.where(pt.greater(x, y), x, s)}

    def adv_index(pt: Any) -> dict:
        y = pt.make_placeholder("y", (4, 3), np.float64)
        i = pt.make_data_wrapper(np.array([0, -1, 2]))
        return {"a": y[i, 1:], "b": y[::2, i], "c": y[i, i]}

    def stored_sym(pt: Any) -> dict:
        from pytato.tags import ImplStored
        n = pt.make_size_param("n")
        x = pt.make_placeholder("x", (n, 3), np.float64)
        t = (x * 2).tagged(ImplStored())
        return {"a": pt.sum(t, axis=1) + pt.amax(t, axis=1), "b": pt.roll(t, 1, 0)}
    def pad_sym(pt: Any) -> dict:
        n = pt.make_size_param("n")
        m = pt.make_size_param("m")
        x = pt.make_placeholder("x", (n,), np.float64)
        y = pt.make_placeholder("y", (n, m), np.float64)
        z = pt.make_placeholder("z", (n, 3), np.float64)
        return {"a": pt.pad(x, (1, 3)), "b": pt.pad(x, (0, 1)), "c": pt.pad(x, (3, 1)),
                "d": pt.pad(y, ((0, 2), (1, 1))), "e": pt.pad(z, ((2, 0), (0, 2))),
                "f": pt.pad(x, 2), "g": pt.pad(y, ((1, 0), (0, 3)))}

    def join_sym(pt: Any) -> dict:
        n = pt.make_size_param("n")
        x = pt.make_placeholder("x", (n, 2), np.float64)
        y = pt.make_placeholder("y", (n, 3), np.float64)
        return {"a": pt.concatenate([x, y, x], axis=1), "b": pt.stack([x, x * 2, x], axis=0),
                "c": pt.stack([x, x], axis=2), "d": pt.expand_dims(y, 1) + 1,
                "e": pt.transpose(y, (1, 0)) * 2, "f": pt.sum(y, axis=1),
                "g": pt.concatenate([y, y + 1], axis=1)[:, ::-2]}

    def repeated_operand(pt: Any) -> dict:
        # one array at two positions of a join (what a table keyed by the operand confuses)
        a = pt.make_placeholder("a", (3,), np.float64)
        b = pt.make_placeholder("b", (5,), np.float64)
        return {"a": pt.concatenate([a, b, a]), "b": pt.concatenate([2 * a, b, 2 * a]),
                "c": pt.concatenate([b, a, a, b]), "d": pt.stack([a, a + 1, a]),
                "e": pt.concatenate([a[:2], b, a[:2]])}
    return {"roll_sym": roll_sym, "pad_static": pad_static, "concat_static": concat_static,
            "pad_sym": pad_sym, "join_sym": join_sym, "repeated_operand": repeated_operand,
            "reshape_static": reshape_static, "slices_sym": slices_sym,
            "einsum_sym": einsum_sym, "bcast_sym": bcast_sym, "adv_index": adv_index,
            "stored_sym": stored_sym}


DIRECTED = _directed()


def model_of(prog: dict) -> dict:
    """Builds the program, generates the kernel, exports the access model."""
    import pytato as pt

    from ptverif import cexec, kernelexport
    res: dict[str, Any] = {"id": prog["id"], "status": "ok", "model": None}
    try:
        if "build" in prog:
            name = prog["build"]
            if name.startswith("c16:") or name == "c16gen":
                t = c16.template_of_program(prog["gen"]) if name == "c16gen" else \
                    next(t for t in c16.templates() if t["name"] == name[4:])
                params = {p: pt.make_size_param(p) for p in t["params"]}

                def dim_pt(d: Any) -> Any:
                    return c16.dim_to_pt(d, params)
                ins = {nm: pt.make_placeholder(nm, tuple(dim_pt(d) for d in shp), np.float64)
                       for nm, (shp, _) in t["inputs"].items()}
                outs = t["build"](pt, ins, params)
            else:
                outs = DIRECTED[name](pt)
        else:
            rng = np.random.default_rng(abs(hash(prog["id"])) % (2 ** 31))
            data = {}
            for i in prog["inputs"]:
                if i.get("kind") == "dw":
                    data[i["name"]] = np.array(i["data"], rp.DT[i["dtype"]]).reshape(
                        i["shape"]) if "data" in i else rng.standard_normal(
                        i["shape"]).astype(rp.DT[i["dtype"]])
            pb = rp.PtBackend(data)
            pb.run(prog)
            if pb.rejections:
                res["status"] = "pytato_rejects"
                return res
            outs = pb.outs()
            if not all(isinstance(v, pt.Array) for v in outs.values()):
                res["status"] = "non_array_output"
                return res
        bp = cexec.generate(outs, qa_shim=bool(prog.get("qa")))
    except Exception as ex:      # noqa: BLE001
        res["status"] = "generation_failed:" + type(ex).__name__   # C01's business
        return res
    try:
        res["model"] = kernelexport.access_model(bp.program, prog["id"])
    except Exception as ex:      # noqa: BLE001
        res["status"] = "export_failed:" + repr(ex)[:200] + traceback.format_exc()[-300:]
    return res


def _model_many(progs: list[dict]) -> list[dict]:
    return [model_of(p) for p in progs]


def main(tier: str, only: list[dict] | None = None) -> int:
    run = Run(PROP, tier, "model_checking")
    rng = np.random.default_rng(seed())
    if only is not None:
        progs = only
    else:
        progs = symbolic_programs()
        progs += generated_symbolic(rng, 40 if tier == "quick" else 400)
        # boundary cases of basic indexing / roll / concatenate as KERNELS (the
        # clamping rules of negative steps and out-of-range starts decide
        # whether the generated subscript stays inside the array)
        progs += list(progspace.fam_basic_nd([(0,), (1,), (3,), (2, 3)]))
        progs += list(progspace.fam_roll([(3,), (2, 3)]))
        progs += list(progspace.fam_stack_concat([(2,), (0, 2), (2, 3)]))
        if tier != "quick":
            progs += list(progspace.fam_basic_1d((0, 1, 2, 4)))
            progs += list(progspace.fam_basic_nd([(4, 1, 2)]))
            progs += list(progspace.fam_reshape(3, (0, 1, 2, 3)))
        n = 250 if tier == "quick" else 3000
        for k in range(n):
            progs.append(progspace.random_program(rng, f"r{k}", int(rng.integers(1, 8))))
    if only is None:
        # the same programs with reductions INLINED (cexec qa_shim): other subscripts
        from checks import c01
        progs += [{**p, "id": p["id"] + "|qa", "qa": True} for p in progs
                  if "build" in p or any(c["op"] in c01.REDUCING for c in p["calls"])]
    k = NCPU * 4
    with mp.Pool(NCPU) as pool:
        results = [r for chunk in pool.map(_model_many,
                                           [progs[i::k] for i in range(k) if progs[i::k]])
                   for r in chunk]
    by_id = {p["id"]: p for p in progs}
    status: dict[str, int] = {}
    stats = {"accesses": 0, "index_components": 0, "data_dependent_components": 0,
             "unsupported_components": 0}
    unsupported_kinds: dict[str, int] = {}
    sym_obl: list[dict] = []
    static_obl: list[dict] = []
    for r in results:
        st = r["status"].split(":")[0]
        status[st] = status.get(st, 0) + 1
        if st == "export_failed":
            raise MachineryError(f"{r['id']}: {r['status']}")
        if not r["model"]:
            continue
        for kk in stats:
            stats[kk] += r["model"]["stats"][kk]
        for kk, v in r["model"]["stats"].get("unsupported_kinds", {}).items():
            unsupported_kinds[kk] = unsupported_kinds.get(kk, 0) + v
        for o in r["model"]["obligations"]:
            if "static_fail" in o:
                run.violation(o["id"], f"{o['id']}: {o['static_fail']}",
                              record=_rec(by_id, o["id"]), sig={"clause": "arity"})
                continue
            (sym_obl if o["params"] else static_obl).append(o)
    # de-duplicate identical obligations (same text up to the id)
    def dedup(obls: list[dict]) -> list[dict]:
        seen: dict[str, dict] = {}
        for o in obls:
            key = repr((o["domain"], o["guards"], o["divisors"], o["index"], o["extent"]))
            seen.setdefault(key, o)
        return list(seen.values())
    n_sym_raw, n_static_raw = len(sym_obl), len(static_obl)
    sym_obl, static_obl = dedup(sym_obl), dedup(static_obl)

    def batches(obls: list[dict], size: int) -> list[list[dict]]:
        return [obls[i:i + size] for i in range(0, len(obls), size)]

    states = 0
    apalache_wall = 0.0
    apalache_batches = apalache_ok = 0
    timeouts = 0

    inconclusive: list[str] = []

    def report(o: dict, how: str, detail: Any) -> None:
        if o.get("dropped_guards"):
            # the obligation was checked WITHOUT a data-dependent guard that
            # the code has: its failure says nothing about the code
            inconclusive.append(o["id"])
            return
        run.violation(o["id"],
                      f"{o['id']}: access out of bounds possible ({how}): {o['text']}; "
                      f"counterexample {detail}", record=_rec(by_id, o["id"]),
                      sig={"clause": "out_of_bounds", "engine": how,
                           "array_axis": o["id"].split("|")[-1]})

    # symbolic kernels: Apalache (unbounded) + TLC (bounded cross-check)
    sym_batches = batches(sym_obl, 40)

    def apa(job: tuple[int, list[dict]]) -> tuple:
        i, b = job
        text = bounds.module_text(f"PtBoundsS{i}", b, "Int")
        return (i, b, *bounds.run_apalache(text, f"PtBoundsS{i}", timeout=900))
    with ThreadPoolExecutor(max_workers=min(8, max(1, len(sym_batches)))) as ex:
        for i, b, verdict, detail, wall in ex.map(apa, list(enumerate(sym_batches))):
            apalache_batches += 1
            apalache_wall += wall
            if verdict == "ok":
                apalache_ok += 1
            elif verdict == "violated":
                acc, vals = bounds.cex_obligation(detail)
                if acc is None or not (1 <= acc <= len(b)):
                    raise MachineryError(f"cannot read Apalache's counterexample: {detail}")
                report(b[acc - 1], "apalache", vals)
            elif verdict == "timeout":
                timeouts += 1
            else:
                raise MachineryError(f"Apalache failed on batch {i}: {detail}")

    def tl(job: tuple[str, int, list[dict]]) -> tuple:
        kind, i, b = job
        text = bounds.module_text(f"PtBounds{kind}{i}", b, "(-1..9)")
        return (kind, i, b, *bounds.run_tlc_bounded(text, f"PtBounds{kind}{i}"))
    jobs = [("X", i, b) for i, b in enumerate(sym_batches)] + \
           [("T", i, b) for i, b in enumerate(batches(static_obl, 150))]
    with ThreadPoolExecutor(max_workers=8) as ex:
        for kind, i, b, verdict, detail, st in ex.map(tl, jobs):
            states += st
            if verdict == "violated":
                for acc in detail:
                    if 1 <= acc <= len(b):
                        report(b[acc - 1], "tlc" if kind == "T" else "tlc-bounded", f"acc={acc}")
            elif verdict == "error":
                raise MachineryError(f"TLC failed on bounds batch {kind}{i}: {detail[:600]}")
    run.coverage.update({
        "states": states, "transitions": states,
        "traces_validated_against_impl": len(sym_obl) + len(static_obl),
        "evaluations": n_sym_raw + n_static_raw,
        "distinct_nontrivial": len(sym_obl) + len(static_obl),
        "rule": "one obligation per (kernel, instruction, array access, axis) whose index is "
                "affine / quasi-affine; distinct = different domain/guard/index/extent text",
        "kernels": sum(1 for r in results if r["model"]), "status": status,
        "access_stats": stats, "unsupported_kinds": unsupported_kinds,
        "symbolic_obligations": len(sym_obl), "static_obligations": len(static_obl),
        "apalache_batches": apalache_batches, "apalache_batches_ok": apalache_ok,
        "apalache_timeouts": timeouts, "apalache_wall_s": round(apalache_wall, 1),
        "unbounded": timeouts == 0,
        "obligations_with_dropped_data_guards": sum(
            1 for o in sym_obl + static_obl if o.get("dropped_guards")),
        "inconclusive_because_of_dropped_guard": len(inconclusive),
        "exhaustive": False,
    })
    for o in (sym_obl[:2] + static_obl[:1]):
        run.sample({k2: o[k2] for k2 in ("id", "text", "domain", "guards", "index", "extent")})
    run.assumptions += [
        "Apalache 0.58 / Z3 decide Init => InBounds over mathematical integers for kernels "
        "with size parameters; static kernels are decided completely by TLC",
        "loopy's ISL domains and the expression walker of ptverif/kernelexport.py are trusted; "
        "data-dependent index components are skipped as the property allows",
        "the checked kernel is the one in BoundProgram.program (before loopy's own "
        "preprocessing / scheduling)",
    ]
    if timeouts:
        run.assumptions.append(f"{timeouts} Apalache batch(es) timed out: for those only the "
                               f"bounded TLC result holds")
    return run.finish()


def _rec(by_id: dict, oid: str) -> Any:
    p = by_id.get(oid.split("|")[0])
    return p


def replay(rep: dict) -> int:
    return main("quick", only=[rep["record"]])


def selftest(tier: str) -> int:
    """A deliberately wrong guard must be refuted by Apalache and by TLC."""
    good = {"id": "g", "vars": ["i", "n"], "params": ["n"], "divisors": ["v_n"],
            "domain": [["(v_i >= 0)", "(v_i < v_n)"]], "guards": [],
            "index": "((v_i + (-2)) % v_n)", "extent": "v_n", "text": "roll", "ranges": {}}
    bad = dict(good, id="b", index="(v_i + 1)", text="shifted access without a guard")
    t = bounds.module_text("PtBoundsSelf", [good, bad], "Int")
    v, d, _ = bounds.run_apalache(t, "PtBoundsSelf")
    acc, _vals = bounds.cex_obligation(d) if v == "violated" else (None, {})
    t2 = bounds.module_text("PtBoundsSelf", [good, bad], "(-1..6)")
    v2, d2, _ = bounds.run_tlc_bounded(t2, "PtBoundsSelf")
    ok = v == "violated" and acc == 2 and v2 == "violated" and d2 == [2]
    print("selftest", "passed" if ok else "FAILED", v, acc, v2, d2)
    return 0 if ok else 2
