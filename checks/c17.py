"""C17 -- code generation, partitioning and tag numbering are
process-independent.

E  A pool of interpreter processes -- PYTHONHASHSEED in {0..k-1}, two
   allocation histories each ("fwd": programs in list order; "warm": reverse
   order, other graphs built and discarded before every emission) -- is asked,
   for a fixed list of programs given as data, for: the canonical loopy kernel
   text (every set sorted, every ordered collection in its own order), loopy's
   persistent key of the translation unit, the C source, the generated Python
   source, and for multi-rank programs the partition summary (part structure,
   names, full reflective structure) and the tag-number map of every rank;
   each twice in the same process.  Events Emit(proc, kind, prog, rep,
   sha256) are validated by TLC against spec/PtProcess.tla: SingleValued at
   every step of the trace, Witnessed (>= 2 seeds, >= 2 histories, 2
   repetitions per key) against vacuity.  A mismatch produces a unified diff.

Level: exploration (hash seeds and histories are sampled).
"""
from __future__ import annotations

import difflib
import re
import time
from collections import defaultdict
from concurrent.futures import ThreadPoolExecutor
from typing import Any

import numpy as np

from ptverif import proclib, tlcx
from ptverif.common import MachineryError, Run, seed
from ptverif.procpool import Worker

PROP = "C17"


# --------------------------------------------------------------------------
# programs (data; the same text goes to every process)

def programs(tier: str) -> tuple[list[dict], dict]:
    from ptverif import distprogs as dp
    from ptverif import progspace
    stats: dict[str, Any] = {}
    progs: list[dict] = []
    for name in proclib.HAND:
        progs.append({"id": f"hand/{name}", "kind": "hand", "name": name,
                      "inline": name == "calls"})
    rng = np.random.default_rng(seed() + 1717)
    nrand = 40 if tier == "thorough" else 12
    k = 0
    tries = 0
    while k < nrand and tries < nrand * 5:
        tries += 1
        try:
            p = progspace.random_program(rng, f"rand/{k}", int(rng.integers(4, 12)),
                                         nouts=int(rng.integers(2, 5)))
        except Exception:       # noqa: BLE001   (generator could not finish a program)
            continue
        for i in p["inputs"]:
            i.pop("np", None)
        cand = {"id": f"rand/{k}", "kind": "json", "prog": p}
        try:        # only programs pytato accepts (the generator is NumPy-driven)
            proclib.build_outputs(cand)
        except Exception:       # noqa: BLE001
            stats["random_rejected"] = stats.get("random_rejected", 0) + 1
            continue
        progs.append(cand)
        k += 1
    stats["random_programs"] = k
    if tier == "thorough":
        lib = dp.library(("str", "class", "frozenset", "int", "tuple", "dataclass", "mixed"))
        bs, st = dp.generate("sim17", simulate=200, MaxRanks=4, MaxOps=6, NTags=3,
                             Variants=True, MinOps=2, Exhaustive=False)
    else:
        lib = dp.library(("class", "frozenset")) + dp.library(("str", "tuple"))[::3]
        bs, st = dp.generate("sim17", simulate=25, MaxRanks=4, MaxOps=6, NTags=3,
                             Variants=True, MinOps=2, Exhaustive=False)
    stats["distcomm"] = st
    seen = set()
    ncode = 0
    for k, p in enumerate(proclib.dist_hand() + lib + dp.progs_from(bs)):
        if p["id"] in seen:
            continue
        seen.add(p["id"])
        # code for the parts (generate_code_for_partition) is generated for the
        # hand-written multi-rank programs and for a slice of the others
        code = p["id"].startswith("hand/") or k % (3 if tier == "thorough" else 9) == 0
        ncode += code
        progs.append({"id": f"dist/{p['id']}", "kind": "dist", "prog": p, "partcode": code})
    stats["dist_programs_with_part_code"] = ncode
    stats["programs"] = len(progs)
    stats["dist_programs"] = len(seen)
    return progs, stats


# --------------------------------------------------------------------------

def collect(progs: list[dict], seeds: list[int], split: int, texts: bool = True
            ) -> list[dict]:
    """-> events with proc / seed / hist filled in"""
    jobs = []            # (proc id, seed, hist, part)
    for s in seeds:
        for hist in ("fwd", "warm"):
            for part in range(split):
                jobs.append((f"s{s}-{hist}-{part}", s, hist, part))

    def work(job: tuple) -> list[dict]:
        proc, s, hist, part = job
        mine = progs[part::split]
        if hist == "warm":
            mine = mine[::-1]
        w = Worker(s, proc)
        try:
            w.call("hello")
            evs = w.call("proclib.emit", programs=mine, warm=hist == "warm", reps=2,
                         texts=texts)
        finally:
            w.close()
        for e in evs:
            e.update({"proc": proc, "seed": s, "hist": hist})
        return evs
    out: list[dict] = []
    with ThreadPoolExecutor(max_workers=16) as ex:
        for evs in ex.map(work, jobs):
            out += evs
    return out


def diff_class(a: str, b: str) -> tuple[str, str, str]:
    """-> (class, where, unified diff).  class: tokens_reordered (the lines
    differ only in the order of their tokens), lines_reordered (the same lines
    in another order), content."""
    la, lb = a.splitlines(), b.splitlines()
    ud = "\n".join(difflib.unified_diff(la, lb, "emission A", "emission B", lineterm="",
                                        n=1))
    tok = re.compile(r"[A-Za-z_0-9.]+|\S")
    where = ""
    if len(la) == len(lb):
        diffs = [(x, y) for x, y in zip(la, lb) if x != y]
        if diffs:
            where = re.sub(r"[\s(\[{:=].*", "", diffs[0][0].strip()[:60]) or \
                diffs[0][0].strip()[:20]
        if diffs and all(sorted(tok.findall(x)) == sorted(tok.findall(y))
                         for x, y in diffs):
            m = re.match(r"\s*(def \w+|\w+)", diffs[0][0])
            return "tokens_reordered", (m.group(1) if m else where), ud
    if sorted(la) == sorted(lb):
        first = next((x for x, y in zip(la, lb) if x != y), "")
        return "lines_reordered", re.sub(r"[\s(\[{:=].*", "", first.strip()[:60]), ud
    return "content", where, ud


def judge(run: Run, events: list[dict], stats: dict) -> None:
    by_key: dict[tuple[str, str], list[dict]] = defaultdict(list)
    for e in events:
        by_key[(e["kind"], e["prog"])].append(e)
    records = []
    for (kind, prog), evs in sorted(by_key.items()):
        records.append({"id": f"{kind}|{prog}", "kind": kind, "prog": prog,
                        "evs": [{k: e[k] for k in ("proc", "seed", "hist", "kind", "prog",
                                                   "rep", "digest")} for e in evs]})
    t0 = time.time()
    val = tlcx.validate("PtProcess", "PtProcess.cfg", records, timeout=1800, per_shard=20)
    stats["wall_tlc_s"] = round(time.time() - t0, 1)
    stats["states"] = val.states
    stats["transitions"] = val.transitions
    stats["keys"] = len(records)
    stats["events"] = len(events)
    nontrivial = 0
    found: dict[str, dict] = {}
    for rec in records:
        evs = by_key[(rec["kind"], rec["prog"])]
        if not evs[0].get("text", "x").startswith(("raised", "not partitioned")):
            nontrivial += 1
        v = val.verdicts[rec["id"]]
        if v == "ok":
            continue
        if v.startswith("machinery"):
            raise MachineryError(f"PtProcess: {rec['id']}: {v}")
        _, clause, k, j = val.detail[rec["id"]][0]
        if clause == "Witnessed":
            raise MachineryError(f"{rec['id']}: not witnessed under >= 2 seeds, >= 2 "
                                 "histories and 2 repetitions (vacuity guard)")
        a, b = evs[j - 1], evs[k - 1]
        cls, where, ud = diff_class(a.get("text", ""), b.get("text", ""))
        kind0 = rec["kind"].split("@")[0]
        ndig = len({e["digest"] for e in evs})
        same_proc = a["proc"] == b["proc"]
        same_seed = a["seed"] == b["seed"]
        key = f"{kind0}/{cls}/{where}" if cls != "content" else f"{rec['kind']}|{rec['prog']}"
        extra_sig: dict[str, Any] = {}
        if kind0 == "partcode":
            # does one array of this rank's partition carry several names?  (then
            # which name is computed and which is copied is a known order dependence)
            pt_ = by_key.get((rec["kind"].replace("partcode", "part"), rec["prog"]), [{}])[0]
            digs = re.findall(r"^denotes \S+ = (\w+)", pt_.get("text", ""), flags=re.M)
            if len(digs) != len(set(digs)):
                extra_sig["one_array_several_names"] = True
                key = f"partcode/one_array_several_names/{where}"
        f = found.setdefault(key, {
            "progs": [], "first": (rec, a, b, cls, where, ud, ndig, len(evs)),
            "sig": {"kind": kind0, "clause": "SingleValued", "diff": cls, "where": where,
                    **({"prog": rec["prog"]} if cls == "content" and not extra_sig else {}),
                    **extra_sig,
                    "varies_with": "repetition" if same_proc else
                                   ("history" if same_seed else "seed")}})
        f["progs"].append(f"{rec['kind']}|{rec['prog']}")
    for key, f in sorted(found.items()):
        rec, a, b, cls, where, ud, ndig, nev = f["first"]
        run.violation(
            key,
            f"{rec['kind']} of program {rec['prog']} is not single-valued: {ndig} different "
            f"emissions in {nev}; first difference between process {a['proc']} "
            f"(rep {a['rep']}) and {b['proc']} (rep {b['rep']}); the texts differ by "
            f"{cls} at '{where}'; {len(f['progs'])} (artefact, program) keys show this "
            f"difference: {f['progs'][:8]}\n" + ud[:1500],
            record={"prog": rec["prog"], "kind": rec["kind"]},
            observed={"diff": ud[:6000], "keys": f["progs"],
                      "a": {k: a[k] for k in ("proc", "seed", "hist", "rep")},
                      "b": {k: b[k] for k in ("proc", "seed", "hist", "rep")}},
            sig=f["sig"])
    stats["keys_not_single_valued"] = sum(len(f["progs"]) for f in found.values())
    stats["nontrivial_keys"] = nontrivial


def tiers(tier: str) -> dict[str, Any]:
    if tier == "thorough":
        return {"seeds": list(range(16)), "split": 2}
    return {"seeds": [0, 1, 2, 3], "split": 2}


def main(tier: str, only: dict | None = None) -> int:
    run = Run(PROP, tier, "exploration")
    T = tiers(tier)
    seeds = [s + seed() for s in T["seeds"]]
    progs, pstats = programs(tier)
    if only is not None:
        progs = [p for p in progs if p["id"] == only["prog"]]
        if not progs:
            raise MachineryError(f"program {only['prog']} is not in the list of this tier")
    stats: dict[str, Any] = {}
    t0 = time.time()
    events = collect(progs, seeds, 1 if only else T["split"])
    stats["wall_emit_s"] = round(time.time() - t0, 1)
    judge(run, events, stats)
    kinds = sorted({e["kind"].split("@")[0] for e in events})
    run.coverage.update({
        "states": stats["states"], "transitions": stats["transitions"],
        "traces_validated_against_impl": stats["keys"],
        "evaluations": stats["events"],
        "distinct_nontrivial": stats["nontrivial_keys"],
        "rule": "one key per (artefact kind, program[, rank]); distinct by key; non-trivial = "
                "the emission is generated code / a partition, not a refusal of the target",
        "exhaustive": False,
        "seeds": seeds, "histories": ["fwd", "warm"], "repetitions": 2,
        "processes": len(seeds) * 2 * (1 if only else T["split"]),
        "artefact_kinds": kinds, **pstats,
        **{k: v for k, v in stats.items() if k not in ("states", "transitions")},
        "scope": "hand-written programs (multi-output DAG with sharing, reductions, einsum, "
                 "basic/advanced indexing, 7 unnamed + 2 named data wrappers, traced function "
                 "calls inlined and not inlined, 14 placeholders, casts/where/comparisons, "
                 "stored and named temporaries, size parameters, user tags), random programs "
                 "of C01's space, the distributed library with class / frozenset / str / "
                 "tuple communication tags and simulated DistComm programs",
    })
    for e in events[:3]:
        run.sample({k: e[k] for k in ("proc", "seed", "hist", "kind", "prog", "rep", "digest")})
    run.assumptions += [
        "TLC and the Json module are trusted; the canonical kernel dump sorts every set "
        "and keeps every ordered collection (arguments, instructions, domains) in order",
        "hash seeds (4 quick / 16 thorough) and two allocation histories are sampled",
        "all ranks of a multi-rank program run as threads of one process (one hash seed "
        "per world); single-valuedness over processes then covers mixed-seed worlds",
        "loopy's own code generation is outside pytato but inside what is compared "
        "(a loopy-side nondeterminism would show up here as a mismatch)",
    ]
    return run.finish()


def replay(rep: dict) -> int:
    return main("quick", only=rep["record"])


def selftest(tier: str) -> int:
    """Corrupt one digest / remove the second seed and require rejection."""
    import copy
    progs = [{"id": "hand/einsum", "kind": "hand", "name": "einsum"}]
    events = collect(progs, [31, 32], 1, texts=False)
    evs = [e for e in events if e["kind"] == "csrc"]

    def rec(rid: str, es: list[dict]) -> dict:
        return {"id": rid, "kind": "csrc", "prog": "hand/einsum",
                "evs": [{k: e[k] for k in ("proc", "seed", "hist", "kind", "prog", "rep",
                                           "digest")} for e in es]}
    good = rec("good", evs)
    bad = copy.deepcopy(good)
    bad["id"] = "digest_corrupted"
    bad["evs"][3]["digest"] = "0" * 64
    one_seed = rec("one_seed", [e for e in evs if e["seed"] == 31])
    one_hist = rec("one_hist", [e for e in evs if e["hist"] == "fwd"])
    one_rep = rec("one_rep", [e for e in evs if e["rep"] == 1])
    val = tlcx.validate("PtProcess", "PtProcess.cfg", [good, bad, one_seed, one_hist, one_rep],
                        shards=1)
    want = {"good": "ok", "digest_corrupted": "SingleValued", "one_seed": "Witnessed",
            "one_hist": "Witnessed", "one_rep": "Witnessed"}
    ok = True
    for rid, w in want.items():
        v = val.verdicts[rid]
        got = v if v != "fail" else val.detail[rid][0][1]
        print(f"  selftest {rid}: expected {w}, TLC said {got}")
        ok &= got == w
    a = "def f(*, x, y, z):\n    return x\n"
    b = "def f(*, z, x, y):\n    return x\n"
    cls = diff_class(a, b)[:2]
    print(f"  selftest diff classification: {cls}")
    ok &= cls == ("tokens_reordered", "def f")
    print("selftest", "passed" if ok else "FAILED")
    return 0 if ok else 2
