"""C01 -- code generated for the loopy target computes what NumPy computes.

G: programs of the property's space: seeded random DAG programs over the
   whole operation alphabet (sharing, 1..3 named outputs, outputs that are
   inputs, zero-size arrays, scalars, six dtypes) plus systematic single
   operations with their bounded parameter scope.
   Each program is replayed through the public API, passed through
   deduplicate, handed to the real generate_loopy with a harness-side C
   target, compiled with gcc and EXECUTED on K input valuations (normal,
   injective -- which decides pure remapping programs for all inputs --, and
   a NaN/inf/-0.0 valuation for the NaN-aware fragment); every output is
   compared with the NumPy mirror of the same call sequence: declared shape
   and dtype, values exactly for integer/boolean results and within a
   scale-aware tolerance otherwise.  Any exception from generate_loopy, loopy
   scheduling or compilation is a violation ("never fails"); the outputs
   dictionary is also supplied in reversed order ("never depends on the
   order").
M: every generated kernel's instruction / dependency structure is exported
   and TLC explores ALL instruction orders its depends_on edges allow
   (spec/PtKernel.tla): no read of a temporary before its writer, no
   unordered writers, no dangling dependency, every output written.  loopy's
   scheduler picks one order; a missing edge it happens not to punish is a
   counterexample here.
"""
from __future__ import annotations

import multiprocessing as mp
import traceback
from typing import Any

import numpy as np

from ptverif import export, progspace, runprog, tlc
from ptverif import replay as rp
from ptverif.common import NCPU, MachineryError, Run, robust_map, seed

PROP = "C01"


def systematic(tier: str) -> list[dict]:
    P = progspace
    rng = np.random.default_rng(seed() + 1)
    progs: list[dict] = []
    shapes2 = [(3,), (2, 3), (3, 0), (1, 3), (2, 1, 3)]
    progs += list(P.fam_roll(shapes2[:3]))
    progs += list(P.fam_transpose([(2, 3), (2, 1, 3), (0, 2)]))
    progs += list(P.fam_stack_concat([(3,), (2, 3), (0, 2)]))
    progs += [p for k, p in enumerate(P.fam_reshape(3, (1, 2, 3))) if k % 7 == 0]
    progs += [p for k, p in enumerate(P.fam_basic_nd([(2, 3), (3, 0), (1, 4)])) if k % 5 == 0]
    progs += list(P.fam_advanced(rng, [(3,), (4, 3), (2, 3, 4)], 15))
    progs += list(P.fam_einsum())
    progs += list(P.fam_csr(rng, 12))
    progs += list(P.fam_pairs())
    progs += list(P.fam_pad())
    if tier == "quick":
        progs = [p for k, p in enumerate(progs) if k % 3 == 0]
    # every placement pattern of advanced items (deterministic; half of them in quick)
    progs += [p for k, p in enumerate(P.fam_advanced_patterns()) if tier != "quick" or k % 2 == 0]
    for p in progs:
        p["outs"] = {"out0": p["outs"]["out"]}
    # (never thinned out: special values at chosen positions of each operand)
    for p in P.fam_nan():
        p["outs"] = {("out0" if k == "out" else k): v for k, v in p["outs"].items()}
        progs.append(p)
    for p in P.fam_concat_empty():
        p["outs"] = {("out0" if k == "out" else k): v for k, v in p["outs"].items()}
        progs.append(p)
    for p in [*P.fam_boolarith(), *P.fam_same_buffer(), *P.fam_logical_nonbool(),
              *P.fam_creation_then_math()]:
        p["outs"] = {("out0" if k == "out" else k): v for k, v in p["outs"].items()}
        progs.append(p)
    # how scalar constants are rendered in C (never thinned out).  Left out: floor
    # division / remainder with a floating-point operand (loopy's C target refuses:
    # "remainder and floordiv for floating-point types") and a complex scalar raised to
    # an integer array (the harness' C99 target lacks loopy's complex pow preamble).
    def is_float(sc: dict) -> bool:
        return sc.get("py") in ("float", "complex") or sc.get("np", "i")[0] in "fc"
    for p in P.fam_scalars():
        c = p["calls"][0]
        sc = c["a"] if isinstance(c.get("a"), dict) else c.get("b")
        arr_float = p["inputs"][0]["dtype"][0] == "f"
        if c["op"] in ("floordiv", "mod") and (arr_float or is_float(sc)):
            continue
        if c["op"] == "pow" and (sc.get("py") == "complex" or sc.get("np", "")[:1] == "c") \
                and not arr_float:
            continue
        p["outs"] = {("out0" if k == "out" else k): v for k, v in p["outs"].items()}
        progs.append(p)
    return progs


def programs(tier: str) -> list[dict]:
    rng = np.random.default_rng(seed())
    n = 700 if tier == "quick" else 8000
    progs = systematic(tier)
    for k in range(n):
        progs.append(progspace.random_program(rng, f"r{k}", int(rng.integers(1, 9))))
    # calls to hand-written loopy kernels (static shapes; ptverif/lpkernels.py)
    progs += list(progspace.fam_lpcall(rng, 150 if tier == "quick" else 1500))
    return with_inlined_reductions(progs)


REDUCING = {"sum", "prod", "amax", "amin", "all", "any", "einsum", "matmul", "dot", "vdot",
            "csr"}


def with_inlined_reductions(progs: list[dict]) -> list[dict]:
    """Every program with a reduction additionally in the mode in which
    reductions with affine bounds are INLINED (cexec.generate, qa_shim)."""
    out = list(progs)
    for p in progs:
        if any(c["op"] in REDUCING for c in p["calls"]):
            out.append({**p, "id": p["id"] + "|qa", "qa": True})
    return out


def classify_exception(ex: BaseException, tb: str) -> str:
    t = type(ex).__name__
    return t


def run_one(prog: dict) -> dict:
    return run_variant(prog, None)


def run_variant(prog: dict, variant: Any, keep_outputs: bool = False) -> dict:
    """variant: None, a tagging spec (ptverif/tagging.py) or "strip"."""
    import pytato as pt

    from ptverif import cexec, kernelexport
    pid = prog["id"]
    rng = np.random.default_rng([seed(), abs(hash(pid)) % (2 ** 31)])
    res: dict[str, Any] = {"id": pid, "status": "ok", "problems": [], "kernel": None,
                           "compared": 0, "ops": sorted({c["op"] for c in prog["calls"]})}
    data0 = runprog.input_data(prog, rng, "normal")
    pb = rp.PtBackend({k: v for k, v in data0.items()
                       if any(i["name"] == k and i.get("kind") == "dw"
                              for i in prog["inputs"])})
    pb.run(prog)
    if pb.rejections:
        res["status"] = "pytato_rejects:" + str(next(iter(pb.rejections.values())))[:100]
        return res
    outs = pb.outs()
    if not all(isinstance(v, pt.Array) for v in outs.values()):
        res["status"] = "non_array_output"
        return res
    ref0, _ = runprog.numpy_reference(prog, data0)
    if ref0 is None:
        res["status"] = "numpy_rejects"
        return res
    if variant is not None:
        from ptverif import tagging
        try:
            if variant == "strip":
                outs = tagging.strip_all(outs)
            else:
                outs, res["tag_counts"] = tagging.apply(outs, variant)
        except Exception as ex:      # noqa: BLE001
            res["problems"].append({"clause": "tagging_raised", "exc": type(ex).__name__,
                                    "what": f"{type(ex).__name__}: {ex}"[:300]})
            return res

    def gen(d: dict) -> Any:
        return cexec.generate(pt.make_dict_of_named_arrays(d), qa_shim=bool(prog.get("qa")))
    try:
        bp = gen(outs)
    except Exception as ex:      # noqa: BLE001
        res["problems"].append({"clause": "generate_loopy_raised",
                                "exc": type(ex).__name__,
                                "what": f"{type(ex).__name__}: {ex}"[:400],
                                "where": traceback.format_exc().splitlines()[-3][:200]})
        return res
    try:
        res["kernel"] = kernelexport.kernel_structure(bp.program)
        res["kernel"]["id"] = pid
    except Exception as ex:      # noqa: BLE001
        res["problems"].append({"clause": "kernel_export_raised", "exc": type(ex).__name__,
                                "what": f"{type(ex).__name__}: {ex}"[:300]})
    declared = {k: (tuple(int(s) for s in v.shape), np.dtype(v.dtype)) for k, v in outs.items()}
    kinds = ["normal", "injective"] + (["special"] if runprog.nan_aware(prog) else [])
    ph_names = {i["name"] for i in prog["inputs"] if i.get("kind", "ph") == "ph"}
    dw_data = {k: v for k, v in data0.items() if k not in ph_names}
    for kind in kinds:
        data = data0 if kind == "normal" else runprog.input_data(prog, rng, kind)
        data.update(dw_data)          # wrapped data is fixed at construction
        ref, values = runprog.numpy_reference(prog, data)
        if ref is None:
            continue
        if runprog.int_overflow_risk(values):
            res["skipped_overflow"] = res.get("skipped_overflow", 0) + 1
            continue
        try:
            got = bp(**{k: v for k, v in data.items() if k in ph_names
                        and k in bp.kernel.arg_dict})
        except Exception as ex:      # noqa: BLE001
            res["problems"].append({"clause": "execution_raised", "exc": type(ex).__name__,
                                    "what": f"{type(ex).__name__}: {ex}"[:400],
                                    "where": traceback.format_exc().splitlines()[-3][:200]})
            break
        scale = runprog.scale_of(data, values)
        single = runprog.single_precision_involved(data, values)
        if keep_outputs and kind == "normal":
            res["outputs"] = {k: got[k] for k in declared if k in got}
            res["scale"] = scale
        for name, (shape, dtype) in declared.items():
            if name not in got:
                res["problems"].append({"clause": "missing_output", "exc": "",
                                        "what": f"output {name} not returned"})
                continue
            g = got[name]
            if tuple(g.shape) != shape:
                res["problems"].append({"clause": "declared_shape", "exc": "",
                                        "what": f"{name}: returned shape {g.shape}, "
                                                f"declared {shape}"})
                continue
            if g.dtype != dtype:
                res["problems"].append({"clause": "declared_dtype", "exc": "",
                                        "what": f"{name}: returned dtype {g.dtype}, "
                                                f"declared {dtype}"})
            msg = runprog.compare(g, ref[name], dtype, scale, single)
            res["compared"] += 1
            if msg:
                res["problems"].append({"clause": "value", "exc": kind,
                                        "what": f"{name} ({kind} inputs): {msg}",
                                        "nan_minmax": runprog.nan_into_minmax_reduction(
                                            prog, values)})
    # order independence: the same outputs supplied in reversed order
    if len(outs) > 1 and not res["problems"]:
        try:
            bp2 = gen(dict(reversed(list(outs.items()))))
            got1 = bp(**{k: v for k, v in data0.items() if k in ph_names
                         and k in bp.kernel.arg_dict})
            got2 = bp2(**{k: v for k, v in data0.items() if k in ph_names
                          and k in bp2.kernel.arg_dict})
            for name in declared:
                if not np.array_equal(got1[name], got2[name], equal_nan=True):
                    res["problems"].append({"clause": "order_dependent", "exc": "",
                                            "what": f"{name} differs when the outputs are "
                                                    f"supplied in reversed order"})
        except Exception as ex:      # noqa: BLE001
            res["problems"].append({"clause": "order_dependent_raised",
                                    "exc": type(ex).__name__,
                                    "what": f"{type(ex).__name__}: {ex}"[:300]})
    return res


def _run_many(progs: list[dict]) -> list[dict]:
    out = []
    for p in progs:
        try:
            out.append(run_one(p))
        except Exception as ex:      # noqa: BLE001
            out.append({"id": p["id"], "status": "harness_error:" + repr(ex)[:200],
                        "problems": [], "kernel": None, "compared": 0, "ops": []})
    return out


def _crashed(prog: dict, reason: str) -> dict:
    """Executing the generated kernel killed (or hung) the worker process."""
    return {"id": prog["id"], "status": "ok", "kernel": None, "compared": 0,
            "ops": sorted({c["op"] for c in prog["calls"]}),
            "problems": [{"clause": "execution_crashed", "exc": "",
                          "what": f"the generated code crashed the process: {reason}"}]}


def check_kernels(run: Run, kernels: list[dict], by_id: dict) -> None:
    """M: all instruction orders of every kernel (batched TLC runs)."""
    import json
    import os

    from ptverif.common import scratch
    small = [k for k in kernels if len(k["insns"]) <= 14]
    run.coverage["kernels_too_large_for_all_orders"] = len(kernels) - len(small)
    if not small:
        return
    shards = min(NCPU, max(1, len(small) // 8))
    files = []
    for s in range(shards):
        chunk = small[s::shards]
        p = os.path.join(scratch(), f"kern_{os.getpid()}_{s}.json")
        with open(p, "w") as f:
            json.dump(chunk, f)
        files.append(p)
    from concurrent.futures import ThreadPoolExecutor
    with ThreadPoolExecutor(max_workers=len(files)) as ex:
        results = list(ex.map(lambda p: tlc.run_tlc(
            "PtKernel", "PtKernel.cfg", env={"BATCH_FILE": p}, workers=1, timeout=900), files))
    states = trans = 0
    bad: dict[tuple, int] = {}
    for r in results:
        if r.error:
            raise MachineryError(f"PtKernel: {r.error[:800]}")
        states += r.distinct
        trans += r.generated
        for line in r.printed:
            if line.startswith('<<"K"'):
                parts = [x.strip().strip('"') for x in line.strip("<>").split(",")]
                bad[(parts[1], parts[2])] = 1
    for (pid, inv) in bad:
        run.violation(f"{pid}|kernel|{inv}",
                      f"{pid}: the generated kernel admits an instruction order violating "
                      f"{inv} (or has a malformed dependency)", record=by_id.get(pid),
                      sig={"clause": "kernel:" + inv})
    run.coverage["kernel_states"] = states
    run.coverage["kernel_transitions"] = trans
    run.coverage["kernels_model_checked"] = len(small)


_CMP = ("lt", "le", "gt", "ge", "eq", "ne")


def _ordering_of_comparisons(prog: dict) -> bool:
    """an ordering operation (maximum / minimum / < <= > >=) applied to the RESULT of a
    comparison call (see known finding C01-nested-comparison-unparenthesized)"""
    nin = len(prog["inputs"])
    for c in prog["calls"]:
        if c["op"] in ("maximum", "minimum", "lt", "le", "gt", "ge"):
            for k in "ab":
                ref = c.get(k)
                if isinstance(ref, int) and not isinstance(ref, bool) and ref > nin \
                        and prog["calls"][ref - nin - 1]["op"] in _CMP:
                    return True
    return False


def main(tier: str, only: list[dict] | None = None) -> int:
    run = Run(PROP, tier, "exploration")
    progs = only if only is not None else programs(tier)
    results = robust_map(_run_many, progs, crashed=_crashed)
    by_id = {p["id"]: p for p in progs}
    status: dict[str, int] = {}
    ops: dict[str, int] = {}
    kernels = []
    compared = 0
    for r in results:
        st = r["status"].split(":")[0]
        status[st] = status.get(st, 0) + 1
        if st == "harness_error":
            raise MachineryError(f"{r['id']}: {r['status']}")
        compared += r["compared"]
        for o in r["ops"]:
            ops[o] = ops.get(o, 0) + 1
        if r["kernel"]:
            kernels.append(r["kernel"])
        for pr in r["problems"]:
            run.violation(f"{r['id']}|{pr['clause']}|{pr['what'][:60]}",
                          f"{r['id']}: {pr['clause']}: {pr['what']}"
                          + (f" [{pr['where']}]" if pr.get("where") else ""),
                          record=by_id[r["id"]],
                          sig={"clause": pr["clause"], "exc": pr.get("exc", ""),
                               "ops": "+".join(r["ops"]) if len(r["ops"]) <= 2 else "many",
                               "has_zeros_like": any(c["op"] in ("zeros_like", "ones_like")
                                                     for c in by_id[r["id"]]["calls"]),
                               "nan_into_minmax_reduction": bool(pr.get("nan_minmax")),
                               "ordering_of_comparison_results": _ordering_of_comparisons(
                                   by_id[r["id"]]),
                               "bool_scalar_in_comparison": any(
                                   c["op"] in ("lt", "le", "gt", "ge", "eq", "ne") and any(
                                       isinstance(c.get(k), dict) and (
                                           c[k].get("py") == "bool" or c[k].get("np") == "b1")
                                       for k in "ab") for c in by_id[r["id"]]["calls"]),
                               "what": pr["what"][:80]})
    check_kernels(run, kernels, by_id)
    run.coverage.update({
        "evaluations": compared, "distinct_nontrivial": sum(
            1 for r in results if r["compared"] and len(by_id[r["id"]]["calls"]) >= 2),
        "rule": "evaluations = output comparisons (program x valuation x output); "
                "non-trivial = distinct programs with >= 2 calls whose outputs were executed "
                "and compared",
        "programs": len(progs), "status": status, "op_histogram": ops,
        "exhaustive": False,
        "states": run.coverage.get("kernel_states", 0),
        "transitions": run.coverage.get("kernel_transitions", 0),
    })
    for p in progs[-2:]:
        run.sample({k: p[k] for k in ("id", "inputs", "calls", "outs")})
    run.assumptions += [
        "gcc -O1 -ffp-contract=off and loopy's C target execute the kernel (no OpenCL here); "
        "loopy-side quirks are shimmed in ptverif/cexec.py",
        "floating-point values are compared on 2-3 sampled valuations with tolerance "
        "tol*(1+scale+|ref|), tol = 1e-9 (float64) / 2e-4 (float32)",
        "integer overflow, integer division by zero and domain errors are avoided by input "
        "magnitude",
    ]
    return run.finish()


def replay(rep: dict) -> int:
    return main("quick", only=[rep["record"]])


def selftest(tier: str) -> int:
    """The comparison rejects a wrong value and the kernel model rejects a
    kernel with a removed dependency edge."""
    import copy
    import json
    import os

    from ptverif.common import scratch
    prog = {"id": "st", "inputs": [progspace.inp("x", (2, 3))],
            "calls": [{"op": "sum", "a": 1, "axis": 1}, {"op": "sum", "a": 1, "axis": 1},
                      {"op": "add", "a": 2, "b": 3}],
            "outs": {"out0": 4}}
    r = run_one(prog)
    ok1 = not r["problems"] and r["compared"] >= 2
    msg = runprog.compare(np.array([1.0, 2.0]), np.array([1.0, 2.5]), np.dtype("f8"), 1.0)
    good = r["kernel"]
    bad = copy.deepcopy(good)
    bad["id"] = "corrupted"
    for insn in bad["insns"]:
        if insn["reads"]:
            insn["deps"] = []
    p = os.path.join(scratch(), "st_kern.json")
    with open(p, "w") as f:
        json.dump([good, bad], f)
    res = tlc.run_tlc("PtKernel", "PtKernel.cfg", env={"BATCH_FILE": p}, workers=1)
    flagged = {line for line in res.printed if '"corrupted"' in line}
    clean = not any('"st"' in line for line in res.printed)
    ok = ok1 and msg is not None and bool(flagged) and clean and not res.error
    print("selftest", "passed" if ok else "FAILED", ok1, msg, sorted(flagged)[:2], clean)
    return 0 if ok else 2
