"""C02 -- lowering any array node to an index lambda preserves its meaning.

G: the bounded parameter scope of every high-level node kind is enumerated.
E: for each instance the real node is built through the public API, the real
   to_index_lambda() is called, and the returned IndexLambda is exported to
   TLC, which evaluates it with PtSem!Ev (the documented index-lambda
   semantics) and compares it, under an injective valuation of the inputs
   (which decides the comparison for ALL inputs for pure remapping), with
     (a) the specification-level meaning of the operation (raw NumPy-level
         parameters, e.g. the un-normalised Python slice), and
     (b) the exported high-level node itself (its own, normalised, fields),
         including dtype, axes and tags.
   NumPy applied to the token arrays is the third voice ("oracle" clause):
   spec != NumPy is a machinery failure, never a violation.
M: spec/PtLower.tla states the lowering RULES (roll, transpose, stack,
   concatenate, basic index, reshape in both orders) as functions from node
   parameters to expression ASTs and TLC model-checks Ev(Lower(n)) = Val(n)
   over the whole bounded parameter space -- independent of pytato's code.
"""
from __future__ import annotations

import multiprocessing as mp
import os
from typing import Any

import numpy as np

from ptverif import export, progspace, tlc
from ptverif import replay as rp
from ptverif.common import NCPU, MachineryError, Run, seed

PROP = "C02"


def prepare(prog: dict) -> dict[str, np.ndarray]:
    """Give data-wrapper inputs their content-derived names; -> name->array"""
    data = {}
    for i in prog["inputs"]:
        if i.get("kind") == "dw" and "data" in i:
            arr = np.array(i["data"], rp.DT[i["dtype"]]).reshape(i["shape"])
            i["name"] = export.data_name(arr)
            data[i["name"]] = arr
    return data


def inputs_info(prog: dict, data: dict[str, np.ndarray]) -> tuple[dict, dict]:
    info, exact = {}, {}
    for i in prog["inputs"]:
        info[i["name"]] = {"shape": i["shape"], "dtype": i["dtype"],
                           "src": i.get("kind", "ph")}
        if i["name"] in data:
            info[i["name"]]["data"] = data[i["name"]]
        if "range" in i:
            exact[i["name"]] = tuple(i["range"])
    return info, exact


def build(prog: dict) -> dict[str, Any]:
    """-> {"records": [...], "status": ..., } for one single-op program."""
    import pytato as pt
    from pytato.transform.lower_to_index_lambda import to_index_lambda

    from ptverif import usertags
    pid = prog["id"]
    rng = np.random.default_rng([seed(), abs(hash(pid)) % (2 ** 31)])
    data = prepare(prog)
    res: dict[str, Any] = {"id": pid, "records": [], "status": "ok"}
    sb = rp.SpecBackend()
    try:
        sb.run(prog)
    except export.Unsupported as ex:
        res["status"] = f"unsupported:{ex}"
        return res
    if sb.rejections:
        res["status"] = "numpy_rejects"
        return res
    pb = rp.PtBackend(data)
    pb.run(prog)
    if pb.rejections:
        res["status"] = "pytato_rejects:" + str(next(iter(pb.rejections.values())))
        return res
    node = pb.outs()["out"]
    if not isinstance(node, pt.Array):
        res["status"] = "not_an_array"
        return res
    tagged = False
    if prog.get("tagged") and not isinstance(node, (pt.IndexLambda, pt.InputArgumentBase)):
        node = node.tagged(usertags.FooTag())
        if node.ndim:
            node = node.with_tagged_axis(node.ndim - 1, usertags.BarTag())
        tagged = True
    try:
        # inputs are not lowered (the property is about high-level nodes)
        il = node if isinstance(node, pt.InputArgumentBase) else to_index_lambda(node)
    except Exception as ex:      # noqa: BLE001
        res["status"] = "lowering_raised"
        res["error"] = f"{type(ex).__name__}: {ex}"
        return res
    try:
        gb, ib = export.export_graph({"out": il})
        gc, ic = export.export_graph({"out": node})
    except export.Unsupported as ex:
        res["status"] = f"unsupported:{ex}"
        return res
    ga = sb.graph()
    info, exact = inputs_info(prog, data)
    try:
        vals = export.make_valuations(info, 2, rng, exact)
    except export.Unsupported as ex:
        res["status"] = f"unsupported:{ex}"
        return res
    expect = []
    for v in vals:
        e = rp.np_on_tokens(prog, v) or rp.np_einsum_mod(prog, v)
        if e is None:
            expect = None
            break
        expect.append(e)
    r1 = {"id": pid + "#spec", "rel": "eq", "a": ga, "b": gb, "vals": vals}
    if expect is not None:
        r1["expect"] = expect
    r2 = {"id": pid + "#node", "rel": "eq", "a": gc, "b": gb, "vals": vals,
          "dtype": True, "meta": True}
    res["records"] = [r1, r2]
    res["il_is_il"] = isinstance(il, pt.IndexLambda)
    res["nelem"] = int(np.prod(node.shape, dtype=np.int64)) if node.shape else 1
    res["tagged"] = tagged
    res["kind"] = type(node).__name__
    return res


def _chunks(seq: list, n: int) -> list[list]:
    return [seq[i::n] for i in range(n) if seq[i::n]]


def _build_many(progs: list[dict]) -> list[dict]:
    return [build(p) for p in progs]


def programs(tier: str) -> list[dict]:
    rng = np.random.default_rng(seed())
    P = progspace
    progs: list[dict] = []
    if tier == "quick":
        lens1 = (0, 1, 2, 3, 5)
        b1 = list(P.fam_basic_1d(lens1))
        # every int index; a seeded third of the slices (all of them in thorough)
        ints = [p for p in b1 if "/int" in p["id"]]
        sl = [p for p in b1 if "/int" not in p["id"]]
        pick = rng.permutation(len(sl))[:len(sl) // 3]
        progs += ints + [sl[i] for i in sorted(pick)]
        progs += list(P.fam_basic_nd([(2, 3), (3, 0), (1, 4)]))
        progs += list(P.fam_reshape(3, (0, 1, 2, 3)))
        progs += list(P.fam_roll([(0,), (1,), (3,), (5,), (2, 3), (3, 0, 2), (2, 1, 3)]))
        progs += list(P.fam_transpose(P.all_shapes(3, (0, 1, 2, 3))))
        progs += list(P.fam_stack_concat(P.all_shapes(2, (0, 1, 2, 3)) + [(2, 1, 3)]))
        progs += list(P.fam_advanced(rng, [(3,), (4, 3), (2, 3, 4), (2, 1, 3, 2)], 40))
        progs += list(P.fam_einsum())
        progs += list(P.fam_csr(rng, 30))
    else:
        progs += list(P.fam_basic_1d((0, 1, 2, 3, 4, 5)))
        progs += list(P.fam_basic_nd([(2, 3), (3, 0), (1, 4), (5, 2), (2, 2, 3), (0, 0)]))
        progs += list(P.fam_reshape(4, (0, 1, 2, 3), 4))
        progs += list(P.fam_reshape(2, (4, 5), 3))
        progs += list(P.fam_roll(P.all_shapes(3, (0, 1, 2, 3, 5))))
        progs += list(P.fam_transpose(P.all_shapes(4, (0, 1, 2, 3))))
        progs += list(P.fam_stack_concat(P.all_shapes(3, (0, 1, 2, 3))))
        progs += list(P.fam_advanced(
            rng, [(3,), (5,), (4, 3), (1, 3), (2, 3, 4), (2, 1, 3, 2), (3, 3, 3), (5, 5)], 250))
        progs += list(P.fam_einsum())
        progs += list(P.fam_csr(rng, 200))
    progs += list(P.fam_concat_empty(with_user=False))
    progs += list(P.fam_advanced_patterns())
    # de-duplicate ids, tag every third instance with user tags on node and axis
    seen, out = set(), []
    for k, p in enumerate(progs):
        if p["id"] in seen:
            continue
        seen.add(p["id"])
        if k % 3 == 0:
            p["tagged"] = True
        out.append(p)
    return out


def main(tier: str, only: list[dict] | None = None) -> int:
    run = Run(PROP, tier, "model_checking")
    progs = only if only is not None else programs(tier)
    with mp.Pool(NCPU) as pool:
        built = [b for chunk in pool.map(_build_many, _chunks(progs, NCPU * 4))
                 for b in chunk]
    by_id = {p["id"]: p for p in progs}
    records, status_count, kinds = [], {}, {}
    nontrivial = 0
    for b in built:
        st = b["status"].split(":")[0]
        status_count[st] = status_count.get(st, 0) + 1
        if b["status"] == "lowering_raised":
            run.violation(b["id"], f"to_index_lambda raised {b['error']} for {b['id']}",
                          record=by_id[b["id"]], sig={"id": b["id"], "clause": "raised"})
        if b["status"].startswith("pytato_rejects"):
            run.add("pytato_rejected_numpy_accepted")
        records += b["records"]
        if b["records"]:
            kinds[b["kind"]] = kinds.get(b["kind"], 0) + 1
            if b["nelem"] > 1:
                nontrivial += 1
    # design level: the lowering RULES themselves, model-checked (spec/PtLower.tla)
    design_states = 0
    if only is None:
        # (PtLowerB: broadcasting arithmetic, where, reductions, einsum, advanced indexing)
        for cfg in (["PtLower.cfg", "PtLowerB.cfg"] if tier == "quick"
                    else ["PtLower.cfg", "PtLower3.cfg", "PtLowerB.cfg", "PtLowerB3.cfg"]):
            r = tlc.run_tlc("PtLower", cfg, workers=4, timeout=1200)
            if r.error or r.violated:
                raise MachineryError(f"PtLower ({cfg}): the specification's own lowering rules "
                                     f"are not correct: {r.violated} {r.error}")
            design_states += r.distinct
    val = tlc.validate_records("PtCheck", "PtCheck.cfg", records, timeout=3000)
    for rec in records:
        v = val.verdicts[rec["id"]]
        if v == "ok":
            continue
        pid, which = rec["id"].rsplit("#", 1)
        if v in ("oracle", "shaperule_a", "poison_a") and which == "spec":
            raise MachineryError(
                f"specification and NumPy disagree on {pid} (clause {v}); "
                f"the specification must be corrected")
        run.violation(rec["id"],
                      f"lowered index lambda differs from the "
                      f"{'specification' if which == 'spec' else 'node'} in clause "
                      f"'{v}' for {pid}: {by_id[pid]['calls']}",
                      record=by_id[pid], observed=v,
                      sig={"id": pid, "clause": v, "which": which,
                           "op": by_id[pid]["calls"][0]["op"]})
    run.coverage.update({
        "states": val.states + design_states, "transitions": val.transitions,
        "design_rule_instances_model_checked": design_states,
        "traces_validated_against_impl": len(records),
        "evaluations": len(progs), "distinct_nontrivial": nontrivial,
        "rule": "one instance per (node kind, parameter tuple) in the bounded scope; "
                "distinct by id; non-trivial = result has more than one element",
        "exhaustive": tier == "thorough",
        "status": status_count, "node_kinds": kinds,
        "tlc_runs": val.runs, "tlc_wall_s": round(val.wall, 1),
        "scope": "thorough: every int index and every slice start/stop in {None} u [-7,7], "
                 "step in {None,+-1,+-2,+-3} on axis lengths 0..5; all reshape pairs of "
                 "shapes with <=4 axes of length 0..3 (both orders); rolls with shift in "
                 "[-2n-1,2n+1]; every permutation of <=4 axes; stack/concatenate of 1..3 "
                 "arrays on every axis; sampled advanced indexing; einsum/matmul list; CSR. "
                 "quick: a seeded third of the 1-D slices and smaller shape sets.",
    })
    for rec in records[:3]:
        pid = rec["id"].rsplit("#", 1)[0]
        run.sample({"program": by_id[pid], "verdict": val.verdicts[rec["id"]]})
    run.assumptions += [
        "TLC, the Json module and the exporter (ptverif/export.py) are trusted",
        "injective valuation: pure index remapping is decided for all inputs; "
        "einsum/CSR arithmetic is decided up to Schwartz-Zippel error <= deg/10007 "
        "per valuation (2 valuations)",
        "NumPy 2.x is the reference for the specification itself (oracle clause)",
    ]
    return run.finish()


def replay(rep: dict) -> int:
    return main("quick", only=[rep["record"]])


def selftest(tier: str) -> int:
    """Binding demonstration: corrupt one exported field and require rejection."""
    progs = [p for p in programs("quick") if p["id"].startswith("roll/2x3/ax1/s1")][:1]
    b = build(progs[0])
    rec = b["records"][0]
    import copy
    bad = copy.deepcopy(rec)
    bad["id"] = "corrupted"

    def flip(e: Any) -> bool:
        if isinstance(e, dict):
            if e.get("k") == "c" and e["v"] != 0:
                e["v"] = e["v"] + 1
                return True
            return any(flip(v) for v in e.values())
        if isinstance(e, list):
            return any(flip(v) for v in e)
        return False
    assert flip(bad["b"]["nodes"][-1]["expr"])
    val = tlc.validate_records("PtCheck", "PtCheck.cfg", [rec, bad], shards=1)
    ok = val.verdicts[rec["id"]] == "ok" and val.verdicts["corrupted"] != "ok"
    print("selftest", "passed" if ok else "FAILED", val.verdicts)
    return 0 if ok else 2
