"""A small library of hand-written loopy kernels for `call_loopy` nodes
(C01's program space names "calls to hand-written loopy kernels").

Every kernel has static shapes (the sizes are parameters of the *library*
entry, formatted into the kernel text): pytato's shape inference for size
parameters of the callee needs `isl.BasicSet.dim_max`, which the islpy of
this sandbox lacks (a known baseline failure), so sizes are never inferred.

An entry is
  make(**sizes) -> loopy kernel,
  args(**sizes)  -> {name: (shape, dtype code)}   shape None = scalar (ValueArg)
  outs(**sizes)  -> {name: (shape, dtype code)}
  ref(**arrays)  -> {name: ndarray}               the NumPy meaning
  sizes(rng)     -> a size assignment
"""
from __future__ import annotations

from typing import Any

import numpy as np

_DT = {"f8": np.float64, "i8": np.int64, "f4": np.float32}
_CACHE: dict[tuple, Any] = {}


def _mk(domain: str, insns: str, args: dict, outs: dict, scalars: dict, name: str) -> Any:
    import loopy as lp

    from . import cexec
    kargs = []
    for n, (shape, d) in args.items():
        if shape is None:
            kargs.append(lp.ValueArg(n, _DT[d]))
        else:
            kargs.append(lp.GlobalArg(n, _DT[d], shape=tuple(shape)))
    for n, (shape, d) in outs.items():
        kargs.append(lp.GlobalArg(n, _DT[d], shape=tuple(shape), is_output=True))
    return lp.make_kernel(domain, insns, kargs, name=name, lang_version=(2018, 2),
                          target=cexec._make_target())


def _entry_axpy() -> dict:
    def args(n: int) -> dict:
        return {"x": ((n,), "f8"), "y": ((n,), "f8"), "a": (None, "f8")}

    def outs(n: int) -> dict:
        return {"z": ((n,), "f8")}

    def make(n: int) -> Any:
        return _mk(f"{{[i]: 0<=i<{n}}}", "z[i] = a*x[i] + y[i]", args(n), outs(n), {}, "axpy")

    def ref(x: Any, y: Any, a: Any) -> dict:
        return {"z": np.float64(a) * x + y}
    return {"make": make, "args": args, "outs": outs, "ref": ref,
            "sizes": lambda rng: {"n": int(rng.integers(1, 6))}}


def _entry_matvec() -> dict:
    def args(n: int, m: int) -> dict:
        return {"a": ((n, m), "f8"), "x": ((m,), "f8"), "s": (None, "f8")}

    def outs(n: int, m: int) -> dict:
        return {"y": ((n,), "f8"), "z": ((n, m), "f8")}

    def make(n: int, m: int) -> Any:
        return _mk(f"{{[i,j]: 0<=i<{n} and 0<=j<{m}}}",
                   """
                   y[i] = sum(j, a[i,j]*x[j])
                   z[i,j] = 2*a[i,j] + s
                   """, args(n, m), outs(n, m), {}, "matvec")

    def ref(a: Any, x: Any, s: Any) -> dict:
        return {"y": a @ x, "z": 2 * a + np.float64(s)}
    return {"make": make, "args": args, "outs": outs, "ref": ref,
            "sizes": lambda rng: {"n": int(rng.integers(1, 5)), "m": int(rng.integers(1, 5))}}


def _entry_combine() -> dict:
    def args(n: int) -> dict:
        return {k: ((n,), "f8") for k in ("velocity", "alpha", "mass", "zeta")}

    def outs(n: int) -> dict:
        return {"res": ((n,), "f8"), "aux": ((n,), "f8")}

    def make(n: int) -> Any:
        return _mk(f"{{[i]: 0<=i<{n}}}",
                   """
                   res[i] = 2*velocity[i] + alpha[i]*mass[i] - zeta[i]
                   aux[i] = zeta[i]*alpha[i]
                   """, args(n), outs(n), {}, "combine")

    def ref(velocity: Any, alpha: Any, mass: Any, zeta: Any) -> dict:
        return {"res": 2 * velocity + alpha * mass - zeta, "aux": zeta * alpha}
    return {"make": make, "args": args, "outs": outs, "ref": ref,
            "sizes": lambda rng: {"n": int(rng.integers(1, 6))}}


def _entry_rev() -> dict:
    def args(n: int, m: int) -> dict:
        return {"x": ((n, m), "f8")}

    def outs(n: int, m: int) -> dict:
        return {"y": ((m, n), "f8")}

    def make(n: int, m: int) -> Any:
        return _mk(f"{{[i,j]: 0<=i<{m} and 0<=j<{n}}}",
                   f"y[i,j] = x[{n - 1}-j, i]", args(n, m), outs(n, m), {}, "revt")

    def ref(x: Any) -> dict:
        return {"y": x[::-1, :].T.copy()}
    return {"make": make, "args": args, "outs": outs, "ref": ref,
            "sizes": lambda rng: {"n": int(rng.integers(1, 5)), "m": int(rng.integers(1, 5))}}


def _entry_ishift() -> dict:
    def args(n: int) -> dict:
        return {"x": ((n,), "i8"), "k": (None, "i8")}

    def outs(n: int) -> dict:
        return {"y": ((n,), "i8")}

    def make(n: int) -> Any:
        return _mk(f"{{[i]: 0<=i<{n}}}", "y[i] = 3*x[i] - k", args(n), outs(n), {}, "ishift")

    def ref(x: Any, k: Any) -> dict:
        return {"y": 3 * x - np.int64(k)}
    return {"make": make, "args": args, "outs": outs, "ref": ref,
            "sizes": lambda rng: {"n": int(rng.integers(1, 6))}}


def _entry_prefix() -> dict:
    """sequential dependence inside the callee: y[i] = x[0] + ... + x[i]"""
    def args(n: int) -> dict:
        return {"x": ((n,), "f8")}

    def outs(n: int) -> dict:
        return {"y": ((n,), "f8")}

    def make(n: int) -> Any:
        return _mk(f"{{[i,j]: 0<=i<{n} and 0<=j<=i}}", "y[i] = sum(j, x[j])",
                   args(n), outs(n), {}, "prefix")

    def ref(x: Any) -> dict:
        return {"y": np.cumsum(x)}
    return {"make": make, "args": args, "outs": outs, "ref": ref,
            "sizes": lambda rng: {"n": int(rng.integers(1, 6))}}


KERNELS: dict[str, dict] = {
    "axpy": _entry_axpy(), "matvec": _entry_matvec(), "combine": _entry_combine(),
    "revt": _entry_rev(), "ishift": _entry_ishift(), "prefix": _entry_prefix(),
}


def kernel(name: str, sizes: dict) -> Any:
    key = (name, tuple(sorted(sizes.items())))
    if key not in _CACHE:
        _CACHE[key] = KERNELS[name]["make"](**sizes)
    return _CACHE[key]
