"""A simulated MPI for pytato's distributed code: ranks are threads, exactly
one of which runs at any time (a baton); every blocking MPI call is a *yield
point* at which the scheduler -- the thread that called World.run -- decides
which rank continues and, for Waitsome, which subset of the completable
receives is returned.  Nothing in pytato is changed: a fake ``mpi4py`` /
``mpi4py.MPI`` is put into ``sys.modules`` (install()).

Semantics (the same as spec/DistExec.tla, which is the point):

* point-to-point: ``net[src, dst]`` is a FIFO of messages in flight; a posted
  receive (source, tag) matches the earliest message of that (source, tag)
  not matched by an earlier posted receive of the same class (MPI's
  non-overtaking rule); messages of different tags may complete in any order;
  Waitsome returns any non-empty subset of the completable receives that is
  prefix-closed within each (source, tag) class; Waitsome on no active request
  returns at once in real MPI, which makes the executor spin for ever -- the
  fake raises SpinDetected instead.
* Isend is buffered (the data is copied at the call); Request.Wait on a send
  completes once the message is matched by a posted receive (rendezvous, the
  stricter of the two completion rules MPI allows).
* collectives (allreduce / bcast / gather / barrier) are sequence-numbered per
  rank; payloads are pickled and unpickled as in real MPI, so identity never
  survives a collective; the fold order of allreduce is rank-dependent when
  ``shuffle_reduce`` is set (MPI may reorder operands of a commutative op).
* a rank that waits for a collective in which a peer will never take part
  (because the peer raised or returned) is classified, not left hanging:
  RankResult.status == "blocked" with reason "peer_raised" / "peer_returned"
  / "deadlock".

Grain: with grain="model" the yield points are exactly the action boundaries
of DistExec (thread start, begin of a part execution, Waitsome, the first
Wait of the drain phase); grain="fine" additionally yields at every Irecv,
Isend and Wait.
"""
from __future__ import annotations

import itertools
import pickle
import sys
import threading
import types
from dataclasses import dataclass, field
from typing import Any, Callable

import numpy as np


class Abort(BaseException):
    """Raised inside a rank thread that the scheduler abandons (BaseException
    so that ``except Exception`` in the code under test cannot swallow it)."""


class SpinDetected(Exception):
    """Waitsome was called without any active request: the real executor
    would call it again and again for ever."""


class Hang(Exception):
    """A rank ran for longer than the watchdog allows without reaching a
    yield point (machinery-level; the thread is abandoned)."""


_tls = threading.local()


# --------------------------------------------------------------------------
# requests, ops

class RecvReq:
    def __init__(self, world: "World", rank: int, src: int, tag: Any, buf: Any, idx: int):
        self.world, self.rank, self.src, self.tag, self.buf, self.idx = \
            world, rank, src, tag, buf, idx
        self.done = False

    def Wait(self) -> None:                  # not used by pytato; kept simple
        self.world._waitsome(self.rank, [self])

    def __repr__(self) -> str:
        return f"<RecvReq r{self.rank} src={self.src} tag={self.tag} #{self.idx}>"


class SendReq:
    def __init__(self, world: "World", rank: int, dst: int, tag: Any, data: Any, idx: int):
        self.world, self.rank, self.dst, self.tag, self.data, self.idx = \
            world, rank, dst, tag, data, idx
        self.consumed = False

    def Wait(self) -> None:
        self.world._wait_send(self)


class FakeOp:
    def __init__(self, fn: Callable, commute: bool):
        self.fn, self.commute, self.freed = fn, commute, False

    def Free(self) -> None:
        self.freed = True


@dataclass
class RankResult:
    rank: int
    status: str = "running"      # ok | raised | blocked | aborted | hang
    value: Any = None
    exc: BaseException | None = None
    reason: str = ""             # for blocked / aborted
    at: dict | None = None       # the op the rank was parked at when abandoned

    @property
    def exc_name(self) -> str:
        return type(self.exc).__name__ if self.exc is not None else ""


@dataclass
class _RankState:
    go: threading.Semaphore = field(default_factory=lambda: threading.Semaphore(0))
    op: dict | None = None
    decision: Any = None
    abort: str | None = None
    finished: bool = False
    started: bool = False
    coll_seq: int = 0
    draining: bool = False
    nposted: int = 0
    nsent: int = 0


# --------------------------------------------------------------------------
# choosers

class FirstChooser:
    def pick(self, world: "World", trans: list) -> int:
        return 0


class RandomChooser:
    def __init__(self, rng: np.random.Generator):
        self.rng = rng

    def pick(self, world: "World", trans: list) -> int:
        return int(self.rng.integers(len(trans)))


class ReplayChooser:
    """Follows *prefix* (indices into the transition lists), then *then*
    (default: always the first transition).  Records what it did."""

    def __init__(self, prefix: list[int], then: Any = None):
        self.prefix, self.then = list(prefix), then or FirstChooser()
        self.taken: list[int] = []
        self.widths: list[int] = []

    def pick(self, world: "World", trans: list) -> int:
        k = len(self.taken)
        if k < len(self.prefix):
            c = self.prefix[k]
            if c >= len(trans):
                raise RuntimeError(
                    f"replay diverged at choice {k}: {c} of {len(trans)} transitions")
        else:
            c = self.then.pick(world, trans)
        self.taken.append(c)
        self.widths.append(len(trans))
        return c


class StopRun(Exception):
    """Raised by an observer to end a run early (DFS pruning)."""


# --------------------------------------------------------------------------

class World:
    def __init__(self, n: int, chooser: Any = None, grain: str = "model",
                 seed: int = 0, watchdog: float = 60.0,
                 shuffle_reduce: bool = False, observer: Any = None):
        self.n = n
        self.chooser = chooser or FirstChooser()
        self.grain = grain
        self.seed = seed
        self.watchdog = watchdog
        self.shuffle_reduce = shuffle_reduce
        self.observer = observer
        self.rs = [_RankState() for _ in range(n)]
        self.results = [RankResult(r) for r in range(n)]
        self._sched = threading.Semaphore(0)
        self.posted: list[list[RecvReq]] = [[] for _ in range(n)]
        self.net: dict[tuple[int, int], list[SendReq]] = {}
        self.colls: dict[int, dict] = {}
        self.trace: list[dict] = []
        self.anomalies: list[dict] = []
        self.nsteps = 0
        self.stuck: bool = False
        self.pruned: bool = False
        self.comms = [FakeComm(self, r) for r in range(n)]

    # -- logging ---------------------------------------------------------
    def log(self, ev: dict) -> None:
        ev["seq"] = len(self.trace)
        self.trace.append(ev)

    # -- thread side -----------------------------------------------------
    def _park(self, rank: int, op: dict) -> Any:
        st = self.rs[rank]
        st.op = op
        self._sched.release()
        st.go.acquire()
        st.op = None
        if st.abort is not None:
            raise Abort(st.abort)
        return st.decision

    def yield_point(self, rank: int, op: dict) -> Any:
        """For harness hooks (begin of a part execution, ...): always enabled."""
        return self._park(rank, op)

    def _body(self, rank: int, fn: Callable) -> None:
        _tls.world, _tls.rank = self, rank
        st, res = self.rs[rank], self.results[rank]
        try:
            self._park(rank, {"k": "start"})
            st.started = True
            res.value = fn(self.comms[rank])
            res.status = "ok"
        except Abort as ex:
            if res.status == "running":
                res.status = "aborted"
                res.reason = str(ex)
        except BaseException as ex:      # noqa: BLE001
            res.status = "raised"
            res.exc = ex
        finally:
            st.finished = True
            self._sched.release()

    # -- point to point --------------------------------------------------
    def _irecv(self, rank: int, buf: Any, source: int, tag: Any) -> RecvReq:
        if self.grain == "fine":
            self._park(rank, {"k": "irecv"})
        st = self.rs[rank]
        req = RecvReq(self, rank, source, tag, buf, st.nposted)
        st.nposted += 1
        self.posted[rank].append(req)
        self.log({"ev": "irecv", "rank": rank, "src": source, "tag": tag,
                  "idx": req.idx, "shape": list(np.shape(buf)),
                  "dtype": str(getattr(buf, "dtype", ""))})
        return req

    def _isend(self, rank: int, data: Any, dest: int, tag: Any) -> SendReq:
        if self.grain == "fine":
            self._park(rank, {"k": "isend"})
        st = self.rs[rank]
        req = SendReq(self, rank, dest, tag, np.array(data, copy=True), st.nsent)
        st.nsent += 1
        self.net.setdefault((rank, dest), []).append(req)
        self.log({"ev": "isend", "rank": rank, "dst": dest, "tag": tag,
                  "idx": req.idx, "data": req.data})
        return req

    def pending(self, rank: int, among: list | None = None) -> list[RecvReq]:
        reqs = self.posted[rank] if among is None else among
        return [q for q in reqs if isinstance(q, RecvReq) and not q.done]

    def completable(self, rank: int, among: list | None = None
                    ) -> dict[tuple, list[tuple[RecvReq, SendReq]]]:
        """class (src, tag) -> [(receive, message)] pairs that may complete
        now, in matching order.  Matching always considers *all* posted
        receives of the rank (MPI matches posted receives, whether or not the
        caller waits for them); *among* only filters what may be returned."""
        out: dict[tuple, list[tuple[RecvReq, SendReq]]] = {}
        allp = self.pending(rank)
        for q in allp:
            out.setdefault((q.src, q.tag), [])
        for (src, tag), lst in out.items():
            pend = [q for q in allp if (q.src, q.tag) == (src, tag)]
            msgs = [m for m in self.net.get((src, rank), []) if m.tag == tag]
            pairs = list(zip(pend, msgs))
            if among is not None:
                # only a prefix consisting of waited-for requests can be returned
                keep = []
                for q, m in pairs:
                    if any(q is a for a in among):
                        keep.append((q, m))
                    else:
                        break
                pairs = keep
            lst.extend(pairs)
        return {c: v for c, v in out.items() if v}

    def _subsets(self, comp: dict) -> list[tuple]:
        """All non-empty, per-class prefix-closed subsets, canonical order."""
        classes = sorted(comp, key=lambda c: min(q.idx for q, _ in comp[c]))
        res = []
        for lens in itertools.product(*[range(len(comp[c]) + 1) for c in classes]):
            if not any(lens):
                continue
            res.append(tuple(pair for c, k in zip(classes, lens) for pair in comp[c][:k]))
        res.sort(key=lambda s: (len(s), [q.idx for q, _ in s]))
        return res

    def _waitsome(self, rank: int, requests: list) -> list[int] | None:
        active = [q for q in requests if isinstance(q, RecvReq) and not q.done]
        self.log({"ev": "waitsome_call", "rank": rank, "nreq": len(requests),
                  "nactive": len(active)})
        chosen = self._park(rank, {"k": "waitsome", "reqs": list(requests)})
        if chosen == "spin":
            self.log({"ev": "spin", "rank": rank})
            raise SpinDetected(f"rank {rank}: Waitsome without an active request")
        idxs = []
        for q, m in chosen:
            assert not q.done and not m.consumed
            self.net[(m.rank, rank)].remove(m)
            m.consumed = True
            q.done = True
            data = m.data
            buf = q.buf
            if np.size(data) != np.size(buf) or np.shape(data) != np.shape(buf) \
                    or getattr(data, "dtype", None) != getattr(buf, "dtype", None):
                self.anomalies.append({
                    "what": "buffer_mismatch", "rank": rank, "src": q.src, "tag": q.tag,
                    "sent": [list(np.shape(data)), str(data.dtype)],
                    "posted": [list(np.shape(buf)), str(buf.dtype)]})
                flat = np.asarray(data).reshape(-1)
                k = min(flat.size, buf.size)
                buf.reshape(-1)[:k] = flat[:k].astype(buf.dtype, copy=False)
            else:
                buf[...] = data
            idxs.append(next(i for i, a in enumerate(requests) if a is q))
        self.log({"ev": "waitsome_ret", "rank": rank, "idx": sorted(idxs),
                  "posted_idx": sorted(q.idx for q, _ in chosen)})
        # MPI reports the completed indices in NO particular order: ascending, descending
        # and rotated in turn (deterministic), so that a caller that relies on an order is
        # exposed
        self._ws_calls = getattr(self, "_ws_calls", 0) + 1
        mode = self._ws_calls % 3
        idxs = sorted(idxs)
        if mode == 1:
            idxs = idxs[::-1]
        elif mode == 2 and len(idxs) > 1:
            idxs = idxs[1:] + idxs[:1]
        return idxs

    def sends_matchable(self, rank: int, only: SendReq | None = None) -> bool:
        for (src, dst), msgs in self.net.items():
            if src != rank:
                continue
            pend = self.pending(dst)
            for i, m in enumerate(msgs):
                if only is not None and m is not only:
                    continue
                pos = sum(1 for m2 in msgs[:i] if m2.tag == m.tag)
                cnt = sum(1 for q in pend if (q.src, q.tag) == (src, m.tag))
                if pos >= cnt:
                    return False
        return True

    def _wait_send(self, req: SendReq) -> None:
        rank = req.rank
        st = self.rs[rank]
        if self.grain == "fine":
            self._park(rank, {"k": "wait", "req": req})
        elif not st.draining:
            st.draining = True
            self._park(rank, {"k": "drain"})
        self.log({"ev": "wait", "rank": rank, "idx": req.idx})

    # -- collectives -----------------------------------------------------
    def _collective(self, rank: int, kind: str, payload: Any, root: int | None) -> dict:
        st = self.rs[rank]
        st.coll_seq += 1
        seq = st.coll_seq
        slot = self.colls.setdefault(seq, {"kind": kind, "root": root, "vals": {}})
        if slot["kind"] != kind or slot["root"] != root:
            self.anomalies.append({"what": "collective_mismatch", "seq": seq, "rank": rank,
                                   "kind": kind, "other": slot["kind"]})
            self.results[rank].status = "blocked"
            self.results[rank].reason = "collective_mismatch"
            raise Abort("collective mismatch")
        slot["vals"][rank] = pickle.dumps(payload)
        self.log({"ev": "coll", "rank": rank, "kind": kind, "cseq": seq})
        self._park(rank, {"k": "coll", "seq": seq, "kind": kind})
        return slot

    # -- scheduler side --------------------------------------------------
    def _enabled(self, rank: int) -> list[Any]:
        """-> list of decisions (one transition each) for the parked rank."""
        op = self.rs[rank].op
        k = op["k"]
        if k in ("start", "exec", "irecv", "isend", "hook"):
            return [None]
        if k == "coll":
            return [None] if len(self.colls[op["seq"]]["vals"]) == self.n else []
        if k == "waitsome":
            reqs = op["reqs"]
            if not [q for q in reqs if isinstance(q, RecvReq) and not q.done]:
                return ["spin"]
            return self._subsets(self.completable(rank, reqs))
        if k == "drain":
            return [None] if self.sends_matchable(rank) else []
        if k == "wait":
            return [None] if self.sends_matchable(rank, op["req"]) else []
        raise RuntimeError(f"unknown op {op}")

    def transitions(self) -> list[tuple[int, Any]]:
        out = []
        for r in range(self.n):
            if not self.rs[r].finished:
                out += [(r, d) for d in self._enabled(r)]
        return out

    def describe(self, t: tuple[int, Any]) -> dict:
        r, d = t
        op = self.rs[r].op
        lab = {"rank": r, "k": op["k"]}
        if op["k"] == "exec":
            lab["pid"] = op.get("pid")
        if op["k"] == "waitsome" and d != "spin":
            lab["idx"] = sorted(q.idx for q, _ in d)
        if d == "spin":
            lab["k"] = "spin"
        return lab

    def _await(self, count: int = 1) -> bool:
        for _ in range(count):
            if not self._sched.acquire(timeout=self.watchdog):
                return False
        return True

    def _abandon(self, rank: int, status: str, reason: str) -> None:
        st, res = self.rs[rank], self.results[rank]
        if st.finished:
            return
        res.status, res.reason, res.at = status, reason, \
            {k: v for k, v in (st.op or {}).items() if k in ("k", "seq", "kind", "pid")}
        st.abort = reason
        st.go.release()
        self._await()

    def _classify_stuck(self) -> None:
        self.stuck = True
        for r in range(self.n):
            st = self.rs[r]
            if st.finished:
                continue
            op = st.op or {}
            reason = "deadlock"
            if op.get("k") == "coll":
                missing = [q for q in range(self.n)
                           if q not in self.colls[op["seq"]]["vals"]]
                if any(self.results[q].status == "raised" for q in missing):
                    reason = "peer_raised"
                elif any(self.results[q].status == "ok" for q in missing):
                    reason = "peer_returned"
            elif any(self.results[q].status == "raised" for q in range(self.n)):
                reason = "deadlock_after_peer_raised"
            self.results[r].status, self.results[r].reason = "blocked", reason
        for r in range(self.n):
            if not self.rs[r].finished:
                st = self.rs[r]
                self.results[r].at = {k: v for k, v in (st.op or {}).items()
                                      if k in ("k", "seq", "kind", "pid")}
                st.abort = self.results[r].reason
                st.go.release()
                self._await()

    def run(self, fns: list[Callable]) -> list[RankResult]:
        assert len(fns) == self.n
        threads = [threading.Thread(target=self._body, args=(r, fns[r]), daemon=True)
                   for r in range(self.n)]
        for t in threads:
            t.start()
        if not self._await(self.n):
            raise Hang("ranks did not reach their first yield point")
        try:
            while True:
                if all(st.finished for st in self.rs):
                    if self.observer is not None:
                        self.observer.at_state(self, [])
                    break
                trans = self.transitions()
                if self.observer is not None:
                    self.observer.at_state(self, trans)
                if not trans:
                    self._classify_stuck()
                    break
                k = self.chooser.pick(self, trans)
                rank, decision = trans[k]
                if self.observer is not None:
                    self.observer.before_step(self, trans[k])
                st = self.rs[rank]
                st.decision = decision
                self.nsteps += 1
                st.go.release()
                if not self._await():
                    self.results[rank].status = "hang"
                    raise Hang(f"rank {rank} did not reach a yield point within "
                               f"{self.watchdog}s after {self.describe_op(rank)}")
                if self.observer is not None:
                    self.observer.after_step(self, rank)
        except StopRun:
            self.pruned = True
            for r in range(self.n):
                self._abandon(r, "aborted", "pruned")
        except Hang:
            for r in range(self.n):
                if self.results[r].status != "hang":
                    self._abandon(r, "aborted", "hang elsewhere")
            raise
        return self.results

    def describe_op(self, rank: int) -> str:
        return str({k: v for k, v in (self.rs[rank].op or {}).items() if k != "reqs"})


# --------------------------------------------------------------------------
# the communicator and the module

class FakeComm:
    def __init__(self, world: World, rank: int):
        self.world, self.rank, self.size = world, rank, world.n

    def Get_rank(self) -> int:
        return self.rank

    def Get_size(self) -> int:
        return self.size

    def Irecv(self, buf: Any, source: int = 0, tag: Any = 0) -> RecvReq:
        return self.world._irecv(self.rank, buf, source, tag)

    def Isend(self, buf: Any, dest: int = 0, tag: Any = 0) -> SendReq:
        return self.world._isend(self.rank, buf, dest, tag)

    def barrier(self) -> None:
        self.world._collective(self.rank, "barrier", None, None)

    Barrier = barrier

    def bcast(self, obj: Any, root: int = 0) -> Any:
        slot = self.world._collective(self.rank, "bcast", obj if self.rank == root else None,
                                      root)
        if self.rank == root:
            return obj
        return pickle.loads(slot["vals"][root])

    def gather(self, obj: Any, root: int = 0) -> list | None:
        slot = self.world._collective(self.rank, "gather", obj, root)
        if self.rank != root:
            return None
        return [pickle.loads(slot["vals"][r]) for r in range(self.size)]

    def allreduce(self, obj: Any, op: Any = None) -> Any:
        slot = self.world._collective(self.rank, "allreduce", obj, None)
        order = list(range(self.size))
        if self.world.shuffle_reduce:
            rng = np.random.default_rng([self.world.seed, self.rank,
                                         self.world.rs[self.rank].coll_seq])
            order = [int(i) for i in rng.permutation(self.size)]
        vals = [pickle.loads(slot["vals"][r]) for r in order]
        fn = op.fn if isinstance(op, FakeOp) else (op or (lambda a, b, _dt: a + b))
        acc = vals[0]
        for v in vals[1:]:
            acc = fn(acc, v, None)
        return acc


def _waitsome_static(requests: list) -> list[int] | None:
    world, rank = _tls.world, _tls.rank
    return world._waitsome(rank, requests)


def install() -> types.ModuleType:
    """Put a fake mpi4py into sys.modules (idempotent)."""
    if "mpi4py" in sys.modules and getattr(sys.modules["mpi4py"], "_ptverif_fake", False):
        return sys.modules["mpi4py"].MPI
    pkg = types.ModuleType("mpi4py")
    pkg._ptverif_fake = True
    MPI = types.ModuleType("mpi4py.MPI")

    class Op:
        Create = staticmethod(lambda fn, commute=False: FakeOp(fn, commute))

    class Request:
        Waitsome = staticmethod(_waitsome_static)

    MPI.Op, MPI.Request = Op, Request
    MPI.Comm = FakeComm
    MPI.Datatype = object
    pkg.MPI = MPI
    sys.modules["mpi4py"] = pkg
    sys.modules["mpi4py.MPI"] = MPI
    return MPI
