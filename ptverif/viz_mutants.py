"""Hand mutants for X02 (notes/viz.md).  Usage:
    git -C /repo worktree add --detach /var/tmp/wt-viz HEAD
    /venv/bin/python ptverif/viz_mutants.py [name prefixes]
    git -C /repo worktree remove --force /var/tmp/wt-viz
Each mutant is one (file, old, new) replacement applied to the scratch
worktree; X02 quick is run against it (evidence and replay files redirected
with PTVERIF_OUT, never into /verif); the file is restored.  A mutant counts
as caught when the run reports violations that the unchanged worktree does
not (the unchanged tree has the proposed findings of notes/viz.md)."""
import json
import os
import re
import subprocess
import sys
import time

WT = "/var/tmp/wt-viz"
OUT = "/var/tmp/out-viz"
DOT = "pytato/visualization/dot.py"
FAN = "pytato/visualization/fancy_placeholder_data_flow.py"
STR = "pytato/stringifier.py"
MUTANTS = [
 ("D01-only-first-binding-drawn", DOT,
  "        for name, val in expr.bindings.items():\n            self.rec(val)\n            info.edges[name] = val\n\n        self.node_to_dot[expr] = info\n\n    def map_stack",
  "        for name, val in list(expr.bindings.items())[:1]:\n            self.rec(val)\n            info.edges[name] = val\n\n        self.node_to_dot[expr] = info\n\n    def map_stack"),
 ("D02-stack-edges-share-one-label", DOT,
  "            info.edges[str(i)] = array",
  "            info.edges[str(0)] = array"),
 ("D03-index-edges-share-one-label", DOT,
  "                label = f\"i{i}\"",
  "                label = \"i\""),
 ("D04-einsum-edge-label-without-position", DOT,
  "            info.edges[f\"{iarg}: {access_descr}\"] = val",
  "            info.edges[f\"{access_descr}\"] = val"),
 ("D05-csr-column-edge-from-values", DOT,
  "        info.edges[\"matrix.elem_col_indices\"] = expr.matrix.elem_col_indices",
  "        info.edges[\"matrix.elem_col_indices\"] = expr.matrix.elem_values"),
 ("D06-sent-edge-from-passthrough", DOT,
  "        info.edges[\"sent\"] = expr.send.data",
  "        info.edges[\"sent\"] = expr.passthrough_data"),
 ("D07-no-html-escape", DOT,
  "    return html.escape(s.replace(\"\\\\\", \"\\\\\\\\\").replace(\" \", \"_\"))",
  "    return s.replace(\"\\\\\", \"\\\\\\\\\").replace(\" \", \"_\")"),
 ("D08-newline-not-a-br", DOT,
  "        field_content = dot_escape(field).replace(\"\\n\", \"<br/>\")",
  "        field_content = dot_escape(field)"),
 ("D09-dtype-not-shown", DOT,
  "                  \"dtype\": str(expr.dtype),\n",
  ""),
 ("D10-function-edges-reversed", DOT,
  "            emit(f'{tail} -> {head} [label=\"{dot_escape(label)}\"]')",
  "            emit(f'{head} -> {tail} [label=\"{dot_escape(label)}\"]')"),
 ("D11-cross-edge-from-consuming-part", DOT,
  "                    tgt = part_id_to_array_to_id[computing_pid][\n                            partition.name_to_output[array.name]]",
  "                    tgt = part_id_to_array_to_id[part.pid].get(\n                            partition.name_to_output[array.name],\n                            part_id_to_array_to_id[computing_pid][\n                            partition.name_to_output[array.name]])"),
 ("D12-cross-edge-once-per-reading-part", DOT,
  "                    emit_root(f\"{tgt} -> {array_to_id[array]} [style=dashed]\")\n                    emitted_placeholders.add(array)",
  "                    emit_root(f\"{tgt} -> {array_to_id[array]} [style=dashed]\")"),
 ("D13-placeholders-numbered-per-part", DOT,
  "                if array in placeholder_to_id:",
  "                if False:"),
 ("D14-output-name-edges-reversed", DOT,
  "        emit(subgraph_path, f\"{array_id} -> {name_id}\")",
  "        emit(subgraph_path, f\"{name_id} -> {array_id}\")"),
 ("D15-recv-edge-drawn-dashed", DOT,
  "                    emit_root(f\"{tgt} -> {array_to_id[array]} [style=dotted]\")",
  "                    emit_root(f\"{tgt} -> {array_to_id[array]} [style=dashed]\")"),
 ("D16-send-edge-labelled-with-tag", DOT,
  "                            f'[style=dotted, label=\"{dot_escape(name)}\"]')",
  "                            f'[style=dotted, label=\"{dot_escape(str(send.comm_tag))}\"]')"),
 ("D17-tags-not-sorted", DOT,
  "    components = sorted(str(elem) for elem in tags)",
  "    components = [str(elem) for elem in tags]"),
 ("D18-one-tuple-without-comma", DOT,
  "    elif len(components) == 1:\n        components[0] += \",\"",
  "    elif len(components) == 1:\n        components[0] += \"\""),
 ("D19-single-part-drawn-without-cluster", DOT,
  "        is_trivial_partition = part.pid is None and len(partition.parts) == 1",
  "        is_trivial_partition = len(partition.parts) == 1"),
 ("D20-overall-outputs-of-first-part-only", DOT,
  "    for part_id in partition.parts:\n        combined_array_to_id.update(part_id_to_array_to_id[part_id])",
  "    for part_id in list(partition.parts)[:1]:\n        combined_array_to_id.update(part_id_to_array_to_id[part_id])"),
 ("D21-send-nodes-of-first-send-only", DOT,
  "                for send in sends:\n                    node_id = id_gen(\"send\")",
  "                for send in sends[:1]:\n                    node_id = id_gen(\"send\")"),
 ("D22-named-call-result-edge-dropped", DOT,
  "                edges={\"\": expr._container},",
  "                edges={},"),
 ("D23-function-returns-mapped-from-first-only", DOT,
  "            for elem in f.returns.values():\n                mapper(elem)",
  "            for elem in list(f.returns.values())[:1]:\n                mapper(elem)"),
 ("D24-addr-of-the-type", DOT,
  "        fields = {\"addr\": hex(id(expr)),",
  "        fields = {\"addr\": hex(id(type(expr))),"),
 ("S01-truncates-one-level-early", STR,
  "    def _map_generic_array(self, expr: Array, depth: int) -> str:\n        if depth > self.truncation_depth:",
  "    def _map_generic_array(self, expr: Array, depth: int) -> str:\n        if depth >= self.truncation_depth:"),
 ("S02-cache-key-without-depth", STR,
  "    def rec(self, expr: Any, depth: int) -> str:\n        cache_key = (id(expr), depth)",
  "    def rec(self, expr: Any, depth: int) -> str:\n        cache_key = (id(expr), 0)"),
 ("S03-tags-never-shown", STR,
  "        if not expr.tags:\n            # prettify: if empty 'expr.tags' => don't print.",
  "        if True:\n            # prettify: if empty 'expr.tags' => don't print."),
 ("S04-mappings-not-sorted", STR,
  "                                in sorted(expr.items(),\n                                          key=lambda k_x_v: cast(\"str\", k_x_v[0])))",
  "                                in expr.items())"),
 ("S05-dict-of-named-arrays-adds-a-level", STR,
  "                + self.rec(expr._data, depth)",
  "                + self.rec(expr._data, depth+1)"),
 ("S06-results-never-cached", STR,
  "                result = self.map_foreign(expr, depth)\n            self._cache[cache_key] = result",
  "                result = self.map_foreign(expr, depth)"),
 ("S07-function-printed-at-the-call's-depth", STR,
  "                return self.rec_function_definition(expr.function, depth+1)",
  "                return self.rec_function_definition(expr.function, depth)"),
 ("S08-axes-dropped-when-any-axis-is-trivial", STR,
  "        if all(axis == Axis(frozenset()) for axis in expr.axes):",
  "        if any(axis == Axis(frozenset()) for axis in expr.axes):"),
 ("S09-dtype-shown-by-str", STR,
  "            return f\"'{dtype_name}'\"",
  "            return f\"{dtype_name}\""),
 ("Y01-fancy-edges-reversed", FAN,
  "            new_edges.add((pred.node_id, node_id))",
  "            new_edges.add((node_id, pred.node_id))"),
 ("Y02-fancy-data-wrappers-shown", FAN,
  "    def map_data_wrapper(self, expr: DataWrapper) -> _FancyDotWriterNode:\n        return NoShowNode()",
  "    def map_data_wrapper(self, expr: DataWrapper) -> _FancyDotWriterNode:\n        return PlainOldDotNode(\"dw\")"),
 ("Y03-fancy-output-edge-missing", FAN,
  "                self.edges.add((rec_subexpr.node_id, node_id))",
  "                pass"),
 ("Y04-fancy-index-arrays-ignored", FAN,
  "             *[self.rec(idx) for idx in expr.indices if isinstance(idx, Array)]]",
  "             ]"),
 ("Y05-show-dot-graph-drops-kwargs", DOT,
  "    show_dot(dot_code, **kwargs)",
  "    show_dot(dot_code)"),
]


def run_x02(label: str) -> tuple[int, dict, float]:
    env = dict(os.environ, PTVERIF_REPO=WT, PTVERIF_OUT=OUT,
               VERIF_SCRATCH="/var/tmp/scr-viz", X02_SKIP_MC="1")
    t0 = time.time()
    p = subprocess.run(["/venv/bin/python", "checks/run.py", "X02", "quick"], cwd="/verif",
                       env=env, capture_output=True, text=True, timeout=3000)
    groups: dict[str, int] = {}
    on = False
    for ln in p.stdout.splitlines():
        if ln.startswith("violations grouped by signature"):
            on = True
            continue
        if on:
            m = re.match(r"\s+(\d+)\s+(\{.*\})$", ln)
            if not m:
                on = False
                continue
            groups[m.group(2)] = int(m.group(1))
    if p.returncode == 2:
        groups["MACHINERY"] = 1
        tail = [ln for ln in p.stdout.splitlines() if "MACHINERY" in ln][:1]
        groups["MACHINERY: " + (tail[0][:200] if tail else p.stdout[-200:])] = 1
    return p.returncode, groups, time.time() - t0


def main() -> None:
    sel = sys.argv[1:]
    os.makedirs(OUT, exist_ok=True)
    res_file = os.path.join(OUT, "mutants.json")
    results = json.load(open(res_file)) if os.path.exists(res_file) else {}
    if "BASE" not in results or "BASE" in sel:
        rc, groups, dt = run_x02("BASE")
        results["BASE"] = {"rc": rc, "groups": groups, "wall": round(dt)}
        print("BASE", rc, groups, round(dt), flush=True)
    base = results["BASE"]["groups"]
    for name, path, old, new in MUTANTS:
        if sel and not any(name.startswith(s) for s in sel):
            continue
        full = os.path.join(WT, path)
        src = open(full).read()
        if src.count(old) != 1:
            print(name, "PATTERN occurs", src.count(old), "times -- skipped", flush=True)
            continue
        open(full, "w").write(src.replace(old, new))
        try:
            rc, groups, dt = run_x02(name)
        finally:
            open(full, "w").write(src)
        new_groups = {g: n for g, n in groups.items() if n > base.get(g, 0)}
        results[name] = {"rc": rc, "new": new_groups, "wall": round(dt),
                         "caught": bool(new_groups) and "MACHINERY" not in groups}
        print(name, "rc", rc, "CAUGHT" if results[name]["caught"] else "missed",
              json.dumps(new_groups)[:400], round(dt), flush=True)
        json.dump(results, open(res_file, "w"), indent=1)
    json.dump(results, open(res_file, "w"), indent=1)


if __name__ == "__main__":
    main()
