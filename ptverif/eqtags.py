"""Tags of different classes whose hash depends on PYTHONHASHSEED (string
fields), for members that carry SEVERAL tags: the iteration order of such a
frozenset differs between interpreter processes (C18, C04).  Importable,
hence picklable."""
from __future__ import annotations

from dataclasses import dataclass

from pytools.tag import Tag


@dataclass(frozen=True)
class StrTag(Tag):
    s: str = ""


@dataclass(frozen=True)
class NameTag(Tag):
    name: str = ""
    level: int = 0


@dataclass(frozen=True)
class KindTag(Tag):
    kind: str = ""


@dataclass(frozen=True)
class PathTag(Tag):
    path: tuple = ()


@dataclass(frozen=True)
class LabelTag(Tag):
    label: str = ""


def several(n: int, salt: str = "") -> frozenset:
    """n tags of n different classes (n <= 5)."""
    pool = [StrTag("alpha" + salt), NameTag("beta" + salt, 1), KindTag("gamma" + salt),
            PathTag(("delta" + salt, "eps")), LabelTag("zeta" + salt)]
    return frozenset(pool[:n])
