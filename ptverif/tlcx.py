"""Validation of record batches by TLC (use E) for the PtEq / PtKey /
PtProcess family.  Same contract as tlc.validate_records, but

* verdict lines may be wrapped by TLC's pretty printer (long ids / details),
* the optional 4th element is a JSON string that is decoded here,
* per-shard TLC statistics are kept.

Verdict line:  <<"V", id, clause>>  or  <<"V", id, clause, "<json>">>
"""
from __future__ import annotations

import json
import os
import re
import time
from concurrent.futures import ThreadPoolExecutor
from dataclasses import dataclass, field
from typing import Any

from .common import NCPU, MachineryError, scratch
from .tlc import TLCResult, run_tlc


@dataclass
class Validation:
    verdicts: dict[str, str] = field(default_factory=dict)
    detail: dict[str, Any] = field(default_factory=dict)
    states: int = 0
    transitions: int = 0
    wall: float = 0.0
    runs: int = 0


_STR = r'"(?:[^"\\]|\\.)*"'
_RE_V = re.compile(r'<<\s*"V",\s*(' + _STR + r'),\s*(' + _STR + r')(?:,\s*(' + _STR + r'))?\s*>>')


def tuples_in(out: str) -> list[str]:
    """Top-level <<...>> values printed at the start of a line, with wrapped
    lines joined."""
    res, cur = [], None
    for line in out.splitlines():
        s = line.strip()
        if cur is None:
            if line.startswith("<<"):
                cur = s
            else:
                continue
        else:
            cur += " " + s
        if cur.endswith(">>") and _balanced(cur):
            res.append(cur)
            cur = None
    return res


def _balanced(s: str) -> bool:
    # count << and >> outside string literals
    depth, i, n, instr = 0, 0, len(s), False
    while i < n:
        ch = s[i]
        if instr:
            if ch == "\\":
                i += 1
            elif ch == '"':
                instr = False
        elif ch == '"':
            instr = True
        elif s.startswith("<<", i):
            depth += 1
            i += 1
        elif s.startswith(">>", i):
            depth -= 1
            i += 1
        i += 1
    return depth == 0 and not instr


def parse_verdicts(out: str) -> tuple[dict[str, str], dict[str, Any]]:
    verdicts: dict[str, str] = {}
    detail: dict[str, Any] = {}
    for t in tuples_in(out):
        m = _RE_V.fullmatch(t)
        if not m:
            continue
        rid = json.loads(m.group(1))
        cl = json.loads(m.group(2))
        if verdicts.get(rid, "ok") == "ok":
            verdicts[rid] = cl
            if m.group(3):
                try:
                    detail[rid] = json.loads(json.loads(m.group(3)))
                except json.JSONDecodeError:
                    detail[rid] = json.loads(m.group(3))
    return verdicts, detail


def parse_tagged_json(out: str, tag: str) -> list[Any]:
    """<<"TAG", "<json>">> lines (possibly wrapped) -> decoded objects."""
    res = []
    rx = re.compile(r'<<\s*"' + re.escape(tag) + r'",\s*(' + _STR + r')\s*>>')
    for t in tuples_in(out):
        m = rx.fullmatch(t)
        if m:
            res.append(json.loads(json.loads(m.group(1))))
    return res


def validate(module: str, cfg: str, records: list[dict], *, shards: int | None = None,
             timeout: float = 900, env: dict[str, str] | None = None,
             heap: str = "2g", per_shard: int = 40) -> Validation:
    if not records:
        return Validation()
    ids = [r["id"] for r in records]
    if len(set(ids)) != len(ids):
        raise MachineryError("duplicate record ids in batch")
    shards = shards or min(NCPU, max(1, len(records) // per_shard))
    chunks = [c for c in (records[i::shards] for i in range(shards)) if c]
    files = []
    for i, c in enumerate(chunks):
        p = os.path.join(scratch(), f"xbatch_{os.getpid()}_{time.time_ns()}_{i}.json")
        with open(p, "w") as f:
            json.dump(c, f)
        files.append(p)

    def one(p: str) -> TLCResult:
        e = dict(env or {})
        e["BATCH_FILE"] = p
        return run_tlc(module, cfg, env=e, workers=1, timeout=timeout, heap=heap)

    t0 = time.time()
    with ThreadPoolExecutor(max_workers=len(files)) as ex:
        results = list(ex.map(one, files))
    val = Validation(wall=time.time() - t0, runs=len(files))
    for p, c, res in zip(files, chunks, results):
        v, d = parse_verdicts(res.out)
        val.verdicts.update(v)
        val.detail.update(d)
        val.states += res.distinct
        val.transitions += res.generated
        missing = [r["id"] for r in c if r["id"] not in v]
        if missing or res.error:
            keep = os.path.join(scratch(), "failed_batch.json")
            os.replace(p, keep)
            raise MachineryError(
                f"TLC gave no verdict for {len(missing)} record(s) "
                f"(first: {missing[:3]}) in {module}; batch kept at {keep}\n"
                f"{res.error or res.out[-2000:]}")
        os.unlink(p)
    return val
