"""Shared driver for checks C08 / C09 / C10: what is done with one program
(in a worker process) and the TLC batch runs over the results."""
from __future__ import annotations

import hashlib
import json
import multiprocessing as mp
import os
import re
import time
import zlib
from concurrent.futures import ThreadPoolExecutor
from typing import Any

import numpy as np

from . import distharness as dh
from . import fakempi, tlc
from .common import NCPU, MachineryError, scratch, seed


# --------------------------------------------------------------------------
# one program, in a worker

def canon_state(s: Any) -> str:
    """One canonical text for an abstract global state, whether it comes from
    the harness (dicts) or from TLC's ToJson (pairs, sets in TLC's order)."""
    if isinstance(s, str):
        s = json.loads(s)
    ranks = []
    for rk in s["ranks"]:
        ctx = rk["ctx"]
        items = sorted(ctx.items()) if isinstance(ctx, dict) else sorted(map(tuple, ctx))
        ranks.append([rk["pc"], [list(i) for i in items], sorted(rk["executed"]),
                      sorted(rk["rdone"]), list(rk["pending"])])
    net = sorted([c[0], c[1], [list(m) for m in c[2]]] for c in s["net"])
    return json.dumps([ranks, net], separators=(",", ":"))


def final_of(res: dh.ExecResult) -> list[str]:
    out = []
    for st in res.status:
        if st["status"] == "ok":
            out.append("done")
        elif st["status"] == "raised":
            out.append("spinning" if st["exc"] == "SpinDetected" else "crashed")
        elif st["status"] == "blocked":
            out.append("blocked")
        else:
            out.append("any")
    return out


def compare_outputs(res: dh.ExecResult, gouts: list[dict] | None) -> list[dict]:
    bad = []
    if gouts is None:
        return bad
    for r, (st, out) in enumerate(zip(res.status, res.outputs)):
        if st["status"] != "ok":
            continue
        if out is None or set(out) != set(gouts[r]):
            bad.append({"rank": r, "what": "output names differ",
                        "got": sorted(out or {}), "want": sorted(gouts[r])})
            continue
        for nm, v in gouts[r].items():
            got = np.asarray(out[nm])
            if got.shape != v.shape or got.dtype != v.dtype or not np.array_equal(got, v):
                bad.append({"rank": r, "what": f"output {nm!r} differs",
                            "got": np.asarray(got).tolist(), "want": v.tolist()})
    return bad


def process(prog: dict, opts: dict) -> dict:
    """Everything that needs the real code, for one program.  opts:
    nrandom (seeded random schedules), dfs_runs (cap on DFS re-executions, 0 =
    no DFS), fine (also run fine-grained schedules), execute (bool)."""
    t0 = time.time()
    sd = opts.get("seed", 0)
    out: dict[str, Any] = {"id": prog["id"], "n": prog["nranks"]}
    try:
        pl = dh.run_pipeline(prog, seed=sd)
    except fakempi.Hang as ex:
        out["hang"] = str(ex)
        return out
    out["stages"] = pl.stages()
    out["summary"] = pl.summary()
    out["anomalies"] = pl.anomalies
    out["skeleton"] = dh.comm_skeleton(pl, prog)
    try:
        gouts, gmsgs = dh.global_reference(pl.dags, pl.inputs)
        out["ref_ok"] = True
    except dh.Malformed as ex:
        gouts, gmsgs = None, {}
        out["ref_ok"], out["ref_err"] = False, str(ex)
    out["partitioned"] = pl.partitioned
    out["numbered"] = all(p is not None for p in pl.num)
    if not out["numbered"]:
        out["wall"] = time.time() - t0
        return out
    vt = dh.ValueTable()
    inst = dh.export_instance(pl, vt)
    out["inst"] = inst
    # static faithfulness: the part expressions, evaluated in the expected
    # context, give what the unpartitioned global graph gives
    static = []
    if gouts is not None:
        for r, rk in enumerate(inst["ranks"]):
            for nm, v in rk["gout"].items():
                if rk["exp"].get(nm) != v:
                    static.append({"rank": r, "name": nm, "what": "overall output"})
            for p in rk["parts"]:
                for s in p["sends"]:
                    want = [vt.of(v) for (src, dst, tag), v in gmsgs.items()
                            if src == r and dst == s["dst"]
                            and dh._tagtok(dh.sym_tags_of(prog), tag) == s["sym"]]
                    if want and rk["exp"].get(s["name"]) != want[0]:
                        static.append({"rank": r, "name": s["name"], "what": "sent array"})
    out["static"] = static
    # the parts must be compilable by pytato's own generate_code_for_partition
    # (code is generated, not run: there is no OpenCL platform here)
    codegen = []
    if opts.get("codegen", True):
        from pytato.distributed.execute import generate_code_for_partition
        for r in range(prog["nranks"]):
            try:
                prgs = generate_code_for_partition(pl.num[r])
                if set(prgs) != set(pl.num[r].parts):
                    codegen.append({"rank": r, "exc": "", "msg": "part ids differ"})
            except Exception as ex:      # noqa: BLE001
                codegen.append({"rank": r, "exc": type(ex).__name__, "msg": str(ex)[:200]})
    out["codegen"] = codegen
    if not opts.get("execute", True):
        out["wall"] = time.time() - t0
        return out
    traces, runs = [], []
    nrandom = opts.get("nrandom", 3)
    rng = np.random.default_rng([sd, zlib.crc32(prog["id"].encode())])
    for k in range(nrandom):
        grain = "fine" if opts.get("fine") and k % 3 == 2 else "model"
        ch = fakempi.ReplayChooser([], then=fakempi.RandomChooser(
            np.random.default_rng(rng.integers(2 ** 31))))
        try:
            res = dh.ExecHarness(pl, inst, vt, ch, grain=grain).run()
        except fakempi.Hang as ex:
            runs.append({"k": k, "hang": str(ex)})
            continue
        bad = compare_outputs(res, gouts)
        runs.append({"k": k, "grain": grain, "status": res.status, "final": final_of(res),
                     "stuck": res.stuck, "bad_outputs": bad, "choices": res.choices,
                     "anomalies": res.anomalies, "steps": res.nsteps,
                     "leftovers": res.leftovers})
        traces.append({"id": f"{prog['id']}#{grain[0]}{k}", "events": res.events,
                       "final": final_of(res), "grain": grain})
    out["runs"], out["traces"] = runs, traces
    # time stepping: the same partition object executed three times in a row
    if opts.get("reexecute", True) and all(
            all(s["status"] == "ok" for s in r.get("status", [{"status": "x"}])) for r in runs):
        try:
            out["reexec"] = dh.reexecute(pl, times=3, seed=int(rng.integers(2 ** 31)))
        except fakempi.Hang as ex:
            out["reexec"] = [{"clause": "reexecution_failed", "rank": -1, "step": 0,
                              "what": f"re-execution hangs: {ex}"}]
    dfs_runs = opts.get("dfs_runs", 0)
    if dfs_runs:
        bad_dfs: list[dict] = []
        finals: dict[str, int] = {}

        def on_run(res: dh.ExecResult) -> None:
            if res.pruned:
                return
            f = ",".join(final_of(res))
            finals[f] = finals.get(f, 0) + 1
            b = compare_outputs(res, gouts)
            if b or res.stuck or res.leftovers or any(s["status"] != "ok" for s in res.status):
                if len(bad_dfs) < 3:
                    bad_dfs.append({"status": res.status, "bad_outputs": b,
                                    "choices": res.choices, "stuck": res.stuck,
                                    "leftovers": res.leftovers, "events": res.events})
        try:
            ex = dh.explore_all(pl, inst, vt, max_runs=dfs_runs, on_run=on_run)
            out["dfs"] = {"complete": ex["complete"], "runs": ex["runs"],
                          "nstates": len(ex["states"]), "nedges": len(ex["edges"]),
                          "finals": finals, "bad": bad_dfs,
                          "states": sorted(canon_state(s) for s in ex["states"])
                          if ex["complete"] and len(ex["states"]) <= opts.get("dfs_keep", 4000)
                          else None}
        except fakempi.Hang as ex2:
            out["dfs"] = {"hang": str(ex2)}
    out["wall"] = time.time() - t0
    return out


def compare_outputs_tol(res: dh.ExecResult, gouts: list[dict] | None) -> list[dict]:
    """As compare_outputs, with ptverif.runprog.compare's rule: integers
    exactly, floating point within tolerance."""
    bad = []
    if gouts is None:
        return bad
    for r, (st, out) in enumerate(zip(res.status, res.outputs)):
        if st["status"] != "ok":
            continue
        if out is None or set(out) != set(gouts[r]):
            bad.append({"rank": r, "what": "output names differ",
                        "got": sorted(out or {}), "want": sorted(gouts[r])})
            continue
        for nm, v in gouts[r].items():
            why = dh._differs(np.asarray(out[nm]), v)
            if why:
                bad.append({"rank": r, "what": f"output {nm!r}: {why}"})
    return bad


def generate_part_code(pl: dh.Pipeline) -> tuple[list[dict | None], list[dict]]:
    """pytato's own generate_code_for_partition for every rank, with the
    harness's C target (ptverif/cexec.py) instead of the PyOpenCL one: the
    function looks generate_loopy up in the pytato namespace at call time, so
    the target is supplied there, in this process only."""
    import functools

    import pytato
    from pytato.distributed.execute import generate_code_for_partition

    from . import cexec
    real = pytato.generate_loopy
    prgs: list[dict | None] = []
    errs = []
    pytato.generate_loopy = functools.partial(real, target=cexec.make_target())
    try:
        for r in range(pl.prog["nranks"]):
            try:
                prgs.append(dict(generate_code_for_partition(pl.num[r])))
            except Exception as ex:      # noqa: BLE001
                prgs.append(None)
                errs.append({"rank": r, "exc": type(ex).__name__, "msg": str(ex)[:200]})
    finally:
        pytato.generate_loopy = real
    return prgs, errs


def process_real_code(prog: dict, opts: dict) -> dict:
    """The stage that closes the gap between 'code is generated' and 'code
    runs': every rank's parts are compiled by generate_code_for_partition (C
    target, gcc) and executed by the REAL execute_distributed_partition under
    the controlled scheduler; outputs vs the unpartitioned global NumPy
    evaluation, every kernel result vs the reference evaluation of its part on
    the same inputs, traces (integer programs) for DistTrace."""
    t0 = time.time()
    sd = opts.get("seed", 0)
    out: dict[str, Any] = {"id": prog["id"], "n": prog["nranks"], "real_code": True}
    pl = dh.run_pipeline(prog, seed=sd)
    out["summary"] = pl.summary()
    if not all(p is not None for p in pl.num):
        out["numbered"] = False
        return out
    out["numbered"] = True
    gouts, _ = dh.global_reference(pl.dags, pl.inputs)
    vt = dh.ValueTable()
    inst = dh.export_instance(pl, vt)
    out["inst"] = inst
    prgs, errs = generate_part_code(pl)
    out["codegen"] = errs
    if errs:
        return out
    fault = opts.get("selftest_fault")       # binding demonstration only (checks/c08.py)
    if fault:
        def spoil(bound: Any) -> Any:
            def f(**kw: Any) -> dict:
                if fault == "die":
                    os._exit(139)
                res = bound(**kw)
                return {k: v + 1 for k, v in res.items()}
            return f
        prgs = [{pid: spoil(b) for pid, b in d.items()} for d in prgs]
    rng = np.random.default_rng([sd, zlib.crc32(prog["id"].encode()), 5])
    runs, traces = [], []
    integer = dh.dtype_of(prog).kind in "iu"
    for k in range(opts.get("nreal", 3)):
        grain = "fine" if k % 3 == 2 else "model"
        ch = fakempi.ReplayChooser([], then=fakempi.RandomChooser(
            np.random.default_rng(rng.integers(2 ** 31))))
        res = dh.ExecHarness(pl, inst, vt, ch, grain=grain, programs=prgs).run()
        runs.append({"k": k, "grain": grain, "status": res.status, "final": final_of(res),
                     "stuck": res.stuck, "bad_outputs": compare_outputs_tol(res, gouts),
                     "choices": res.choices, "anomalies": res.anomalies,
                     "leftovers": res.leftovers, "kernel_issues": res.kernel_issues,
                     "steps": res.nsteps})
        if integer:
            traces.append({"id": f"{prog['id']}#c{grain[0]}{k}", "events": res.events,
                           "final": final_of(res), "grain": grain})
    out["runs"], out["traces"] = runs, traces
    out["nparts"] = sum(len(p) for p in prgs if p)
    out["wall"] = time.time() - t0
    return out


def _process_real_many(progs_opts: list[tuple[dict, dict]]) -> list[dict]:
    """For common.robust_map (a list in, a list out; module level = picklable)."""
    from .common import ensure_repo_on_path
    ensure_repo_on_path()
    ensure_scratch()
    res = []
    for p, opts in progs_opts:
        try:
            res.append(process_real_code(p, opts))
        except fakempi.Hang as ex:
            res.append({"id": p["id"], "hang": str(ex)})
        except MachineryError as ex:
            res.append({"id": p["id"], "machinery": str(ex)})
        except Exception as ex:      # noqa: BLE001
            import traceback
            res.append({"id": p["id"], "machinery": f"{type(ex).__name__}: {ex}\n"
                        + traceback.format_exc()[-1500:]})
    return res


def process_real_all(progs: list[dict], opts: dict, timeout: float = 300) -> list[dict]:
    """A kernel that kills or hangs its process becomes {"id", "crashed"}."""
    from .common import robust_map
    if not progs:
        return []
    items = [(p, opts) for p in progs]

    def crashed(item: Any, reason: str) -> dict:
        return {"id": item[0]["id"], "crashed": reason}
    return robust_map(_process_real_many, items, crashed=crashed, timeout=timeout,
                      chunk=max(1, len(items) // (NCPU * 2)))


def _process_many(args: tuple[list[dict], dict]) -> list[dict]:
    progs, opts = args
    from .common import ensure_repo_on_path
    ensure_repo_on_path()
    res = []
    for p in progs:
        try:
            res.append(process(p, opts))
        except MachineryError as ex:
            res.append({"id": p["id"], "machinery": str(ex)})
        except Exception as ex:      # noqa: BLE001
            import traceback
            res.append({"id": p["id"], "machinery": f"{type(ex).__name__}: {ex}\n"
                        + traceback.format_exc()[-1500:]})
    return res


def process_all(progs: list[dict], opts: dict, nproc: int = NCPU) -> list[dict]:
    if not progs:
        return []
    nchunks = max(1, min(len(progs), nproc * 4))
    chunks = [(progs[i::nchunks], opts) for i in range(nchunks)]
    if nproc == 1:
        res = [_process_many(c) for c in chunks]
    else:
        ctx = mp.get_context("fork")
        with ctx.Pool(nproc) as pool:
            res = pool.map(_process_many, chunks)
    by_id = {r["id"]: r for chunk in res for r in chunk}
    mach = [r for r in by_id.values() if "machinery" in r]
    if mach:
        raise MachineryError(f"{len(mach)} program(s) could not be processed; first: "
                             f"{mach[0]['id']}: {mach[0]['machinery']}")
    return [by_id[p["id"]] for p in progs]


# --------------------------------------------------------------------------
# TLC over batches of instances

def _tmpfile(name: str) -> str:
    """A path in the scratch directory (re-created if something outside this
    process removed it during a long run)."""
    return os.path.join(ensure_scratch(), name)


def ensure_scratch() -> str:
    d = scratch()
    for sub in ("", "tmp", "cache"):
        os.makedirs(os.path.join(d, sub), exist_ok=True)
    return d


# the TLC runs here are many and short: C1-only JIT and few GC threads cut
# their CPU time to a third (measured), which matters when 16 JVMs run at once
JVM = {"JAVA_TOOL_OPTIONS": "-XX:TieredStopAtLevel=1 -XX:ParallelGCThreads=2"}


_RE_T = re.compile(r'^<<"T", "((?:[^"\\]|\\.)*)", "([^"]*)">>$')
_RE_S = re.compile(r'^<<"S", "((?:[^"\\]|\\.)*)", (".*")>>$')


def model_check(insts: list[dict], cfg: str = "DistExec.cfg", timeout: float = 1500,
                shards: int | None = None, workers: int = 2,
                module: str = "DistExec") -> dict:
    """DistExec over a batch of exported instances.  -> {"clauses": id -> set,
    "states": id -> set of canonical states (instances with "dump"), "nstates",
    "ntrans", "wall"}"""
    if not insts:
        return {"clauses": {}, "states": {}, "nstates": 0, "ntrans": 0, "wall": 0.0, "runs": 0}
    shards = shards or max(1, min(NCPU // workers, (len(insts) + 7) // 8))
    chunks = [insts[i::shards] for i in range(shards)]
    chunks = [c for c in chunks if c]
    files = []
    for i, c in enumerate(chunks):
        p = _tmpfile(f"dx_{os.getpid()}_{time.time_ns()}_{i}.json")
        with open(p, "w") as f:
            json.dump(c, f)
        files.append(p)

    def one(p: str) -> tlc.TLCResult:
        return tlc.run_tlc(module, cfg, env={"BATCH_FILE": p, **JVM}, workers=workers,
                           timeout=timeout, heap="3g")
    t0 = time.time()
    with ThreadPoolExecutor(max_workers=len(files)) as ex:
        results = list(ex.map(one, files))
    clauses: dict[str, set] = {}
    states: dict[str, set] = {}
    nst = ntr = 0
    for p, c, res in zip(files, chunks, results):
        if res.error or res.violated or res.deadlock:
            keep = _tmpfile("failed_distexec.json")
            os.replace(p, keep)
            raise MachineryError(f"DistExec ({cfg}) failed on a batch (kept at {keep}): "
                                 f"{res.error or res.violated}\n{res.out[-2500:]}")
        for line in res.printed:
            line = line.strip()
            m = _RE_T.match(line)
            if m:
                clauses.setdefault(json.loads('"' + m.group(1) + '"'), set()).add(m.group(2))
                continue
            m = _RE_S.match(line)
            if m:
                iid = json.loads('"' + m.group(1) + '"')
                states.setdefault(iid, set()).add(canon_state(json.loads(m.group(2))))
        nst += res.distinct
        ntr += res.generated
        missing = [i["id"] for i in c if i["id"] not in clauses]
        if missing:
            raise MachineryError(f"DistExec gave no verdict for {missing[:3]}\n{res.out[-1500:]}")
        os.unlink(p)
    return {"clauses": clauses, "states": states, "nstates": nst, "ntrans": ntr,
            "wall": time.time() - t0, "runs": len(files)}


_ncex = [0]


def counterexample(inst: dict, timeout: float = 300, cap: int = 4) -> str:
    """TLC's error trace for one bad instance (for the replay file); at most
    *cap* per process, each costs a JVM start."""
    _ncex[0] += 1
    if _ncex[0] > cap:
        return "(counterexample not generated: cap reached; replay the file to get it)"
    p = _tmpfile(f"dx1_{os.getpid()}_{time.time_ns()}.json")
    one = dict(inst)
    one.pop("dump", None)
    with open(p, "w") as f:
        json.dump([one], f)
    res = tlc.run_tlc("DistExec", "DistExecInv.cfg", env={"BATCH_FILE": p, **JVM}, workers=1,
                      timeout=timeout)
    os.unlink(p)
    i = res.out.find("Error:")
    return res.out[i:i + 6000] if i >= 0 else res.out[-3000:]


def liveness(insts: list[dict], timeout: float = 1500, shards: int | None = None,
             depth: int = 0) -> dict:
    if not insts:
        return {"ok": True, "nstates": 0, "runs": 0}
    shards = shards or max(1, min(NCPU // 2, (len(insts) + 15) // 16))
    chunks = [c for c in (insts[i::shards] for i in range(shards)) if c]
    files = []
    for i, c in enumerate(chunks):
        p = _tmpfile(f"dl_{os.getpid()}_{time.time_ns()}_{i}.json")
        with open(p, "w") as f:
            json.dump([{k: v for k, v in x.items() if k != "dump"} for x in c], f)
        files.append(p)

    def one(p: str) -> tlc.TLCResult:
        return tlc.run_tlc("DistExec", "DistExecLive.cfg", env={"BATCH_FILE": p, **JVM},
                           workers=2, timeout=timeout, heap="3g")
    with ThreadPoolExecutor(max_workers=len(files)) as ex:
        results = list(ex.map(one, files))
    bad, nst = [], 0
    unchecked: list[dict] = []
    for p, c, res in zip(files, chunks, results):
        temporal = "Temporal properties were violated" in res.out
        if res.error and not temporal:
            raise MachineryError(f"DistExec liveness run failed: {res.error}")
        nst += res.distinct
        if temporal:
            m = re.search(r"inst = (\d+)", res.out)
            if not m:
                raise MachineryError("cannot find the instance in TLC's liveness counterexample")
            k = int(m.group(1)) - 1
            bad.append({"inst": c[k]["id"],
                        "trace": res.out[res.out.find("Error:"):][:4000]})
            # TLC stops at the first counterexample: the rest of the shard is unchecked
            unchecked += [x for i, x in enumerate(c) if i != k]
        os.unlink(p)
    if unchecked and depth < 6:
        more = liveness(unchecked, timeout=timeout, depth=depth + 1)
        bad += more["bad"]
        nst += more["nstates"]
    elif unchecked:
        raise MachineryError("too many liveness counterexamples to isolate")
    return {"ok": not bad, "bad": bad, "nstates": nst, "runs": len(files)}


def validate_traces(recs: list[dict], timeout: float = 1500) -> tlc.Validation:
    ensure_scratch()
    return tlc.validate_records("DistTrace", "DistTrace.cfg", recs, timeout=timeout,
                                shards=min(NCPU, max(1, len(recs) // 60)), heap="3g", env=JVM)


def validate_partitions(recs: list[dict], timeout: float = 1500) -> tlc.Validation:
    ensure_scratch()
    return tlc.validate_records("DistPartition", "DistPartition.cfg", recs, timeout=timeout,
                                shards=min(NCPU, max(1, len(recs) // 60)), heap="3g", env=JVM)


def trace_records(results: list[dict]) -> list[dict]:
    recs = []
    for r in results:
        if "inst" not in r:
            continue
        for t in r.get("traces", []):
            rec = {k: v for k, v in r["inst"].items() if k != "dump"}
            rec.update(id=t["id"], events=t["events"], final=t["final"])
            recs.append(rec)
    return recs


def digest(x: Any) -> str:
    return hashlib.sha256(json.dumps(x, sort_keys=True, default=str).encode()).hexdigest()[:12]
