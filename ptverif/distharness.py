"""Harness for the distributed family (C08, C09, C10).

A *program* ("prog") is plain data describing one DAG skeleton per rank:

    {"id": ..., "nranks": n, "tagkind": "str"|...,
     "ranks": [{"nodes": [node, ...], "outs": [[name, idx], ...]}, ...]}

    node = {"k": "in",   "name": "x"}
         | {"k": "dw",   "vals": [..]}                          data wrapper (fixed data)
         | {"k": "recv", "src": s, "tag": t, "v": 0}            v > 0: extra pytato tag,
                                                                 makes a distinct node
         | {"k": "op",   "args": [i, ...], "st": 0|1}           affine combination with
                                                                 node-specific coefficients;
                                                                 st = tagged ImplStored
         | {"k": "hold", "data": i, "dst": d, "tag": t, "pass": j}   send holder

Everything that follows is done with the REAL pytato code under the simulated
MPI of ptverif.fakempi: building the DAGs through the public API, partition ->
verify -> number, export of the partitions, execution of
execute_distributed_partition under a controlled scheduler with event traces,
and comparison with a reference evaluation of the unpartitioned global graph.
"""
from __future__ import annotations

import dataclasses
import json
import os
from typing import Any, Callable

import numpy as np

from . import disttags, fakempi
from .common import MachineryError

SHAPE = (2,)
DTYPE = np.int64


def dtype_of(prog: dict) -> Any:
    """Element type of every array of the program (default int64; "f8" gives
    a floating-point variant for the stage that runs generated code)."""
    return np.dtype(prog.get("dtype", "i8"))


# --------------------------------------------------------------------------
# building the per-rank DAGs

def coef(rank: int, idx: int, pos: int) -> int:
    """Small odd node-specific coefficients: different data flows give
    different values (with overwhelming probability over the random inputs)."""
    primes = (3, 5, 7, 11, 13, 17, 19, 23, 29, 31, 37, 41, 43, 47, 53, 59, 61, 67)
    return primes[(7 * rank + 3 * idx + 5 * pos + pos * idx) % len(primes)]


def sym_tags_of(prog: dict) -> dict[Any, str]:
    kind = prog.get("tagkind", "str")
    ts = set()
    for rk in prog["ranks"]:
        for nd in rk["nodes"]:
            if nd["k"] in ("recv", "hold"):
                ts.add(nd["tag"])
    return {disttags.sym_tag(kind, t): disttags.tag_token(kind, t) for t in sorted(ts)}


def build_rank(prog: dict, r: int) -> tuple[Any, list[Any]]:
    """-> (DictOfNamedArrays, list of node arrays).  Structurally equal nodes
    are built once (hash-consing on the construction steps), because pytato
    treats equal arrays as one node and its mappers insist on that."""
    import pytato as pt
    from pytato.tags import ImplStored

    from . import usertags
    kind = prog.get("tagkind", "str")
    rk = prog["ranks"][r]
    DTYPE = dtype_of(prog)          # noqa: N806
    arrs: list[Any] = []
    memo: dict[tuple, Any] = {}

    def cons(key: tuple, make: Callable[[], Any]) -> Any:
        if key not in memo:
            memo[key] = make()
        return memo[key]

    for i, nd in enumerate(rk["nodes"]):
        k = nd["k"]
        if k == "in":
            shape = tuple(nd.get("shape", SHAPE))
            a = cons(("in", nd["name"], shape),
                     lambda: pt.make_placeholder(nd["name"], shape, DTYPE))
        elif k == "dw":
            vals = np.array(nd["vals"]).astype(DTYPE)
            a = cons(("dw", tuple(nd["vals"])), lambda: pt.make_data_wrapper(vals))
        elif k == "recv":
            shape = tuple(nd.get("shape", SHAPE))

            def mk_recv() -> Any:
                tags = frozenset({usertags.BazTag(int(nd["v"]))}) if nd.get("v") \
                    else frozenset()
                return pt.make_distributed_recv(
                    src_rank=nd["src"], comm_tag=disttags.sym_tag(kind, nd["tag"]),
                    shape=shape, dtype=DTYPE, tags=tags)
            a = cons(("recv", nd["src"], nd["tag"], nd.get("v", 0), shape), mk_recv)
        elif k == "op":
            c0 = coef(r, i, 0)
            a = None
            for pos, j in enumerate(nd["args"]):
                c, arg, acc = coef(r, i, pos + 1), arrs[j], a
                term = cons(("mul", c, id(arg)), lambda: c * arg)
                if acc is None:
                    a = cons(("add0", c0, id(term)), lambda: c0 + term)
                else:
                    a = cons(("add", id(acc), id(term)), lambda: acc + term)
            if a is None:
                z = cons(("zeros",), lambda: pt.zeros(SHAPE, DTYPE))
                a = cons(("add0", c0, id(z)), lambda: z + c0)
            if nd.get("st"):
                plain = a
                a = cons(("stored", id(plain)), lambda: plain.tagged(ImplStored()))
        elif k == "hold":
            data, pas = arrs[nd["data"]], arrs[nd["pass"]]
            a = cons(("hold", id(data), nd["dst"], nd["tag"], id(pas)),
                     lambda: pt.staple_distributed_send(
                         data, dest_rank=nd["dst"],
                         comm_tag=disttags.sym_tag(kind, nd["tag"]), stapled_to=pas))
        else:
            raise MachineryError(f"unknown node kind {k}")
        arrs.append(a)
    outs = {name: arrs[idx] for name, idx in rk["outs"]}
    return pt.make_dict_of_named_arrays(outs), arrs


def make_inputs(prog: dict, seed: int) -> list[dict[str, np.ndarray]]:
    res = []
    for r, rk in enumerate(prog["ranks"]):
        rng = np.random.default_rng([seed, r, 77])
        d = {}
        for nd in rk["nodes"]:
            if nd["k"] == "in":
                v = rng.integers(1, 1000, size=tuple(nd.get("shape", SHAPE)))
                if dtype_of(prog).kind == "f":
                    v = v + rng.random(size=v.shape)
                d[nd["name"]] = v.astype(dtype_of(prog))
        res.append(d)
    return res


# --------------------------------------------------------------------------
# reflective walk and reference evaluation (independent of pytato's mappers)

def children(x: Any) -> list[Any]:
    """Direct array-valued constituents of a pytato node, found through the
    dataclass fields (bindings, tuples, send objects are looked into)."""
    from pytato.array import Array
    from pytato.distributed.nodes import DistributedSend
    out: list[Any] = []

    def look(v: Any) -> None:
        if isinstance(v, (Array, DistributedSend)):
            out.append(v)
        elif isinstance(v, (tuple, list, frozenset)):
            for e in v:
                look(e)
        elif hasattr(v, "items") and not isinstance(v, (str, bytes)):
            for k in sorted(v):
                look(v[k])
    for f in dataclasses.fields(x):
        if f.name in ("tags", "axes", "non_equality_tags", "shape", "dtype"):
            if f.name == "shape":
                look(tuple(d for d in getattr(x, f.name) if not isinstance(d, int)))
            continue
        look(getattr(x, f.name))
    return out


def walk(root: Any, through_sends: bool = True) -> list[Any]:
    """All distinct (by identity) nodes reachable from *root* (an Array, a
    DistributedSend or a DictOfNamedArrays), children first.  With
    through_sends=False a send holder only leads to its pass-through data."""
    from pytato.distributed.nodes import DistributedSendRefHolder
    seen: dict[int, Any] = {}
    order: list[Any] = []

    def rec(x: Any) -> None:
        if id(x) in seen:
            return
        seen[id(x)] = x
        from pytato.array import DictOfNamedArrays
        if isinstance(x, DictOfNamedArrays):
            for k in x:
                rec(x._data[k])
            return
        if not through_sends and isinstance(x, DistributedSendRefHolder):
            rec(x.passthrough_data)
        else:
            for c in children(x):
                rec(c)
        order.append(x)
    rec(root)
    return order


class _Eval:
    def __init__(self, env: dict[str, Any], recv: Callable[[Any], Any] | None = None):
        self.env, self.recv = env, recv
        self.memo: dict[int, Any] = {}
        self.keep: list[Any] = []

    def __call__(self, x: Any) -> np.ndarray:
        key = id(x)
        if key in self.memo:
            return self.memo[key]
        v = self.ev(x)
        self.memo[key] = v
        self.keep.append(x)
        return v

    def ev(self, x: Any) -> np.ndarray:
        import pytato as pt
        from pytato.distributed.nodes import DistributedRecv, DistributedSendRefHolder
        if isinstance(x, pt.Placeholder):
            if x.name not in self.env:
                raise KeyError(f"placeholder {x.name!r} has no value")
            v = np.asarray(self.env[x.name])
            if tuple(v.shape) != tuple(x.shape) or v.dtype != x.dtype:
                raise MachineryError(f"value for {x.name} has {v.shape}/{v.dtype}, "
                                     f"placeholder says {x.shape}/{x.dtype}")
            return v
        if isinstance(x, pt.DataWrapper):
            return np.asarray(x.data)
        if isinstance(x, DistributedRecv):
            if self.recv is None:
                raise MachineryError("receive inside a part expression")
            return self.recv(x)
        if isinstance(x, DistributedSendRefHolder):
            return self(x.passthrough_data)
        if isinstance(x, pt.IndexLambda):
            return self.index_lambda(x)
        if isinstance(x, pt.Roll):
            return np.roll(self(x.array), x.shift, x.axis)
        if isinstance(x, pt.AxisPermutation):
            return np.transpose(self(x.array), x.axis_permutation)
        if isinstance(x, pt.Stack):
            return np.stack([self(a) for a in x.arrays], x.axis)
        if isinstance(x, pt.Concatenate):
            return np.concatenate([self(a) for a in x.arrays], x.axis)
        raise MachineryError(f"reference evaluator: unsupported node {type(x).__name__}")

    def index_lambda(self, x: Any) -> np.ndarray:
        from pymbolic.mapper.evaluator import EvaluationMapper

        class M(EvaluationMapper):
            def map_type_cast(self, expr: Any) -> Any:
                return np.asarray(self.rec(expr.inner_expr)).astype(expr.dtype)

            def map_subscript(self, expr: Any) -> Any:
                agg = self.rec(expr.aggregate)
                idx = tuple(self.rec(i) for i in expr.index_tuple)
                return np.asarray(agg)[idx]

        ctx: dict[str, Any] = {n: self(b) for n, b in x.bindings.items()}
        shape = tuple(int(d) for d in x.shape)
        grids = np.ogrid[tuple(slice(0, d) for d in shape)] if shape else []
        for i, g in enumerate(grids):
            ctx[f"_{i}"] = g
        v = M(ctx)(x.expr)
        return np.broadcast_to(np.asarray(v), shape).astype(x.dtype)


def ref_eval(outs: dict[str, Any], env: dict[str, Any],
             recv: Callable[[Any], Any] | None = None) -> dict[str, np.ndarray]:
    ev = _Eval(env, recv)
    return {k: np.array(ev(v)) for k, v in outs.items()}


class Malformed(Exception):
    """The global data-flow graph has no meaning (the reference evaluator's
    own, structural, judgement; used only to cross-check WellFormedInput)."""


def comm_ends(dags: list[Any]) -> tuple[list[dict], list[dict]]:
    """Send ends and receive ends actually present in the real DAGs
    (reflective walk): [{"rank", "dst", "tag", "node", "deps": [recv end ids]}],
    [{"rank", "src", "tag", "node"}]."""
    from pytato.distributed.nodes import DistributedRecv, DistributedSend
    sends, recvs = [], []
    for r, dag in enumerate(dags):
        nodes = walk(dag)
        # DistributedSend objects compare by value; ends are counted by *holder*
        # node identity as pytato's traversal does (one send per distinct holder)
        from pytato.distributed.nodes import DistributedSendRefHolder
        seen_recv: list[Any] = []
        for x in nodes:
            if isinstance(x, DistributedRecv) and not any(x == y for y in seen_recv):
                seen_recv.append(x)
                recvs.append({"rank": r, "src": int(x.src_rank), "tag": x.comm_tag,
                              "node": x})
        seen_hold: list[Any] = []
        for x in nodes:
            if isinstance(x, DistributedSendRefHolder) and not any(x == y for y in seen_hold):
                seen_hold.append(x)
                sends.append({"rank": r, "dst": int(x.send.dest_rank),
                              "tag": x.send.comm_tag, "node": x.send})
    for s in sends:
        # data dependencies only: the value of a holder inside the data is its
        # pass-through; what THAT holder sends is the other send's business
        below = walk(s["node"].data, through_sends=False)
        s["deps"] = [i for i, rv in enumerate(recvs)
                     if rv["rank"] == s["rank"] and any(rv["node"] == y for y in below
                                                        if isinstance(y, DistributedRecv))]
    return sends, recvs


def global_reference(dags: list[Any], inputs: list[dict[str, np.ndarray]]
                     ) -> tuple[list[dict[str, np.ndarray]], dict[tuple, np.ndarray]]:
    """Value of every output on every rank in the unpartitioned global
    data-flow graph: a receive has the value of the data of THE send with the
    same (source, destination, symbolic tag).  -> (outputs per rank,
    {(src, dst, tag): message value}).  Raises Malformed if that is not
    well defined."""
    sends, recvs = comm_ends(dags)
    by_id: dict[tuple, list[dict]] = {}
    for s in sends:
        by_id.setdefault((s["rank"], s["dst"], s["tag"]), []).append(s)
    evals: list[_Eval] = []
    active: list[tuple] = []
    msgs: dict[tuple, np.ndarray] = {}

    def recv_on(r: int) -> Callable[[Any], Any]:
        def f(x: Any) -> np.ndarray:
            cid = (int(x.src_rank), r, x.comm_tag)
            cands = by_id.get(cid, [])
            if len(cands) != 1:
                raise Malformed(f"{len(cands)} sends for {cid}")
            if cid[0] == r or not (0 <= cid[0] < len(dags)):
                raise Malformed(f"self or out-of-range communication {cid}")
            if cid in active:
                raise Malformed(f"cyclic dependency through {cid}")
            if cid not in msgs:
                active.append(cid)
                v = evals[cid[0]](cands[0]["node"].data)
                active.pop()
                if tuple(v.shape) != tuple(x.shape) or v.dtype != x.dtype:
                    raise Malformed(f"shape/dtype mismatch on {cid}")
                msgs[cid] = np.array(v)
            return msgs[cid]
        return f

    for r in range(len(dags)):
        evals.append(_Eval(inputs[r], recv_on(r)))
    outs = []
    for r, dag in enumerate(dags):
        outs.append({k: np.array(evals[r](dag._data[k])) for k in dag})
    # every send must be consumed by exactly one receive for the graph to be
    # a matched one; also give unreceived sends a value (diagnostics only)
    rset: dict[tuple, int] = {}
    for rv in recvs:
        cid = (rv["src"], rv["rank"], rv["tag"])
        rset[cid] = rset.get(cid, 0) + 1
    for cid, lst in by_id.items():
        if len(lst) != 1 or rset.get(cid, 0) != 1:
            raise Malformed(f"send end(s) {cid}: {len(lst)} send(s), "
                            f"{rset.get(cid, 0)} receive(s)")
        if cid[1] == cid[0] or not (0 <= cid[1] < len(dags)):
            raise Malformed(f"self or out-of-range communication {cid}")
    for cid, k in rset.items():
        if k != 1:
            raise Malformed(f"{k} receives for {cid}")
    return outs, msgs


# --------------------------------------------------------------------------
# the partitioning pipeline under the simulated MPI

DOCUMENTED = ("DuplicateSendError", "DuplicateRecvError", "MissingSendError",
              "MissingRecvError", "CycleError", "PartitionInducedCycleError",
              "NotImplementedError")


@dataclasses.dataclass
class Pipeline:
    prog: dict
    dags: list[Any]
    inputs: list[dict[str, np.ndarray]]
    find: list[dict]                  # per rank: {"status", "exc", "msg", "reason", "documented"}
    verify: list[dict]                # (empty dicts if the stage was not reached)
    number: list[dict]
    sym: list[Any]                    # partition with symbolic tags (or None)
    num: list[Any]                    # partition after number_distributed_tags (or None)
    next_tag: list[Any]
    anomalies: list[dict]
    base_tag: int = 42

    @property
    def partitioned(self) -> bool:
        """every rank came out of find_distributed_partition with a partition"""
        return all(s.get("status") == "ok" for s in self.find)

    @property
    def all_ok(self) -> bool:
        return all(s.get("status") == "ok" for st in (self.find, self.verify, self.number)
                   for s in st)

    def stages(self) -> dict[str, list[dict]]:
        return {"find": self.find, "verify": self.verify, "number": self.number}

    def summary(self) -> list[str]:
        out = []
        for r in range(self.prog["nranks"]):
            bits = []
            for nm, st in self.stages().items():
                s = st[r]
                if not s:
                    continue
                if s["status"] == "ok":
                    bits.append(f"{nm}:ok")
                elif s["status"] == "raised":
                    bits.append(f"{nm}:{s['exc']}")
                else:
                    bits.append(f"{nm}:{s['status']}({s['reason']})")
            out.append(" ".join(bits))
        return out


def _stage(world_results: list[Any]) -> list[dict]:
    return [{"status": rr.status, "exc": rr.exc_name,
             "msg": str(rr.exc)[:200] if rr.exc is not None else "",
             "reason": rr.reason, "documented": rr.exc_name in DOCUMENTED}
            for rr in world_results]


def run_pipeline(prog: dict, seed: int = 0, base_tag: int = 42,
                 shuffle_reduce: bool = True) -> Pipeline:
    """find_distributed_partition -> verify_distributed_partition ->
    number_distributed_tags on all ranks.  Each stage runs in its own
    simulated world, so that a rejection by verify (which raises on the root
    only) does not keep the harness from numbering and exporting what
    find_distributed_partition returned."""
    fakempi.install()
    from pytato.distributed.partition import find_distributed_partition
    from pytato.distributed.tags import number_distributed_tags
    from pytato.distributed.verify import verify_distributed_partition
    n = prog["nranks"]
    dags = [build_rank(prog, r)[0] for r in range(n)]
    sym: list[Any] = [None] * n
    num: list[Any] = [None] * n
    nxt: list[Any] = [None] * n
    anomalies: list[dict] = []

    def find(r: int) -> Callable:
        def f(comm: Any) -> None:
            sym[r] = find_distributed_partition(comm, dags[r])
        return f

    def verify(r: int) -> Callable:
        def f(comm: Any) -> None:
            verify_distributed_partition(comm, sym[r])
        return f

    def number(r: int) -> Callable:
        def f(comm: Any) -> None:
            num[r], nxt[r] = number_distributed_tags(comm, sym[r], base_tag=base_tag)
        return f

    def stage(fn: Callable) -> list[dict]:
        world = fakempi.World(n, seed=seed, shuffle_reduce=shuffle_reduce)
        res = _stage(world.run([fn(r) for r in range(n)]))
        anomalies.extend(world.anomalies)
        return res

    st_find = stage(find)
    st_verify: list[dict] = [{} for _ in range(n)]
    st_number: list[dict] = [{} for _ in range(n)]
    if all(s["status"] == "ok" for s in st_find):
        st_verify = stage(verify)
        st_number = stage(number)
    return Pipeline(prog, dags, make_inputs(prog, seed), st_find, st_verify, st_number,
                    sym, num, nxt, anomalies, base_tag)


# --------------------------------------------------------------------------
# values as small integers

class ValueTable:
    """Array contents -> small integer ids (0 is reserved for 'poison' in
    the specification; unknown values get ids >= 1000 derived from a digest,
    so that the id does not depend on the order of discovery)."""

    def __init__(self) -> None:
        self.ids: dict[tuple, int] = {}

    @staticmethod
    def key(a: Any) -> tuple:
        a = np.asarray(a)
        return (a.dtype.str, tuple(a.shape), a.tobytes())

    def add(self, a: Any) -> int:
        k = self.key(a)
        if k not in self.ids:
            self.ids[k] = len(self.ids) + 1
        return self.ids[k]

    def of(self, a: Any) -> int:
        k = self.key(a)
        if k in self.ids:
            return self.ids[k]
        import zlib
        return 1000 + zlib.crc32(repr(k).encode()) % 1000000


# --------------------------------------------------------------------------
# export of the partitions of all ranks (use E / constants of use M)

def part_names_read(expr: Any) -> tuple[list[str], int]:
    """Names of the placeholders an expression reads, and the number of
    communication nodes inside it (reflective walk)."""
    import pytato as pt
    from pytato.distributed.nodes import DistributedRecv, DistributedSendRefHolder
    names, ncomm = set(), 0
    for x in walk(expr):
        if isinstance(x, pt.Placeholder):
            names.add(x.name)
        if isinstance(x, (DistributedRecv, DistributedSendRefHolder)):
            ncomm += 1
    return sorted(names), ncomm


def _tagtok(tokens: dict[Any, str], tag: Any) -> str:
    try:
        return tokens.get(tag) or ("?" + repr(tag))
    except TypeError:
        return "?" + repr(tag)


def _inttag(t: Any) -> int:
    return int(t) if isinstance(t, (int, np.integer)) and not isinstance(t, bool) else -1


def export_rank_struct(prog: dict, r: int, dag: Any, ps: Any, pn: Any, next_tag: Any,
                       userin: list[str]) -> tuple[dict, dict[str, tuple]]:
    """Structure of one rank's partition (no values): -> (record, {received
    name: (src, dst, symbolic tag object)}).  ps / pn: the partition before /
    after number_distributed_tags (matched positionally)."""
    tokens = sym_tags_of(prog)
    pids = list(pn.parts)
    pidx = {pid: i for i, pid in enumerate(pids)}
    parts, posted = [], []
    recv_sym: dict[str, tuple] = {}
    if list(ps.parts) != pids:
        raise MachineryError("numbering changed the part ids")
    for pid in pids:
        part, spart = pn.parts[pid], ps.parts[pid]
        if part.pid != pid:
            raise MachineryError("pid differs from key")
        recvs, sends = [], []
        if list(part.name_to_recv_node) != list(spart.name_to_recv_node) or \
                list(part.name_to_send_nodes) != list(spart.name_to_send_nodes):
            raise MachineryError("numbering changed the names of a part")
        for nm, rv in part.name_to_recv_node.items():
            srv = spart.name_to_recv_node[nm]
            recvs.append({"name": nm, "src": int(rv.src_rank), "tag": _inttag(rv.comm_tag),
                          "sym": _tagtok(tokens, srv.comm_tag),
                          "shape": [int(d) for d in rv.shape], "dtype": rv.dtype.str})
            recv_sym[nm] = (int(rv.src_rank), r, srv.comm_tag)
            posted.append(recvs[-1])
        for nm, sns in part.name_to_send_nodes.items():
            ssns = spart.name_to_send_nodes[nm]
            for sn, ssn in zip(sns, ssns, strict=True):
                reads, ncomm = part_names_read(sn.data)
                sends.append({"name": nm, "dst": int(sn.dest_rank), "tag": _inttag(sn.comm_tag),
                              "sym": _tagtok(tokens, ssn.comm_tag),
                              "reads": reads, "ncomm": ncomm,
                              "same": bool(sn.data == pn.name_to_output.get(nm)),
                              "shape": [int(d) for d in sn.data.shape],
                              "dtype": sn.data.dtype.str})
        exprs = {}
        for nm in sorted(part.output_names):
            if nm in pn.name_to_output:
                reads, ncomm = part_names_read(pn.name_to_output[nm])
                exprs[nm] = {"reads": reads, "ncomm": ncomm}
        parts.append({
            "pid": pidx[pid], "needed": sorted(pidx[q] if q in pidx else -1
                                               for q in part.needed_pids),
            "user_in": sorted(part.user_input_names),
            "part_in": sorted(part.partition_input_names),
            "ins": sorted(part.all_input_names()),
            "outs": sorted(part.output_names),
            "recvs": recvs, "sends": sends, "exprs": exprs})
    # which stored expressions can be evaluated from defined names (structural)
    defined = set(userin) | set(recv_sym)
    reads_of = {nm: part_names_read(e)[0] for nm, e in pn.name_to_output.items()}
    todo = set(reads_of)
    progress = True
    while todo and progress:
        progress = False
        for nm in sorted(todo):
            if set(reads_of[nm]) <= defined:
                defined.add(nm)
                todo.discard(nm)
                progress = True
    rec = {"rank": r, "parts": parts, "posted": posted, "userin": list(userin),
           "overall": list(pn.overall_output_names), "outnames": list(dag),
           "known": sorted(pn.name_to_output), "exp": {}, "gout": {},
           "undefined": sorted(todo), "next_tag": _inttag(next_tag)}
    return rec, recv_sym


def export_instance(pl: Pipeline, vt: ValueTable | None = None) -> dict:
    """The partitions of all ranks as one JSON-able record (small ints and
    strings only) + the expected values (ids) of every name: what the
    unpartitioned global graph assigns to received names and overall outputs,
    and what each part expression gives in that context."""
    prog = pl.prog
    vt = vt or ValueTable()
    try:
        gouts, gmsgs = global_reference(pl.dags, pl.inputs)
        gerr = ""
    except Malformed as ex:
        gouts, gmsgs, gerr = None, {}, str(ex)
    inst: dict[str, Any] = {"id": prog["id"], "n": prog["nranks"], "ranks": [],
                            "global_ok": gouts is not None, "global_err": gerr,
                            "ends": comm_skeleton(pl, prog), "base_tag": pl.base_tag,
                            "verify": [("ok" if s.get("status") == "ok" else
                                        (s.get("exc") or s.get("status", "?")))
                                       for s in pl.verify]}
    for r in range(prog["nranks"]):
        ps, pn = pl.sym[r], pl.num[r]
        if pn is None:
            raise MachineryError("export_instance needs a partition on every rank")
        userin = sorted(pl.inputs[r])
        for nm in userin:
            vt.add(pl.inputs[r][nm])
        rec, recv_sym = export_rank_struct(prog, r, pl.dags[r], ps, pn, pl.next_tag[r], userin)
        # expected values
        env: dict[str, np.ndarray] = dict(pl.inputs[r])
        for nm, cid in recv_sym.items():
            if cid in gmsgs:
                env[nm] = gmsgs[cid]
        todo = [nm for nm in pn.name_to_output]
        progress = True
        outvals: dict[str, np.ndarray] = {}
        while todo and progress:
            progress = False
            for nm in list(todo):
                try:
                    v = ref_eval({nm: pn.name_to_output[nm]}, {**env, **outvals})[nm]
                except KeyError:
                    continue
                outvals[nm] = v
                todo.remove(nm)
                progress = True
        rec["exp"] = {nm: vt.add(v) for nm, v in {**env, **outvals}.items()}
        if gouts is not None:
            rec["gout"] = {nm: vt.add(v) for nm, v in gouts[r].items()}
        inst["ranks"].append(rec)
    inst["values"] = len(vt.ids)
    return inst


def comm_skeleton(pl_or_dags: Any, prog: dict) -> dict:
    """The communication structure found in the REAL DAGs (reflective walk),
    as data for DistComm!WellFormedInput: send ends, receive ends,
    dependencies of sends on receives of the same rank."""
    dags = pl_or_dags.dags if isinstance(pl_or_dags, Pipeline) else pl_or_dags
    tokens = sym_tags_of(prog)
    sends, recvs = comm_ends(dags)
    return {"n": prog["nranks"],
            "sends": [{"rank": s["rank"], "dst": s["dst"], "sym": _tagtok(tokens, s["tag"]),
                       "deps": s["deps"]} for s in sends],
            "recvs": [{"rank": v["rank"], "src": v["src"], "sym": _tagtok(tokens, v["tag"])}
                      for v in recvs]}


# --------------------------------------------------------------------------
# running the real executor under the controlled scheduler

class _TraceCtx(dict):
    """The executor's ``context``: every read / write / delete is logged."""

    def __init__(self, data: dict, hx: "ExecHarness", rank: int):
        super().__init__(data)
        self._hx, self._rank = hx, rank

    def __getitem__(self, k: str) -> Any:
        self._hx.raw(self._rank, {"ev": "ctx_get", "name": k, "hit": dict.__contains__(self, k)})
        return dict.__getitem__(self, k)

    def __setitem__(self, k: str, v: Any) -> None:
        self._hx.raw(self._rank, {"ev": "ctx_set", "name": k, "obj": v})
        dict.__setitem__(self, k, v)

    def __delitem__(self, k: str) -> None:
        self._hx.raw(self._rank, {"ev": "ctx_del", "name": k, "hit": dict.__contains__(self, k)})
        dict.__delitem__(self, k)

    def update(self, other: Any = (), **kw: Any) -> None:     # type: ignore[override]
        d = dict(other, **kw)
        for k, v in d.items():
            self._hx.raw(self._rank, {"ev": "ctx_set", "name": k, "obj": v})
        dict.update(self, d)


class _TraceInput(dict):
    def __init__(self, data: dict, hx: "ExecHarness", rank: int):
        super().__init__(data)
        self._hx, self._rank = hx, rank

    def copy(self) -> dict:          # type: ignore[override]
        ctx = _TraceCtx(dict(self), self._hx, self._rank)
        self._hx.ctx[self._rank] = ctx
        self._hx.raw(self._rank, {"ev": "ctx_copy", "names": sorted(self)})
        return ctx


def _patch_to_device() -> None:
    import pyopencl.array as cla
    if not getattr(cla.to_device, "_ptverif", False):
        def to_device(queue: Any, ary: Any, allocator: Any = None, **kw: Any) -> Any:
            return ary
        to_device._ptverif = True        # type: ignore[attr-defined]
        cla.to_device = to_device


@dataclasses.dataclass
class ExecResult:
    status: list[dict]
    outputs: list[dict[str, np.ndarray] | None]
    events: list[dict]
    choices: list[int]
    widths: list[int]
    states: list[str]
    edges: list[tuple[str, str, str]]
    stuck: bool
    pruned: bool
    anomalies: list[dict]
    nsteps: int
    leftovers: list[dict] = dataclasses.field(default_factory=list)
    kernel_issues: list[dict] = dataclasses.field(default_factory=list)


def _differs(got: np.ndarray, ref: np.ndarray) -> str | None:
    """Exact for integers; floating point within the tolerance of
    ptverif.runprog.compare."""
    from .runprog import compare
    got, ref = np.asarray(got), np.asarray(ref)
    if got.dtype != ref.dtype:
        return f"dtype {got.dtype} vs {ref.dtype}"
    scale = float(np.max(np.abs(ref))) if ref.size and ref.dtype.kind == "f" else 0.0
    return compare(got, ref, ref.dtype, scale)


class ExecHarness:
    """One run of execute_distributed_partition on all ranks."""

    def __init__(self, pl: Pipeline, inst: dict, vt: ValueTable, chooser: Any,
                 grain: str = "model", visited: set | None = None,
                 replay_len: int = 0, record_states: bool = False,
                 parts_override: list[Any] | None = None,
                 programs: list[dict] | None = None):
        self.pl, self.inst, self.vt = pl, inst, vt
        self.n = pl.prog["nranks"]
        self.grain = grain
        self.visited, self.replay_len, self.record_states = visited, replay_len, record_states
        self.ctx: list[dict | None] = [None] * self.n
        self.executed: list[set] = [set() for _ in range(self.n)]
        self.rdone: list[set] = [set() for _ in range(self.n)]
        self.cur: list[Any] = [None] * self.n         # (kind, detail) of the running step
        self.grp: list[Any] = [None] * self.n         # the event group under construction
        self.rawlog: list[list[dict]] = [[] for _ in range(self.n)]
        self.exec_begun: list[set] = [set() for _ in range(self.n)]
        self.events: list[dict] = []
        self.states: list[str] = []
        self.edges: list[tuple[str, str, str]] = []
        self._last_state: str | None = None
        self._last_label: str | None = None
        self.nchoice = 0
        self.world = fakempi.World(self.n, chooser=chooser, grain=grain, observer=self)
        self.partitions = parts_override or pl.num
        self.pid_index = [{pid: i for i, pid in enumerate(p.parts)} for p in self.partitions]
        self.outputs: list[dict | None] = [None] * self.n
        # programs[r][pid](**inputs) -> {name: ndarray}: REAL generated code for
        # the parts (else the reference evaluator runs them)
        self.programs = programs
        self.kernel_issues: list[dict] = []

    # -- hooks called from the rank threads --------------------------------
    def raw(self, rank: int, ev: dict) -> None:
        self.rawlog[rank].append(ev)

    def _traced_partition(self, r: int) -> Any:
        import sys as _sys

        from pytato.distributed.partition import DistributedGraphPartition
        p = self.partitions[r]
        hx = self

        def traced(part: Any) -> Any:
            base = type(part)

            class TracedPart(base):           # type: ignore[misc, valid-type]
                def all_input_names(self) -> frozenset:
                    caller = _sys._getframe(1).f_code.co_name
                    if caller == "exec_ready_part":
                        hx.begin_exec(r, self.pid)
                    return base.all_input_names(self)
            return TracedPart(**{f.name: getattr(part, f.name)
                                 for f in dataclasses.fields(part)})
        return DistributedGraphPartition(
            parts={pid: traced(part) for pid, part in p.parts.items()},
            name_to_output=p.name_to_output,
            overall_output_names=p.overall_output_names)

    def begin_exec(self, r: int, pid: Any) -> None:
        if pid in self.exec_begun[r]:
            return
        self.exec_begun[r].add(pid)
        self.world.yield_point(r, {"k": "exec", "pid": self.pid_index[r].get(pid, -1)})

    def _program(self, r: int, pid: Any) -> Callable:
        p = self.partitions[r]
        part = p.parts[pid]

        def prg(queue: Any, allocator: Any = None, **kw: Any) -> tuple[Any, dict]:
            self.begin_exec(r, pid)            # fallback if the hook did not fire
            self.raw(r, {"ev": "prg_call", "pid": self.pid_index[r][pid],
                         "ins": dict(kw)})
            ref = ref_eval({nm: p.name_to_output[nm] for nm in part.output_names}, kw)
            res = ref
            if self.programs is not None:
                bound = self.programs[r][pid]
                got = bound(**{k: np.asarray(v) for k, v in kw.items()})
                lifted = set(getattr(bound, "lifted", ()) or ())
                extra = set(got) - set(part.output_names) - lifted
                missing = set(part.output_names) - set(got)
                if extra or missing:
                    self.kernel_issues.append({
                        "rank": r, "pid": self.pid_index[r][pid], "what": "result_names",
                        "extra": sorted(extra), "missing": sorted(missing)})
                res = {nm: np.asarray(got[nm]) for nm in part.output_names if nm in got}
                for nm in res:
                    why = _differs(res[nm], ref[nm])
                    if why and len(self.kernel_issues) < 20:
                        self.kernel_issues.append({
                            "rank": r, "pid": self.pid_index[r][pid], "what": "kernel_vs_reference",
                            "name": nm, "why": why})
            self.raw(r, {"ev": "prg_ret", "pid": self.pid_index[r][pid], "outs": dict(res)})
            return None, res
        return prg

    def _rank_fn(self, r: int) -> Callable:
        from pytato.distributed.execute import execute_distributed_partition

        def f(comm: Any) -> dict:
            part = self._traced_partition(r)
            prgs = {pid: self._program(r, pid) for pid in part.parts}
            out = execute_distributed_partition(
                part, prgs, None, comm,
                input_args=_TraceInput(self.pl.inputs[r], self, r))
            self.outputs[r] = out
            return out
        return f

    # -- abstract state ------------------------------------------------------
    def pc(self, r: int) -> str:
        st, res = self.world.rs[r], self.world.results[r]
        if st.finished:
            if res.status == "ok":
                return "done"
            if res.status == "raised":
                return "spinning" if isinstance(res.exc, fakempi.SpinDetected) else "crashed"
            return res.status
        k = (st.op or {}).get("k")
        return {"start": "post", "exec": "exec", "waitsome": "wait", "drain": "drain",
                "wait": "drain"}.get(k, str(k))

    def local_state(self, r: int) -> dict:
        ctx = self.ctx[r]
        return {"pc": self.pc(r),
                "ctx": {k: self.vt.of(v) for k, v in sorted(dict.items(ctx))} if ctx else {},
                "executed": sorted(self.executed[r]),
                "rdone": sorted(self.rdone[r]),
                "pending": [q.idx for q in self.world.pending(r)]}

    def net_state(self) -> list:
        return [[s, d, [[m.tag, self.vt.of(m.data)] for m in msgs]]
                for (s, d), msgs in sorted(self.world.net.items()) if msgs]

    def global_state(self) -> str:
        return json.dumps({"ranks": [self.local_state(r) for r in range(self.n)],
                           "net": self.net_state()}, sort_keys=True)

    # -- observer interface ----------------------------------------------------
    def at_state(self, world: Any, trans: list) -> None:
        if self.grain != "model" or not (self.record_states or self.visited is not None):
            return
        s = self.global_state()
        if self._last_state is not None:
            self.edges.append((self._last_state, self._last_label or "", s))
        self._last_state = s
        if self.record_states:
            self.states.append(s)
        if self.visited is not None:
            if self.nchoice >= self.replay_len:
                if s in self.visited:
                    raise fakempi.StopRun()
                self.visited.add(s)
        self.nchoice += 1

    def before_step(self, world: Any, t: tuple) -> None:
        """Steps between two yield points are grouped into one event per
        DistExec action: in fine grain the yields at Irecv / Isend / Wait
        continue the group that the last model-level yield (thread start,
        begin of a part, Waitsome, first Wait) of that rank opened."""
        r = t[0]
        lab = world.describe(t)
        self._last_label = json.dumps(lab, sort_keys=True)
        k = lab["k"]
        g = self.grp[r]
        cont = g is not None and (k in ("irecv", "isend")
                                  or (k == "wait" and g["lab"]["k"] == "drain"))
        if not cont:
            if k == "wait":
                lab = dict(lab, k="drain")
            g = self.grp[r] = {"lab": lab, "raw": [], "mpi": [], "ev": None}
            self.rawlog[r] = g["raw"]
        self.cur[r] = g["lab"]
        self._mark = len(world.trace)

    def after_step(self, world: Any, r: int) -> None:
        g = self.grp[r]
        lab = g["lab"]
        raw = g["raw"]
        g["mpi"] += [e for e in world.trace[self._mark:] if e.get("rank") == r]
        mpi = g["mpi"]
        k = lab["k"]
        ev: dict[str, Any] = {"rank": r, "ev": {"start": "post", "waitsome": "waitsome",
                                               "exec": "exec", "drain": "drain",
                                               "spin": "spin"}.get(k, k)}
        crashed = world.rs[r].finished and world.results[r].status == "raised"
        if k == "exec":
            ev["pid"] = lab["pid"]
            if not crashed:
                self.executed[r].add(lab["pid"])
            ins = [e for e in raw if e["ev"] == "prg_call"]
            outs = [e for e in raw if e["ev"] == "prg_ret"]
            ev["ins"] = {nm: self.vt.of(v) for nm, v in sorted(ins[0]["ins"].items())} \
                if ins else {}
            ev["outs"] = {nm: self.vt.of(v) for nm, v in sorted(outs[0]["outs"].items())} \
                if outs else {}
            ev["dels"] = [e["name"] for e in raw if e["ev"] == "ctx_del"]
        if k == "start":
            ev["posted"] = [[e["src"], e["tag"] if isinstance(e["tag"], int) else -1,
                             e["shape"], e["dtype"]] for e in mpi if e["ev"] == "irecv"]
        if k == "waitsome":
            ev["idx"] = lab["idx"]
            sets = [e for e in raw if e["ev"] == "ctx_set"]
            ev["vals"] = {e["name"]: self.vt.of(e["obj"]) for e in sets}
            # which buffer went under which name (observed, not assumed)
            ev["bufs"] = sorted(
                [e["name"], next((q.idx for q in world.posted[r] if q.buf is e["obj"]), -1)]
                for e in sets)
            if not crashed:
                self.rdone[r] |= {e["name"] for e in sets}
        ev["sends"] = [[e["dst"], e["tag"] if isinstance(e["tag"], int) else -1,
                        self.vt.of(e["data"])] for e in mpi if e["ev"] == "isend"]
        ev["gets"] = sorted({e["name"] for e in raw if e["ev"] == "ctx_get"})
        ev["missing"] = sorted({e["name"] for e in raw
                                if e["ev"] in ("ctx_get", "ctx_del") and not e["hit"]})
        if world.rs[r].finished:
            res = world.results[r]
            if res.status == "ok":
                ev["ret"] = {nm: self.vt.of(v) for nm, v in sorted(res.value.items())}
            elif res.status == "raised":
                ev["exc"] = res.exc_name
                ev["excmsg"] = str(res.exc)[:120]
        ev["after"] = self.local_state(r)
        if self.grain == "model":
            ev["net"] = self.net_state()
        if g["ev"] is None:
            g["ev"] = ev
            self.events.append(ev)
        else:
            # a continued group keeps its place (the model's atomic action is
            # taken where the group began: its sends only become visible later
            # in reality) -- except the drain group, whose guard (every send
            # matched) is only known to hold when its last Wait returned
            g["ev"].clear()
            g["ev"].update(ev)
            if k == "drain":
                i = next(i for i, e in enumerate(self.events) if e is g["ev"])
                self.events.append(self.events.pop(i))

    # -- driver ---------------------------------------------------------------
    def run(self) -> ExecResult:
        fakempi.install()
        _patch_to_device()
        res = self.world.run([self._rank_fn(r) for r in range(self.n)])
        status = [{"status": rr.status, "exc": rr.exc_name,
                   "msg": str(rr.exc)[:200] if rr.exc is not None else "",
                   "reason": rr.reason, "at": rr.at} for rr in res]
        ch = self.world.chooser
        left = []
        if not self.world.pruned:
            for r, rr in enumerate(res):
                if rr.status == "ok" and self.world.pending(r):
                    left.append({"what": "request_left_pending", "rank": r,
                                 "requests": [[q.src, q.tag] for q in self.world.pending(r)]})
            if all(rr.status == "ok" for rr in res):
                for (src, dst), msgs in sorted(self.world.net.items()):
                    if msgs:
                        left.append({"what": "message_never_received", "src": src, "dst": dst,
                                     "tags": [m.tag for m in msgs]})
        return ExecResult(status, self.outputs, self.events,
                          list(getattr(ch, "taken", [])), list(getattr(ch, "widths", [])),
                          self.states, self.edges, self.world.stuck, self.world.pruned,
                          self.world.anomalies, self.world.nsteps, left,
                          list(self.kernel_issues))


def reexecute(pl: Pipeline, times: int = 3, seed: int = 0) -> list[dict]:
    """TIME STEPPING: every rank executes THE SAME DistributedGraphPartition object *times*
    times in a row, NOT synchronised with the other ranks, under a random schedule.  Whatever the
    executor memoises on the partition object must not be consumed by an execution: every
    step ends normally and returns what the first step returned.  -> problems"""
    import random
    fakempi.install()
    _patch_to_device()
    n = pl.prog["nranks"]
    rnd = random.Random(seed)

    class RandomChooser:
        def pick(self, world: Any, trans: list) -> int:
            return rnd.randrange(len(trans))
    world = fakempi.World(n, chooser=RandomChooser(), grain="model")
    steps: list[list[Any]] = [[None] * times for _ in range(n)]

    def rank_fn(r: int) -> Callable:
        from pytato.distributed.execute import execute_distributed_partition
        part = pl.num[r]

        def prog(pid: Any) -> Callable:
            def prg(queue: Any, allocator: Any = None, **kw: Any) -> tuple[Any, dict]:
                return None, ref_eval({nm: part.name_to_output[nm]
                                       for nm in part.parts[pid].output_names}, kw)
            return prg

        def f(comm: Any) -> dict:
            prgs = {pid: prog(pid) for pid in part.parts}
            for k in range(times):
                steps[r][k] = execute_distributed_partition(
                    part, prgs, None, comm, input_args=dict(pl.inputs[r]))
                # NO barrier between the steps: DistExecEpochs shows (all schedules of two
                # unsynchronised consecutive executions) that none is needed; a fast rank
                # may be a whole step ahead
            return steps[r][-1]
        return f
    res = world.run([rank_fn(r) for r in range(n)])
    problems = []
    for r, rr in enumerate(res):
        done = sum(1 for x in steps[r] if x is not None)
        if rr.status != "ok":
            problems.append({"clause": "reexecution_failed", "rank": r, "step": done + 1,
                             "what": f"rank {r}: execution {done + 1} of the same partition "
                                     f"object ended with {rr.status} "
                                     f"{rr.exc_name or rr.reason or ''}: "
                                     f"{str(rr.exc)[:120] if rr.exc is not None else ''}"})
            continue
        for k in range(1, times):
            a, b = steps[r][0], steps[r][k]
            if sorted(a) != sorted(b) or any(_differs(np.asarray(b[nm]), np.asarray(a[nm]))
                                             for nm in a):
                problems.append({"clause": "reexecution_differs", "rank": r, "step": k + 1,
                                 "what": f"rank {r}: execution {k + 1} of the same partition "
                                         f"object returns something else than the first"})
                break
    return problems


def run_once(pl: Pipeline, inst: dict, vt: ValueTable, chooser: Any, **kw: Any) -> ExecResult:
    ch = chooser if isinstance(chooser, fakempi.ReplayChooser) else \
        fakempi.ReplayChooser([], then=chooser)
    return ExecHarness(pl, inst, vt, ch, **kw).run()


def explore_all(pl: Pipeline, inst: dict, vt: ValueTable, max_runs: int = 20000,
                on_run: Callable[[ExecResult], None] | None = None) -> dict:
    """Every schedule of the real executor: depth-first search over the
    scheduler's choice points, re-executing from the start for every branch,
    pruning on already visited abstract global states."""
    visited: set[str] = set()
    edges: set[tuple[str, str, str]] = set()
    terminal: set[str] = set()
    stack: list[list[int]] = [[]]
    runs = 0
    complete = True
    while stack:
        if runs >= max_runs:
            complete = False
            break
        prefix = stack.pop()
        ch = fakempi.ReplayChooser(prefix)
        hx = ExecHarness(pl, inst, vt, ch, visited=visited, replay_len=len(prefix),
                         record_states=False)
        res = hx.run()
        runs += 1
        edges.update(res.edges)
        for k in range(len(prefix), len(ch.taken)):
            for alt in range(1, ch.widths[k]):
                if ch.taken[k] == 0:
                    stack.append(ch.taken[:k] + [alt])
        if not res.pruned and hx._last_state is not None:
            terminal.add(hx._last_state)
        if on_run is not None:
            on_run(res)
    return {"states": visited, "edges": edges, "terminal": terminal, "runs": runs,
            "complete": complete}
