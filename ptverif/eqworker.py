"""Worker process of ptverif.procpool: reads JSON-line requests on stdin and
answers on the original stdout; everything the libraries print goes to stderr.
"""
from __future__ import annotations

import json
import os
import sys
import traceback
import warnings


def main() -> None:
    out = os.fdopen(os.dup(1), "w", buffering=1)
    os.dup2(2, 1)                  # library prints cannot corrupt the protocol
    sys.stdout = sys.stderr
    warnings.simplefilter("ignore")
    # the parent's scratch directory is removed by the parent
    sc = os.environ.get("VERIF_SCRATCH_DIR")
    if sc:
        import tempfile
        tempfile.tempdir = os.path.join(sc, "tmp")
    repo = os.environ.get("PTVERIF_REPO", "/repo")
    if repo not in sys.path:
        sys.path.insert(0, repo)
    handlers = {}
    for line in sys.stdin:
        line = line.strip()
        if not line:
            continue
        try:
            req = json.loads(line)
            cmd = req.pop("cmd")
            if cmd == "hello":
                import pytato
                rep = {"hashseed": os.environ.get("PYTHONHASHSEED"),
                       "pytato": os.path.dirname(os.path.dirname(pytato.__file__)),
                       "pid": os.getpid()}
            else:
                if cmd not in handlers:
                    mod, _, fn = cmd.partition(".")
                    import importlib
                    m = importlib.import_module("ptverif." + mod)
                    handlers[cmd] = m.HANDLERS[fn]
                rep = handlers[cmd](**req)
            out.write(json.dumps({"ok": rep}) + "\n")
        except BaseException as ex:      # noqa: BLE001
            if isinstance(ex, (KeyboardInterrupt, SystemExit)):
                raise
            out.write(json.dumps({"error": f"{type(ex).__name__}: {ex}\n"
                                           + traceback.format_exc()[-3000:]}) + "\n")
        out.flush()


if __name__ == "__main__":
    main()
