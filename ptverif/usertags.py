"""User-defined tags used by the harness (importable, hence picklable)."""
from __future__ import annotations

from dataclasses import dataclass

from pytools.tag import Tag, UniqueTag


@dataclass(frozen=True)
class FooTag(Tag):
    pass


@dataclass(frozen=True)
class BarTag(Tag):
    pass


@dataclass(frozen=True)
class BazTag(Tag):
    n: int = 0


@dataclass(frozen=True)
class UTag(UniqueTag):
    n: int = 0


def make(spec):
    """spec: "Foo" | "Bar" | "Baz:3" | "U:1" | "ImplStored" | "ImplInlined" |
    "ImplSubstitution" | "Named:x" | "PrefixNamed:y" """
    name, _, arg = spec.partition(":")
    if name == "Foo":
        return FooTag()
    if name == "Bar":
        return BarTag()
    if name == "Baz":
        return BazTag(int(arg or 0))
    if name == "U":
        return UTag(int(arg or 0))
    import pytato.tags as t
    if name in ("ImplStored", "ImplInlined", "ImplSubstitution"):
        return getattr(t, name)()
    if name == "Named":
        return t.Named(arg)
    if name == "PrefixNamed":
        return t.PrefixNamed(arg)
    raise ValueError(spec)
