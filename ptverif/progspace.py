"""Enumerations of the program space (single operations with their whole
bounded parameter scope, used by C02/C03/C14/C11) and random multi-operation
programs (C01/C05/C07/C14...)."""
from __future__ import annotations

import itertools
from typing import Any, Iterator

import numpy as np

OPT = lambda v: [] if v is None else [v]   # noqa: E731


def inp(name: str, shape: tuple | list, dtype: str = "f8", **kw: Any) -> dict:
    return {"name": name, "shape": list(shape), "dtype": dtype, "kind": "ph", **kw}


def single(inputs: list[dict], call: dict, pid: str) -> dict:
    return {"id": pid, "inputs": inputs, "calls": [call],
            "outs": {"out": len(inputs) + 1}}


def all_shapes(max_ndim: int, lens: tuple[int, ...]) -> list[tuple[int, ...]]:
    out: list[tuple[int, ...]] = []
    for nd in range(max_ndim + 1):
        out += list(itertools.product(lens, repeat=nd))
    return out


# --------------------------------------------------------------------------
# C02 families

def slices_1d(n: int, bound: int = 7, steps: tuple = (None, 1, -1, 2, -2, 3, -3)
              ) -> Iterator[dict]:
    vals = [None, *range(-bound, bound + 1)]
    for start in vals:
        for stop in vals:
            for step in steps:
                yield {"t": "slice", "start": OPT(start), "stop": OPT(stop),
                       "step": OPT(step)}


def fam_basic_1d(lens: tuple[int, ...] = (0, 1, 2, 3, 4, 5)) -> Iterator[dict]:
    for n in lens:
        x = inp("x", (n,))
        for i in range(-n, n):
            yield single([x], {"op": "index", "a": 1, "idx": [{"t": "int", "v": i}]},
                         f"bi1/n{n}/int{i}")
        for it in slices_1d(n):
            s = f"{it['start']}:{it['stop']}:{it['step']}".replace(" ", "")
            yield single([x], {"op": "index", "a": 1, "idx": [it]}, f"bi1/n{n}/{s}")


def _reduced_items(n: int) -> list[dict]:
    """A reduced but adversarial set of index items for an axis of length n."""
    items: list[dict] = []
    for i in sorted({-n, -1, 0, n - 1} & set(range(-n, n))):
        items.append({"t": "int", "v": i})
    for start, stop, step in [(None, None, None), (None, None, -1), (1, None, None),
                              (None, -1, None), (n + 2, None, -1), (None, None, 2),
                              (-1, 0, -2), (n, -n - 3, -1), (1, 1, 1), (-2, None, 3)]:
        items.append({"t": "slice", "start": OPT(start), "stop": OPT(stop),
                      "step": OPT(step)})
    return items


def fam_basic_nd(shapes: list[tuple[int, ...]]) -> Iterator[dict]:
    for shape in shapes:
        x = inp("x", shape)
        per_axis = [_reduced_items(n) for n in shape]
        # fewer items than axes is allowed (trailing full slices)
        for k in range(1, len(shape) + 1):
            for combo in itertools.product(*per_axis[:k]):
                tag = ",".join(
                    str(c["v"]) if c["t"] == "int" else
                    f"{c['start']}:{c['stop']}:{c['step']}" for c in combo).replace(" ", "")
                yield single([x], {"op": "index", "a": 1, "idx": list(combo)},
                             f"bin/{'x'.join(map(str, shape))}/{tag}")


def fam_reshape(max_ndim: int, lens: tuple[int, ...], max_new_ndim: int | None = None
                ) -> Iterator[dict]:
    shapes = all_shapes(max_ndim, lens)
    new_shapes = all_shapes(max_new_ndim or max_ndim, lens)
    by_size: dict[int, list] = {}
    for s in new_shapes:
        by_size.setdefault(int(np.prod(s, dtype=np.int64)), []).append(s)
    for old in shapes:
        size = int(np.prod(old, dtype=np.int64))
        for new in by_size.get(size, []):
            for order in "CF":
                yield single([inp("x", old)],
                             {"op": "reshape", "a": 1, "newshape": list(new),
                              "order": order},
                             f"rs/{'x'.join(map(str, old)) or 's'}->"
                             f"{'x'.join(map(str, new)) or 's'}/{order}")
        # one -1 entry
        if size > 0 and len(old) >= 1:
            for new in by_size.get(size, [])[:6]:
                for pos in range(len(new)):
                    ns = list(new)
                    ns[pos] = -1
                    yield single([inp("x", old)],
                                 {"op": "reshape", "a": 1, "newshape": ns, "order": "C"},
                                 f"rs/{'x'.join(map(str, old))}->"
                                 f"{'x'.join(map(str, ns))}/C")


def fam_roll(shapes: list[tuple[int, ...]]) -> Iterator[dict]:
    for shape in shapes:
        for ax, n in enumerate(shape):
            for shift in range(-2 * n - 1, 2 * n + 2):
                yield single([inp("x", shape)],
                             {"op": "roll", "a": 1, "shift": shift, "axis": ax},
                             f"roll/{'x'.join(map(str, shape))}/ax{ax}/s{shift}")


def fam_transpose(shapes: list[tuple[int, ...]]) -> Iterator[dict]:
    for shape in shapes:
        for perm in itertools.permutations(range(len(shape))):
            yield single([inp("x", shape)],
                         {"op": "transpose", "a": 1, "axes": list(perm)},
                         f"tr/{'x'.join(map(str, shape)) or 's'}/{''.join(map(str, perm))}")


def fam_stack_concat(shapes: list[tuple[int, ...]]) -> Iterator[dict]:
    for shape in shapes:
        for k in (1, 2, 3):
            ins = [inp(f"x{j}", shape) for j in range(k)]
            for ax in range(len(shape) + 1):
                yield {"id": f"stack/{'x'.join(map(str, shape)) or 's'}/k{k}/ax{ax}",
                       "inputs": ins,
                       "calls": [{"op": "stack", "arrays": list(range(1, k + 1)), "axis": ax}],
                       "outs": {"out": k + 1}}
            for ax in range(len(shape)):
                # operands of different extent along the axis
                exts = [(shape[ax] + j) % 4 for j in range(k)]
                ins2 = [inp(f"x{j}", shape[:ax] + (exts[j],) + shape[ax + 1:])
                        for j in range(k)]
                yield {"id": f"concat/{'x'.join(map(str, shape))}/k{k}/ax{ax}",
                       "inputs": ins2,
                       "calls": [{"op": "concatenate", "arrays": list(range(1, k + 1)),
                                  "axis": ax}],
                       "outs": {"out": k + 1}}


def fam_advanced(rng: np.random.Generator, shapes: list[tuple[int, ...]],
                 per_shape: int) -> Iterator[dict]:
    """Advanced indexing: 1..3 index arrays of broadcastable shapes, ints and
    slices mixed in, contiguous and non-contiguous, negative entries."""
    ishapes = [(), (1,), (2,), (3,), (2, 1), (1, 3), (2, 3)]
    for shape in shapes:
        if len(shape) == 0 or 0 in shape:
            continue
        seen = set()
        tries = 0
        while len(seen) < per_shape and tries < per_shape * 20:
            tries += 1
            kinds = [rng.choice(["arr", "arr", "int", "slice"]) for _ in shape]
            # drop trailing items sometimes
            k = int(rng.integers(1, len(shape) + 1))
            kinds = kinds[:k]
            if "arr" not in kinds:
                continue
            base = ishapes[int(rng.integers(len(ishapes)))]
            inputs = [inp("x", shape)]
            items = []
            for ax, kd in enumerate(kinds):
                n = shape[ax]
                if kd == "arr":
                    # a shape broadcastable with base
                    sh = tuple(d if rng.random() < 0.7 else 1 for d in base)
                    sh = sh[int(rng.integers(0, len(sh) + 1)):] if sh else sh
                    nm = f"i{len(inputs)}"
                    inputs.append(inp(nm, sh, "i8" if rng.random() < 0.7 else "i4",
                                      range=[-n, n - 1]))
                    items.append({"t": "arr", "n": len(inputs)})
                elif kd == "int":
                    items.append({"t": "int", "v": int(rng.integers(-n, n))})
                else:
                    its = _reduced_items(n)
                    its = [i for i in its if i["t"] == "slice"]
                    items.append(its[int(rng.integers(len(its)))])
            key = repr((kinds, items, [i["shape"] for i in inputs]))
            if key in seen:
                continue
            seen.add(key)
            yield {"id": f"adv/{'x'.join(map(str, shape))}/{len(seen)}",
                   "inputs": inputs,
                   "calls": [{"op": "index", "a": 1, "idx": items}],
                   "outs": {"out": len(inputs) + 1}}


EINSUMS = [
    ("ij,jk->ik", [(2, 3), (3, 2)]), ("ij,kj->ik", [(2, 3), (4, 3)]),
    ("ii->i", [(3, 3)]), ("ii->", [(3, 3)]), ("ij->ji", [(2, 3)]), ("ij->", [(2, 3)]),
    ("ij->j", [(2, 3)]), ("i,i->", [(3,)]), ("i,j->ij", [(2,), (3,)]),
    ("ij,ij->ij", [(2, 3), (2, 3)]), ("ij,ij->ij", [(2, 1), (2, 3)]),
    ("ij,ij->ij", [(1, 3), (2, 1)]), ("ij,j->i", [(2, 1), (3,)]),
    ("ij,j->i", [(2, 3), (1,)]), ("ijk,kj->i", [(2, 3, 2), (2, 3)]),
    ("im,mj,km->ijk", [(2, 2), (2, 3), (2, 2)]), ("iij->ij", [(2, 2, 3)]),
    ("ij,ji->", [(2, 3), (3, 2)]), ("i,i,i->i", [(3,), (3,), (1,)]),
    ("ij,jk,kl->il", [(2, 2), (2, 3), (3, 2)]), ("ijj->i", [(2, 3, 3)]),
    ("i->", [(0,)]), ("ij,jk->ik", [(2, 0), (0, 3)]), ("ij,jk->ik", [(0, 2), (2, 3)]),
    ("->", [()]), ("i,->i", [(3,), ()]),
]


def fam_einsum() -> Iterator[dict]:
    for n, (spec, shapes) in enumerate(EINSUMS):
        ins = [inp(f"x{j}", s) for j, s in enumerate(shapes)]
        yield {"id": f"einsum/{n}/{spec}", "inputs": ins,
               "calls": [{"op": "einsum", "spec": spec,
                          "args": list(range(1, len(ins) + 1))}],
               "outs": {"out": len(ins) + 1}}
    mm = [((2, 3), (3, 2)), ((3,), (3, 2)), ((2, 3), (3,)), ((3,), (3,)),
          ((2, 2, 3), (3, 2)), ((2, 3), (2, 3, 2)), ((2, 2, 3), (2, 3, 2)),
          ((1, 2, 3), (2, 3, 2)), ((2, 0), (0, 3))]
    for n, (sa, sb) in enumerate(mm):
        yield {"id": f"matmul/{n}", "inputs": [inp("a", sa), inp("b", sb)],
               "calls": [{"op": "matmul", "a": 1, "b": 2}], "outs": {"out": 3}}
    for n, (sa, sb) in enumerate([((3,), (3,)), ((2, 3), (3, 2)), ((2, 3), (3,))]):
        yield {"id": f"dot/{n}", "inputs": [inp("a", sa), inp("b", sb)],
               "calls": [{"op": "dot", "a": 1, "b": 2}], "outs": {"out": 3}}


def fam_csr(rng: np.random.Generator, count: int) -> Iterator[dict]:
    for n in range(count):
        nrows = int(rng.integers(1, 5))
        ncols = int(rng.integers(1, 5))
        counts = rng.integers(0, 3, size=nrows)
        if n % 3 == 0:
            counts[int(rng.integers(nrows))] = 0        # an empty row
        rows = np.concatenate([[0], np.cumsum(counts)]).astype(np.int64)
        nnz = int(rows[-1])
        cols = rng.integers(0, ncols, size=nnz).astype(np.int64)
        xs = (ncols,) if n % 2 else (ncols, int(rng.integers(1, 4)))
        yield {"id": f"csr/{n}",
               "inputs": [inp("data", (nnz,)),
                          {"name": "cols", "shape": [nnz], "dtype": "i8", "kind": "dw",
                           "data": cols.tolist()},
                          {"name": "rows", "shape": [nrows + 1], "dtype": "i8",
                           "kind": "dw", "data": rows.tolist()},
                          inp("x", xs)],
               "calls": [{"op": "csr", "shape": [nrows, ncols], "data": 1, "cols": 2,
                          "rows": 3, "x": 4}],
               "outs": {"out": 5}}
