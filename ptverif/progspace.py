"""Enumerations of the program space (single operations with their whole
bounded parameter scope, used by C02/C03/C14/C11) and random multi-operation
programs (C01/C05/C07/C14...)."""
from __future__ import annotations

import itertools
from typing import Any, Iterator

import numpy as np

OPT = lambda v: [] if v is None else [v]   # noqa: E731


def inp(name: str, shape: tuple | list, dtype: str = "f8", **kw: Any) -> dict:
    return {"name": name, "shape": list(shape), "dtype": dtype, "kind": "ph", **kw}


def single(inputs: list[dict], call: dict, pid: str) -> dict:
    return {"id": pid, "inputs": inputs, "calls": [call],
            "outs": {"out": len(inputs) + 1}}


def all_shapes(max_ndim: int, lens: tuple[int, ...]) -> list[tuple[int, ...]]:
    out: list[tuple[int, ...]] = []
    for nd in range(max_ndim + 1):
        out += list(itertools.product(lens, repeat=nd))
    return out


# --------------------------------------------------------------------------
# C02 families

def slices_1d(n: int, bound: int = 7, steps: tuple = (None, 1, -1, 2, -2, 3, -3)
              ) -> Iterator[dict]:
    vals = [None, *range(-bound, bound + 1)]
    for start in vals:
        for stop in vals:
            for step in steps:
                yield {"t": "slice", "start": OPT(start), "stop": OPT(stop),
                       "step": OPT(step)}


def fam_basic_1d(lens: tuple[int, ...] = (0, 1, 2, 3, 4, 5)) -> Iterator[dict]:
    for n in lens:
        x = inp("x", (n,))
        for i in range(-n, n):
            yield single([x], {"op": "index", "a": 1, "idx": [{"t": "int", "v": i}]},
                         f"bi1/n{n}/int{i}")
        for it in slices_1d(n):
            s = f"{it['start']}:{it['stop']}:{it['step']}".replace(" ", "")
            yield single([x], {"op": "index", "a": 1, "idx": [it]}, f"bi1/n{n}/{s}")


def _reduced_items(n: int) -> list[dict]:
    """A reduced but adversarial set of index items for an axis of length n."""
    items: list[dict] = []
    for i in sorted({-n, -1, 0, n - 1} & set(range(-n, n))):
        items.append({"t": "int", "v": i})
    for start, stop, step in [(None, None, None), (None, None, -1), (1, None, None),
                              (None, -1, None), (n + 2, None, -1), (None, None, 2),
                              (-1, 0, -2), (n, -n - 3, -1), (1, 1, 1), (-2, None, 3)]:
        items.append({"t": "slice", "start": OPT(start), "stop": OPT(stop),
                      "step": OPT(step)})
    return items


def fam_basic_nd(shapes: list[tuple[int, ...]]) -> Iterator[dict]:
    for shape in shapes:
        x = inp("x", shape)
        per_axis = [_reduced_items(n) for n in shape]
        # fewer items than axes is allowed (trailing full slices)
        for k in range(1, len(shape) + 1):
            for combo in itertools.product(*per_axis[:k]):
                tag = ",".join(
                    str(c["v"]) if c["t"] == "int" else
                    f"{c['start']}:{c['stop']}:{c['step']}" for c in combo).replace(" ", "")
                yield single([x], {"op": "index", "a": 1, "idx": list(combo)},
                             f"bin/{'x'.join(map(str, shape))}/{tag}")


def fam_reshape(max_ndim: int, lens: tuple[int, ...], max_new_ndim: int | None = None
                ) -> Iterator[dict]:
    shapes = all_shapes(max_ndim, lens)
    new_shapes = all_shapes(max_new_ndim or max_ndim, lens)
    by_size: dict[int, list] = {}
    for s in new_shapes:
        by_size.setdefault(int(np.prod(s, dtype=np.int64)), []).append(s)
    for old in shapes:
        size = int(np.prod(old, dtype=np.int64))
        for new in by_size.get(size, []):
            for order in "CF":
                yield single([inp("x", old)],
                             {"op": "reshape", "a": 1, "newshape": list(new),
                              "order": order},
                             f"rs/{'x'.join(map(str, old)) or 's'}->"
                             f"{'x'.join(map(str, new)) or 's'}/{order}")
        # one -1 entry
        if size > 0 and len(old) >= 1:
            for new in by_size.get(size, [])[:6]:
                for pos in range(len(new)):
                    ns = list(new)
                    ns[pos] = -1
                    yield single([inp("x", old)],
                                 {"op": "reshape", "a": 1, "newshape": ns, "order": "C"},
                                 f"rs/{'x'.join(map(str, old))}->"
                                 f"{'x'.join(map(str, ns))}/C")


def fam_roll(shapes: list[tuple[int, ...]]) -> Iterator[dict]:
    for shape in shapes:
        for ax, n in enumerate(shape):
            for shift in range(-2 * n - 1, 2 * n + 2):
                yield single([inp("x", shape)],
                             {"op": "roll", "a": 1, "shift": shift, "axis": ax},
                             f"roll/{'x'.join(map(str, shape))}/ax{ax}/s{shift}")


def fam_transpose(shapes: list[tuple[int, ...]]) -> Iterator[dict]:
    for shape in shapes:
        for perm in itertools.permutations(range(len(shape))):
            yield single([inp("x", shape)],
                         {"op": "transpose", "a": 1, "axes": list(perm)},
                         f"tr/{'x'.join(map(str, shape)) or 's'}/{''.join(map(str, perm))}")


def fam_stack_concat(shapes: list[tuple[int, ...]]) -> Iterator[dict]:
    for shape in shapes:
        for k in (1, 2, 3):
            ins = [inp(f"x{j}", shape) for j in range(k)]
            for ax in range(len(shape) + 1):
                yield {"id": f"stack/{'x'.join(map(str, shape)) or 's'}/k{k}/ax{ax}",
                       "inputs": ins,
                       "calls": [{"op": "stack", "arrays": list(range(1, k + 1)), "axis": ax}],
                       "outs": {"out": k + 1}}
            for ax in range(len(shape)):
                # operands of different extent along the axis
                exts = [(shape[ax] + j) % 4 for j in range(k)]
                ins2 = [inp(f"x{j}", shape[:ax] + (exts[j],) + shape[ax + 1:])
                        for j in range(k)]
                yield {"id": f"concat/{'x'.join(map(str, shape))}/k{k}/ax{ax}",
                       "inputs": ins2,
                       "calls": [{"op": "concatenate", "arrays": list(range(1, k + 1)),
                                  "axis": ax}],
                       "outs": {"out": k + 1}}


def fam_concat_empty(with_user: bool = True) -> Iterator[dict]:
    """concatenate / stack where an operand that is EMPTY along the axis has the dtype that
    widens the result (it still takes part in type promotion), at every position."""
    for da, db in (("i4", "f8"), ("f4", "f8"), ("i4", "i8"), ("f8", "c16"), ("b1", "i4")):
        for pos in range(3):
            shapes = [(2, 2), (2, 1), (2, 3)]
            dts = [da, da, da]
            shapes[pos] = (2, 0)
            dts[pos] = db
            ins = [inp(f"x{j}", shapes[j], dts[j]) for j in range(3)]
            yield {"id": f"concat-empty/{da}-{db}/p{pos}", "inputs": ins,
                   "calls": [{"op": "concatenate", "arrays": [1, 2, 3], "axis": 1}]
                   + ([{"op": "mul", "a": 4, "b": 4}] if with_user else []),
                   "outs": {"out": 4, "out_b": 5} if with_user else {"out": 4}}
        yield {"id": f"concat-empty/{da}-{db}/1d", "inputs": [inp("x0", (3,), da),
                                                                inp("x1", (0,), db)],
               "calls": [{"op": "concatenate", "arrays": [1, 2], "axis": 0}],
               "outs": {"out": 3}}


def fam_advanced(rng: np.random.Generator, shapes: list[tuple[int, ...]],
                 per_shape: int) -> Iterator[dict]:
    """Advanced indexing: 1..3 index arrays of broadcastable shapes, ints and
    slices mixed in, contiguous and non-contiguous, negative entries."""
    ishapes = [(), (1,), (2,), (3,), (2, 1), (1, 3), (2, 3)]
    for shape in shapes:
        if len(shape) == 0 or 0 in shape:
            continue
        seen = set()
        tries = 0
        while len(seen) < per_shape and tries < per_shape * 20:
            tries += 1
            kinds = [rng.choice(["arr", "arr", "int", "slice"]) for _ in shape]
            # drop trailing items sometimes
            k = int(rng.integers(1, len(shape) + 1))
            kinds = kinds[:k]
            if "arr" not in kinds:
                continue
            base = ishapes[int(rng.integers(len(ishapes)))]
            inputs = [inp("x", shape)]
            items = []
            for ax, kd in enumerate(kinds):
                n = shape[ax]
                if kd == "arr":
                    # a shape broadcastable with base
                    sh = tuple(d if rng.random() < 0.7 else 1 for d in base)
                    sh = sh[int(rng.integers(0, len(sh) + 1)):] if sh else sh
                    nm = f"i{len(inputs)}"
                    inputs.append(inp(nm, sh, "i8" if rng.random() < 0.7 else "i4",
                                      range=[-n, n - 1]))
                    items.append({"t": "arr", "n": len(inputs)})
                elif kd == "int":
                    items.append({"t": "int", "v": int(rng.integers(-n, n))})
                else:
                    its = _reduced_items(n)
                    its = [i for i in its if i["t"] == "slice"]
                    items.append(its[int(rng.integers(len(its)))])
            key = repr((kinds, items, [i["shape"] for i in inputs]))
            if key in seen:
                continue
            seen.add(key)
            yield {"id": f"adv/{'x'.join(map(str, shape))}/{len(seen)}",
                   "inputs": inputs,
                   "calls": [{"op": "index", "a": 1, "idx": items}],
                   "outs": {"out": len(inputs) + 1}}


def fam_advanced_patterns() -> Iterator[dict]:
    """EVERY placement pattern of {index array, int, slice} over the axes of a rank-3 and a
    rank-4 operand that contains >= 1 index array (contiguous and non-contiguous advanced
    items, slices before / between / after them, trailing axes left out), deterministic: the
    index arrays have shape (2,), (2, 1), (1, 2) in turn (they broadcast), the slices are
    ``1:`` / ``::-1`` / ``:2`` in turn."""
    slices = [{"t": "slice", "start": [1], "stop": [], "step": []},
              {"t": "slice", "start": [], "stop": [], "step": [-1]},
              {"t": "slice", "start": [], "stop": [2], "step": []}]
    ishapes = [(2,), (2, 1), (1, 2)]
    for shape in ((3, 2, 3), (2, 3, 2, 3)):
        for k in range(1, len(shape) + 1):
            for kinds in itertools.product(("arr", "int", "slice"), repeat=k):
                if "arr" not in kinds:
                    continue
                if len(shape) == 4 and kinds.count("arr") > 2:
                    continue
                inputs = [inp("x", shape)]
                items: list[dict] = []
                na = ns = 0
                for ax, kd in enumerate(kinds):
                    n = shape[ax]
                    if kd == "arr":
                        sh = ishapes[na % len(ishapes)] if kinds.count("arr") > 1 else (2,)
                        na += 1
                        inputs.append(inp(f"i{len(inputs)}", sh, "i8", range=[-n, n - 1]))
                        items.append({"t": "arr", "n": len(inputs)})
                    elif kd == "int":
                        items.append({"t": "int", "v": (-1 if ax % 2 else 1)})
                    else:
                        items.append(slices[ns % len(slices)])
                        ns += 1
                yield {"id": f"advp/{'x'.join(map(str, shape))}/{'-'.join(kinds)}",
                       "inputs": inputs,
                       "calls": [{"op": "index", "a": 1, "idx": items}],
                       "outs": {"out": len(inputs) + 1}}


EINSUMS = [
    ("ij,jk->ik", [(2, 3), (3, 2)]), ("ij,kj->ik", [(2, 3), (4, 3)]),
    ("ii->i", [(3, 3)]), ("ii->", [(3, 3)]), ("ij->ji", [(2, 3)]), ("ij->", [(2, 3)]),
    ("ij->j", [(2, 3)]), ("i,i->", [(3,)]), ("i,j->ij", [(2,), (3,)]),
    ("ij,ij->ij", [(2, 3), (2, 3)]), ("ij,ij->ij", [(2, 1), (2, 3)]),
    ("ij,ij->ij", [(1, 3), (2, 1)]), ("ij,j->i", [(2, 1), (3,)]),
    ("ij,j->i", [(2, 3), (1,)]), ("ijk,kj->i", [(2, 3, 2), (2, 3)]),
    ("im,mj,km->ijk", [(2, 2), (2, 3), (2, 2)]), ("iij->ij", [(2, 2, 3)]),
    ("ij,ji->", [(2, 3), (3, 2)]), ("i,i,i->i", [(3,), (3,), (1,)]),
    ("ij,jk,kl->il", [(2, 2), (2, 3), (3, 2)]), ("ijj->i", [(2, 3, 3)]),
    ("i->", [(0,)]), ("ij,jk->ik", [(2, 0), (0, 3)]), ("ij,jk->ik", [(0, 2), (2, 3)]),
    ("->", [()]), ("i,->i", [(3,), ()]),
]


def fam_einsum() -> Iterator[dict]:
    for n, (spec, shapes) in enumerate(EINSUMS):
        ins = [inp(f"x{j}", s) for j, s in enumerate(shapes)]
        yield {"id": f"einsum/{n}/{spec}", "inputs": ins,
               "calls": [{"op": "einsum", "spec": spec,
                          "args": list(range(1, len(ins) + 1))}],
               "outs": {"out": len(ins) + 1}}
    mm = [((2, 3), (3, 2)), ((3,), (3, 2)), ((2, 3), (3,)), ((3,), (3,)),
          ((2, 2, 3), (3, 2)), ((2, 3), (2, 3, 2)), ((2, 2, 3), (2, 3, 2)),
          ((1, 2, 3), (2, 3, 2)), ((2, 0), (0, 3)),
          # batch axes of operands of DIFFERENT rank >= 3 align from the right
          ((2, 3, 2, 2), (3, 2, 2)), ((3, 2, 2), (2, 3, 2, 2)), ((2, 2, 1, 2), (2, 2, 1)),
          ((2, 1, 2, 2), (3, 2, 1))]
    for n, (sa, sb) in enumerate(mm):
        yield {"id": f"matmul/{n}", "inputs": [inp("a", sa), inp("b", sb)],
               "calls": [{"op": "matmul", "a": 1, "b": 2}], "outs": {"out": 3}}
    for n, (sa, sb) in enumerate([((3,), (3,)), ((2, 3), (3, 2)), ((2, 3), (3,))]):
        yield {"id": f"dot/{n}", "inputs": [inp("a", sa), inp("b", sb)],
               "calls": [{"op": "dot", "a": 1, "b": 2}], "outs": {"out": 3}}


def fam_csr(rng: np.random.Generator, count: int) -> Iterator[dict]:
    for n in range(count):
        nrows = int(rng.integers(1, 5))
        ncols = int(rng.integers(1, 5))
        counts = rng.integers(0, 3, size=nrows)
        if n % 3 == 0:
            counts[int(rng.integers(nrows))] = 0        # an empty row
        rows = np.concatenate([[0], np.cumsum(counts)]).astype(np.int64)
        nnz = int(rows[-1])
        cols = rng.integers(0, ncols, size=nnz).astype(np.int64)
        xs = (ncols,) if n % 2 else (ncols, int(rng.integers(1, 4)))
        yield {"id": f"csr/{n}",
               "inputs": [inp("data", (nnz,)),
                          {"name": "cols", "shape": [nnz], "dtype": "i8", "kind": "dw",
                           "data": cols.tolist()},
                          {"name": "rows", "shape": [nrows + 1], "dtype": "i8",
                           "kind": "dw", "data": rows.tolist()},
                          inp("x", xs)],
               "calls": [{"op": "csr", "shape": [nrows, ncols], "data": 1, "cols": 2,
                          "rows": 3, "x": 4}],
               "outs": {"out": 5}}


def fam_pairs(shape: tuple[int, ...] = (2, 3, 4)) -> Iterator[dict]:
    """Every ordered PAIR of index-remapping operations applied directly one
    on the other (what a peephole simplification of adjacent nodes would have
    to get right: reshape on a reshape of the other order, transpose of a
    transpose, a slice of a reversed slice, expand_dims of an F-order reshape,
    a join of one array ...)."""
    def cands(sh: tuple[int, ...]) -> list[tuple[str, dict]]:
        n = int(np.prod(sh, dtype=np.int64))
        out: list[tuple[str, dict]] = []
        flat = [n] if len(sh) != 1 else [n // 2, 2] if n % 2 == 0 else [1, n]
        alt = [sh[-1] * sh[0], *sh[1:-1]] if len(sh) >= 2 else flat
        for order in "CF":
            out.append((f"reshape{order}", {"op": "reshape", "newshape": list(flat),
                                            "order": order}))
            out.append((f"reshape2{order}", {"op": "reshape", "newshape": list(alt),
                                             "order": order}))
        if len(sh) >= 2:
            perm = list(range(1, len(sh))) + [0]
            out.append(("transpose", {"op": "transpose", "axes": perm}))
            out.append(("swap", {"op": "transpose",
                                 "axes": [*range(len(sh) - 2), len(sh) - 1, len(sh) - 2]}))
        if sh:
            out.append(("roll", {"op": "roll", "shift": 1, "axis": len(sh) - 1}))
            out.append(("rev", {"op": "index", "idx": [{"t": "slice", "start": [], "stop": [],
                                                        "step": [-1]}]}))
            out.append(("tail", {"op": "index", "idx": [{"t": "slice", "start": [1], "stop": [],
                                                         "step": []}]}))
            out.append(("first", {"op": "index", "idx": [{"t": "int", "v": 0}]}))
        out.append(("expand0", {"op": "expand_dims", "axis": 0}))
        out.append(("expand_last", {"op": "expand_dims", "axis": len(sh)}))
        out.append(("stack1", {"op": "stack", "axis": min(1, len(sh))}))
        if sh:
            out.append(("concat1", {"op": "concatenate", "axis": 0}))
            out.append(("concat_self", {"op": "concatenate", "axis": len(sh) - 1, "twice": True}))
        return out

    def apply(c: dict, ref: int) -> dict:
        c = dict(c)
        if c["op"] in ("stack", "concatenate"):
            c["arrays"] = [ref, ref] if c.pop("twice", False) else [ref]
        else:
            c["a"] = ref
        return c
    from . import replay as rp
    x = inp("x", shape)
    a0 = np.zeros(shape)
    for n1, c1 in cands(shape):
        nb = rp.NpBackend({"x": a0})
        nb.values = [a0]
        try:
            v1 = np.asarray(nb._call(apply(c1, 1)))
        except Exception:      # noqa: BLE001
            continue
        for n2, c2 in cands(tuple(v1.shape)):
            nb.values = [a0, v1]
            try:
                nb._call(apply(c2, 2))
            except Exception:      # noqa: BLE001
                continue
            yield {"id": f"pair/{n1}>{n2}", "inputs": [x],
                   "calls": [apply(c1, 1), apply(c2, 2)], "outs": {"out": 3}}


def fam_pad() -> Iterator[dict]:
    """Every documented FORM of pad_width and constant_values (a number, one
    (before, after) pair, one pair per axis); with different before / after
    constants only along one axis at a time (corner values are undefined)."""
    x1, x2 = inp("x", (3,)), inp("x", (2, 3))
    k = 0
    for width in (1, [1, 2], [[2, 0]], [[0, 3]], 0):
        for cval in (0, 1.5, [2.0, -1.0], [[3.0, 4.0]]):
            yield {"id": f"pad/1d/{k}", "inputs": [x1],
                   "calls": [{"op": "pad", "a": 1, "width": width, "cval": cval}],
                   "outs": {"out": 2}}
            k += 1
    for width in (1, [1, 2], [[1, 0], [0, 2]], [[0, 0], [2, 1]], [[1, 2], [0, 0]]):
        for cval in (0, -2.5, [[1.0, 1.0], [1.0, 1.0]]):
            yield {"id": f"pad/2d/{k}", "inputs": [x2],
                   "calls": [{"op": "pad", "a": 1, "width": width, "cval": cval}],
                   "outs": {"out": 2}}
            k += 1
    # different constants before / after: one padded axis at a time
    for width, cval in (([[0, 0], [2, 1]], [[9.0, 9.0], [5.0, 7.0]]),
                        ([[1, 2], [0, 0]], [[5.0, 7.0], [9.0, 9.0]]),
                        ([[0, 0], [1, 1]], [5.0, 7.0]), ([[2, 1], [0, 0]], [5.0, 7.0])):
        yield {"id": f"pad/2d/{k}", "inputs": [x2],
               "calls": [{"op": "pad", "a": 1, "width": width, "cval": cval}],
               "outs": {"out": 2}}
        k += 1


def fam_nan() -> Iterator[dict]:
    """NaN / inf / signed zeros at DIFFERENT positions of the two operands (in
    the first only, in the second only, in both) for the operations of the
    NaN-aware fragment, both operand orders and scalar operands."""
    nan, inf = float("nan"), float("inf")
    xd = [nan, 1.0, nan, 2.0, inf, -inf, -0.0, 0.0, 3.0]
    yd = [1.0, nan, nan, 3.0, 1.0, -inf, 0.0, -0.0, inf]
    x = {"name": "x", "shape": [9], "dtype": "f8", "kind": "ph", "data": xd}
    y = {"name": "y", "shape": [9], "dtype": "f8", "kind": "ph", "data": yd}
    x2 = {"name": "x", "shape": [3, 3], "dtype": "f8", "kind": "ph", "data": xd}
    y1 = {"name": "y", "shape": [3], "dtype": "f8", "kind": "ph", "data": yd[:3]}
    sc = [{"py": "float", "v": "0.0"}, {"py": "float", "v": "nan"}, {"py": "int", "v": "1"}]
    for op in ("maximum", "minimum", "add", "sub", "mul", "truediv", "lt", "ge", "eq", "ne"):
        for a, b, tag in ((1, 2, "xy"), (2, 1, "yx")):
            yield {"id": f"nan/{op}/{tag}", "inputs": [x, y],
                   "calls": [{"op": op, "a": a, "b": b}], "outs": {"out": 3}}
        yield {"id": f"nan/{op}/bcast", "inputs": [x2, y1],
               "calls": [{"op": op, "a": 1, "b": 2}], "outs": {"out": 3}}
        for k, s_ in enumerate(sc):
            yield {"id": f"nan/{op}/xs{k}", "inputs": [x],
                   "calls": [{"op": op, "a": 1, "b": s_}], "outs": {"out": 2}}
            yield {"id": f"nan/{op}/sx{k}", "inputs": [x],
                   "calls": [{"op": op, "a": s_, "b": 1}], "outs": {"out": 2}}
    for op in ("isnan", "abs", "neg", "exp", "sin", "sqrt"):
        yield {"id": f"nan/{op}", "inputs": [x], "calls": [{"op": op, "a": 1}],
               "outs": {"out": 2}}
    yield {"id": "nan/where", "inputs": [x, y],
           "calls": [{"op": "gt", "a": 1, "b": 2}, {"op": "where", "c": 3, "a": 1, "b": 2},
                     {"op": "isnan", "a": 1}, {"op": "where", "c": 5, "a": 2, "b": 1}],
           "outs": {"out": 4, "out1": 6}}
    yield {"id": "nan/sum", "inputs": [x2],
           "calls": [{"op": "sum", "a": 1, "axis": 1}, {"op": "sum", "a": 1, "axis": None}],
           "outs": {"out": 2, "out1": 3}}


SCALARS = [
    {"py": "int", "v": "-2"}, {"py": "int", "v": "3"}, {"py": "float", "v": "-2.0"},
    {"py": "float", "v": "0.5"}, {"py": "float", "v": "-0.0"}, {"py": "float", "v": "inf"},
    {"py": "float", "v": "-inf"}, {"py": "float", "v": "nan"}, {"py": "complex", "v": "(-1-2j)"},
    {"py": "bool", "v": "True"},
    {"np": "f4", "v": "-1.5"}, {"np": "f4", "v": "inf"}, {"np": "f4", "v": "-inf"},
    {"np": "f4", "v": "nan"}, {"np": "f8", "v": "-2.0"}, {"np": "f8", "v": "inf"},
    {"np": "f8", "v": "-inf"}, {"np": "i8", "v": "-3"}, {"np": "i4", "v": "2"},
    {"np": "c16", "v": "(-1-2j)"}, {"np": "b1", "v": "True"},
]


def fam_scalars() -> Iterator[dict]:
    """How a SCALAR CONSTANT is rendered in generated code: every binary operation x
    both operand orders x a scalar of every kind (negative / non-finite / signed-zero
    Python numbers, NumPy scalars of several types incl. non-finite single precision),
    on a float64, an int64 and a float32 array; where() and full() with such a scalar."""
    # (a NEGATIVE entry in the float arrays: as an exponent it tells (-0.0)**y = +inf from
    # -(0.0**y) = -inf, which differ in more than the sign of a zero)
    arrs = [{"name": "x", "shape": [3], "dtype": "f8", "kind": "ph", "data": [1.0, 2.0, -2.0]},
            {"name": "k", "shape": [3], "dtype": "i8", "kind": "ph", "data": [1, 2, 3]},
            {"name": "h", "shape": [3], "dtype": "f4", "kind": "ph", "data": [1.0, 2.0, -2.0]}]
    ops = ("add", "sub", "mul", "truediv", "floordiv", "mod", "pow", "maximum", "minimum",
           "lt", "ge", "eq", "ne")
    for arr in arrs:
        for si, sc in enumerate(SCALARS):
            cplx = sc.get("py") == "complex" or sc.get("np", "").startswith("c")
            for op in ops:
                if cplx and op in ("floordiv", "mod", "maximum", "minimum", "lt", "ge"):
                    continue
                for order in ("xs", "sx"):
                    call = {"op": op, "a": 1, "b": sc} if order == "xs" else \
                        {"op": op, "a": sc, "b": 1}
                    yield {"id": f"scalar/{arr['name']}/{op}/{order}{si}", "inputs": [arr],
                           "calls": [call], "outs": {"out": 2}}
            if not cplx:
                yield {"id": f"scalar/{arr['name']}/where/{si}", "inputs": [arr],
                       "calls": [{"op": "gt", "a": 1, "b": {"py": "int", "v": "1"}},
                                 {"op": "where", "c": 2, "a": sc, "b": 1},
                                 {"op": "where", "c": 2, "a": 1, "b": sc}],
                       "outs": {"out": 3, "out_b": 4}}


def fam_creation_then_math() -> Iterator[dict]:
    """a math function / cast-sensitive consumer applied DIRECTLY to the result of an array
    creation routine (eye, full, zeros, ones, arange) of every dtype spelling the harness
    uses: the created node's dtype must be a dtype the consumer can work with"""
    makers = [("eye", {"op": "eye", "n": 2, "m": 3, "k": 0, "dtype": "f8"}),
              ("eye4", {"op": "eye", "n": 2, "m": 3, "k": 1, "dtype": "f4"}),
              ("full", {"op": "full", "shape": [2, 3], "fill": {"py": "float", "v": "2.5"},
                        "dtype": "f8"}),
              ("zeros", {"op": "zeros", "shape": [2, 3], "dtype": "f8"}),
              ("ones", {"op": "ones", "shape": [2, 3], "dtype": "f4"})]
    x = inp("x", (2, 3))
    for mname, mk in makers:
        for fn in ("exp", "sin", "sqrt", "abs"):
            yield {"id": f"creation/{mname}/{fn}", "inputs": [x],
                   "calls": [mk, {"op": fn, "a": 2}, {"op": "add", "a": 3, "b": 1}],
                   "outs": {"out": 4}}
        yield {"id": f"creation/{mname}/pad-exp", "inputs": [x],
               "calls": [mk, {"op": "pad", "a": 2, "width": [[1, 0], [0, 1]], "cval": 0},
                         {"op": "exp", "a": 3}],
               "outs": {"out": 4}}


def fam_logical_nonbool() -> Iterator[dict]:
    """logical_and / logical_or / logical_not on NON-boolean operands (integer flags, floats
    incl. -0.0 and a negative number, mixed with booleans): truth is `!= 0`, not a bit
    pattern (1 & 2 == 0 but both are true)."""
    i = {"name": "i", "shape": [6], "dtype": "i4", "kind": "ph", "data": [0, 1, 2, 0, 3, 4]}
    j = {"name": "j", "shape": [6], "dtype": "i4", "kind": "ph", "data": [2, 2, 1, 0, 0, 3]}
    f = {"name": "f", "shape": [6], "dtype": "f8", "kind": "ph",
         "data": [0.0, 0.5, -0.0, -1.0, 2.5, 0.0]}
    b = {"name": "b", "shape": [6], "dtype": "b1", "kind": "ph",
         "data": [True, False, True, False, True, True]}
    pairs = [(1, 2, "ij"), (2, 1, "ji"), (1, 3, "if"), (3, 1, "fi"), (3, 4, "fb"), (4, 1, "bi"),
             (3, 3, "ff")]
    for op in ("logical_and", "logical_or"):
        for a, c, tag in pairs:
            yield {"id": f"logical/{op}/{tag}", "inputs": [i, j, f, b],
                   "calls": [{"op": op, "a": a, "b": c},
                             {"op": "where", "c": 5, "a": 3, "b": {"py": "float", "v": "-9.0"}}],
                   "outs": {"out": 5, "out_b": 6}}
    for a, tag in ((1, "i"), (3, "f")):
        yield {"id": f"logical/not/{tag}", "inputs": [i, j, f, b],
               "calls": [{"op": "logical_not", "a": a}], "outs": {"out": 5}}


def fam_same_buffer() -> Iterator[dict]:
    """ONE ndarray object wrapped by TWO DataWrapper nodes of one graph, the wrappers equal
    or differing in a tag (array tag, axis tag, Named, PrefixNamed): each wrapper is an
    argument of its own, bound to that object."""
    w1 = {"name": "w1", "shape": [4], "dtype": "f8", "kind": "dw"}
    w2 = {"name": "w2", "shape": [4], "dtype": "f8", "kind": "dw", "same_as": "w1"}
    x = inp("x", (4,))
    for tag in (None, "Foo", "Bar", "axis"):
        calls: list[dict] = []
        second = 2
        if tag == "axis":
            calls.append({"op": "tag_axis", "a": 2, "axis": 0, "tag": "Foo"})
            second = 4
        elif tag:
            calls.append({"op": "tag", "a": 2, "tag": tag})
            second = 4
        n = 3 + len(calls)
        calls += [{"op": "mul", "a": 1, "b": {"py": "float", "v": "2.0"}},
                  {"op": "add", "a": n + 1, "b": second},
                  {"op": "add", "a": n + 2, "b": 3}]
        yield {"id": f"same_buffer/{tag}", "inputs": [w1, w2, x], "calls": calls,
               "outs": {"out": n + 3, "out_b": second}}


def fam_boolarith() -> Iterator[dict]:
    """Arithmetic on BOOLEAN arrays (NumPy: + is logical or, * is logical and) whose result is
    consumed by a wider computation -- where an inlined C expression would add the 0/1
    integers -- for boolean inputs and for comparison results, every combining operation
    x every consumer."""
    tf = [True, True, False, False, True, False]
    ft = [True, False, True, False, True, True]
    p = {"name": "p", "shape": [6], "dtype": "b1", "kind": "ph", "data": tf}
    q = {"name": "q", "shape": [6], "dtype": "b1", "kind": "ph", "data": ft}
    x = {"name": "x", "shape": [6], "dtype": "f8", "kind": "ph",
         "data": [3.0, 1.0, -1.0, 0.5, 2.5, -2.0]}
    combine = ("add", "mul", "bitor", "bitand", "bitxor", "logical_or", "logical_and",
               "maximum", "minimum", "eq", "ne")
    consumers = {
        "scale": lambda r: [{"op": "mul", "a": r, "b": {"py": "float", "v": "1.5"}}],
        "astype": lambda r: [{"op": "astype", "a": r, "dtype": "f8"}],
        "where": lambda r: [{"op": "where", "c": r, "a": 3, "b": {"py": "float", "v": "0.0"}}],
        "add_int": lambda r: [{"op": "add", "a": r, "b": {"py": "int", "v": "1"}}],
        "twice": lambda r: [{"op": "add", "a": r, "b": r},
                            {"op": "mul", "a": r + 1, "b": {"py": "float", "v": "1.5"}}],
        "none": lambda r: [],
    }
    for src in ("inputs", "comparisons"):
        for op in combine:
            for cname, cons in consumers.items():
                if src == "inputs":
                    calls = [{"op": op, "a": 1, "b": 2}]
                else:
                    calls = [{"op": "gt", "a": 3, "b": {"py": "int", "v": "0"}},
                             {"op": "gt", "a": 3, "b": {"py": "int", "v": "2"}},
                             {"op": op, "a": 4, "b": 5}]
                r = 3 + len(calls)
                calls = calls + cons(r)
                yield {"id": f"boolarith/{src}/{op}/{cname}", "inputs": [p, q, x],
                       "calls": calls, "outs": {"out": 3 + len(calls)}}


def fam_lpcall(rng: np.random.Generator, count: int) -> Iterator[dict]:
    """Random programs in which calls to hand-written loopy kernels are mixed
    with the arithmetic / structural alphabet (loopy target only)."""
    ops = ["lpcall"] * 4 + ALPHABET["elementwise"][:6] + ["sum", "transpose", "reshape",
                                                          "basic_index", "stack"]
    for n in range(count):
        yield random_program(rng, f"lpcall/{n}", int(rng.integers(2, 8)), ops=ops,
                             dtypes=("f8", "f8", "i8"))


# --------------------------------------------------------------------------
# random multi-operation programs (C01 C05 C07 C11 C14 C15 C17 ...)

ALPHABET = {
    "elementwise": ["add", "sub", "mul", "truediv", "lt", "ge", "eq", "where", "maximum",
                    "minimum", "neg", "abs", "sin", "exp", "sqrt_abs", "pow2", "scalar_add",
                    "scalar_mul", "scalar_rsub", "scalar_rdiv", "logical_and", "logical_not",
                    "astype", "floordiv_s", "mod_s"],
    "reduce": ["sum", "prod", "amax", "amin", "all", "any"],
    "remap": ["stack", "concatenate", "roll", "transpose", "reshape", "expand_dims",
              "squeeze", "broadcast_to", "basic_index", "pad"],
    "advanced": ["adv_index"],
    "einsum": ["einsum", "matmul", "dot"],
    "create": ["zeros", "ones", "full", "arange", "eye", "zeros_like", "ones_like"],
}
ALL_OPS = [o for v in ALPHABET.values() for o in v]

_SHAPES = [(), (1,), (2,), (3,), (4,), (2, 3), (3, 2), (1, 3), (3, 1), (2, 2), (3, 3),
           (2, 3, 2), (2, 1, 3), (1, 2, 2), (3, 0), (0,), (2, 2, 2, 2)]


class _Gen:
    def __init__(self, rng: np.random.Generator, dtypes: tuple[str, ...]):
        import numpy  # noqa: F401

        from . import replay as rp
        self.rp = rp
        self.rng = rng
        self.dtypes = dtypes
        self.items: list[dict] = []     # {"kind": "input"|"call", "desc": ..., "np": array}

    # -- helpers
    def pick(self, seq: Any) -> Any:
        return seq[int(self.rng.integers(len(seq)))]

    def add_input(self, shape: tuple, dtype: str, kind: str = "ph",
                  data: np.ndarray | None = None) -> int:
        n = sum(1 for it in self.items if it["kind"] == "input")
        name = f"in{n}" if kind == "ph" else f"dw{n}"
        desc: dict[str, Any] = {"name": name, "shape": list(shape), "dtype": dtype,
                                "kind": kind}
        if data is not None:
            desc["data"] = data.reshape(-1).tolist()
            arr = data
        else:
            arr = np.ones(shape, self.rp.DT[dtype])
        self.items.append({"kind": "input", "desc": desc, "np": arr})
        return len(self.items)

    def arrays(self, pred: Any = None) -> list[int]:
        return [k + 1 for k, it in enumerate(self.items)
                if it["np"] is not None and (pred is None or pred(it["np"]))]

    def np_of(self, ref: int) -> np.ndarray:
        return self.items[ref - 1]["np"]

    def try_call(self, call: dict) -> bool:
        import warnings
        nb = self.rp.NpBackend({})
        nb.values = [it["np"] for it in self.items]
        try:
            with warnings.catch_warnings():
                warnings.simplefilter("ignore")
                v = np.asarray(nb._call(call))
        except Exception:      # noqa: BLE001
            return False
        from .export import dt
        if v.size > 300 or v.ndim > 4 or dt(v.dtype) not in self.rp.DT:
            return False
        self.items.append({"kind": "call", "desc": call, "np": v})
        return True

    def step_lpcall(self) -> bool:
        """A call to a hand-written loopy kernel (ptverif/lpkernels.py): array
        arguments are existing values of the right shape and dtype where there
        are any (else new inputs), scalar arguments literals or 0-d values;
        one or all results of the call enter the pool (sharing one Call)."""
        from . import lpkernels
        rng, pick = self.rng, self.pick
        name = pick(sorted(lpkernels.KERNELS))
        e = lpkernels.KERNELS[name]
        sizes = e["sizes"](rng)
        # bias the sizes towards shapes that already exist in the pool
        spec = e["args"](**sizes)
        bind: dict[str, Any] = {}
        for arg, (shape, d) in spec.items():
            want = np.dtype(self.rp.DT[d])
            if shape is None:
                zero_d = self.arrays(lambda a: a.ndim == 0 and a.dtype == want)
                if not zero_d and rng.random() < 0.4:
                    src = self.arrays(lambda a: a.ndim > 0 and a.size > 0 and a.dtype == want)
                    if src and self.try_call({"op": "sum", "a": pick(src), "axis": None}):
                        zero_d = [len(self.items)]
                if zero_d and rng.random() < 0.6:
                    bind[arg] = pick(zero_d)
                elif d[0] == "f":
                    bind[arg] = {"py": "float", "v": repr(float(pick([0.5, -1.25, 2.0, 0.0])))}
                else:
                    bind[arg] = {"py": "int", "v": repr(int(pick([-2, 0, 1, 3])))}
                continue
            have = self.arrays(lambda a: tuple(a.shape) == tuple(shape) and a.dtype == want)
            if have and rng.random() < 0.8:
                bind[arg] = pick(have)
                continue
            # any value with the right number of elements and dtype, reshaped
            resh = self.arrays(lambda a: a.size == int(np.prod(shape)) and a.dtype == want
                               and a.ndim > 0)
            if resh and rng.random() < 0.5 and self.try_call(
                    {"op": "reshape", "a": pick(resh), "newshape": list(shape)}):
                bind[arg] = len(self.items)
                continue
            bind[arg] = self.add_input(tuple(shape), d, "ph")
        cid = sum(1 for it in self.items if it["kind"] == "call"
                  and it["desc"]["op"] == "lpcall")
        results = sorted(e["outs"](**sizes))
        chosen = results if rng.random() < 0.6 else [pick(results)]
        ok = False
        for res in chosen:
            ok = self.try_call({"op": "lpcall", "knl": name, "sizes": sizes, "cid": cid,
                                "bind": dict(bind), "res": res}) or ok
        return ok

    # -- one random call
    def step(self, ops: list[str]) -> bool:
        rng, pick = self.rng, self.pick
        op = pick(ops)
        isnum = lambda a: a.dtype.kind in "fiuc"          # noqa: E731
        isreal = lambda a: a.dtype.kind in "fiu"          # noqa: E731
        isfloat = lambda a: a.dtype.kind == "f"           # noqa: E731
        anyarr = self.arrays()
        if not anyarr:
            return False

        def two(pred: Any) -> tuple[int, int] | None:
            c = self.arrays(pred)
            if not c:
                return None
            a = pick(c)
            # prefer a broadcast-compatible partner
            comp = [b for b in c if _bcast_ok(self.np_of(a).shape, self.np_of(b).shape)]
            return a, pick(comp or c)

        if op == "lpcall":
            return self.step_lpcall()
        if op in ("add", "sub", "mul", "maximum", "minimum"):
            t = two(isreal if op in ("maximum", "minimum") else isnum)
            return bool(t) and self.try_call({"op": op, "a": t[0], "b": t[1]})
        if op == "truediv":
            t = two(isfloat)
            return bool(t) and self.try_call({"op": op, "a": t[0], "b": t[1]})
        if op in ("lt", "ge", "eq"):
            t = two(isreal)
            return bool(t) and self.try_call({"op": op, "a": t[0], "b": t[1]})
        if op == "logical_and":
            t = two(lambda a: a.dtype.kind == "b")
            return bool(t) and self.try_call({"op": op, "a": t[0], "b": t[1]})
        if op == "logical_not":
            c = self.arrays(lambda a: a.dtype.kind == "b")
            return bool(c) and self.try_call({"op": op, "a": pick(c)})
        if op == "where":
            t = two(isreal)
            if not t:
                return False
            conds = [c for c in self.arrays(lambda a: a.dtype.kind == "b")
                     if _bcast_ok(self.np_of(c).shape, self.np_of(t[0]).shape)]
            if not conds or rng.random() < 0.3:
                if not self.try_call({"op": "gt", "a": t[0],
                                      "b": {"py": "float", "v": "0.25"}}):
                    return False
                conds = [len(self.items)]
            return self.try_call({"op": "where", "c": pick(conds), "a": t[0], "b": t[1]})
        if op in ("neg", "abs"):
            c = self.arrays(isnum if op == "neg" else (lambda a: a.dtype.kind in "fc"))
            return bool(c) and self.try_call({"op": op, "a": pick(c)})
        if op in ("sin", "exp"):
            c = self.arrays(isfloat)
            return bool(c) and self.try_call({"op": op, "a": pick(c)})
        if op == "sqrt_abs":
            c = self.arrays(isfloat)
            if not c:
                return False
            a = pick(c)
            return self.try_call({"op": "abs", "a": a}) and \
                self.try_call({"op": "sqrt", "a": len(self.items)})
        if op == "pow2":
            c = self.arrays(isreal)
            return bool(c) and self.try_call({"op": "pow", "a": pick(c),
                                              "b": {"py": "int", "v": "2"}})
        if op in ("scalar_add", "scalar_mul", "scalar_rsub"):
            c = self.arrays(isnum)
            if not c:
                return False
            s = pick([{"py": "int", "v": "2"}, {"py": "float", "v": "0.5"},
                      {"py": "int", "v": "-1"}, {"np": "f4", "v": "1.5"},
                      {"np": "f8", "v": "0.1"}, {"np": "i8", "v": "3"},
                      {"np": "i4", "v": "2"}])
            a = pick(c)
            real = {"scalar_add": "add", "scalar_mul": "mul", "scalar_rsub": "sub"}[op]
            if op == "scalar_rsub":
                return self.try_call({"op": real, "a": s, "b": a})
            return self.try_call({"op": real, "a": a, "b": s})
        if op == "scalar_rdiv":
            c = self.arrays(isfloat)
            return bool(c) and self.try_call({"op": "truediv", "a": pick(c),
                                              "b": {"py": "float", "v": "2.0"}})
        if op in ("floordiv_s", "mod_s"):
            c = self.arrays(lambda a: a.dtype.kind in "iu")
            return bool(c) and self.try_call({"op": op[:-2], "a": pick(c),
                                              "b": {"py": "int", "v": "3"}})
        if op == "astype":
            a = pick(anyarr)
            src = self.np_of(a).dtype.kind
            targets = {"b": ["i4", "f8", "i8"], "i": ["f8", "i8", "f4"], "u": ["f8"],
                       "f": ["f4", "f8", "c16"], "c": ["c16"]}[src]
            targets = [t for t in targets if t in self.dtypes] or ["f8"]
            return self.try_call({"op": "astype", "a": a, "dtype": pick(targets)})
        if op in ("sum", "prod", "amax", "amin", "all", "any"):
            pred = isreal if op in ("amax", "amin") else \
                ((lambda a: a.dtype.kind == "b") if op in ("all", "any") else isnum)
            c = self.arrays(pred)
            if not c:
                return False
            a = pick(c)
            nd = self.np_of(a).ndim
            if nd == 0 or rng.random() < 0.25:
                axis: Any = None
            else:
                k = int(rng.integers(1, nd + 1))
                axes = rng.permutation(nd)[:k].tolist()      # any order, as NumPy allows
                axis = axes[0] if len(axes) == 1 and rng.random() < 0.5 else axes
            return self.try_call({"op": op, "a": a, "axis": axis})
        if op in ("stack", "concatenate"):
            a = pick(anyarr)
            sa = self.np_of(a)
            same = [b for b in anyarr if self.np_of(b).shape == sa.shape
                    and self.np_of(b).dtype.kind != "b"]
            if sa.dtype.kind == "b" or not same:
                return False
            k = int(rng.integers(1, 4))
            arrs = [a] + [pick(same) for _ in range(k - 1)]
            if op == "stack":
                return self.try_call({"op": op, "arrays": arrs,
                                      "axis": int(rng.integers(0, sa.ndim + 1))})
            if sa.ndim == 0:
                return False
            return self.try_call({"op": op, "arrays": arrs,
                                  "axis": int(rng.integers(0, sa.ndim))})
        if op == "roll":
            c = self.arrays(lambda a: a.ndim >= 1)
            if not c:
                return False
            a = pick(c)
            return self.try_call({"op": "roll", "a": a, "shift": int(rng.integers(-4, 5)),
                                  "axis": int(rng.integers(0, self.np_of(a).ndim))})
        if op == "transpose":
            c = self.arrays(lambda a: a.ndim >= 2)
            if not c:
                return False
            a = pick(c)
            return self.try_call({"op": "transpose", "a": a,
                                  "axes": rng.permutation(self.np_of(a).ndim).tolist()})
        if op == "reshape":
            a = pick(anyarr)
            size = self.np_of(a).size
            cands = [s for s in _SHAPES + [(6,), (4, 3), (12,), (2, 6), (6, 2), (8,), (4, 2),
                                           (2, 4), (9,), (1, 1), (4, 4), (16,), (2, 8)]
                     if int(np.prod(s, dtype=np.int64)) == size]
            if not cands:
                return False
            return self.try_call({"op": "reshape", "a": a, "newshape": list(pick(cands)),
                                  "order": "C" if rng.random() < 0.6 else "F"})
        if op == "expand_dims":
            a = pick(anyarr)
            return self.try_call({"op": op, "a": a,
                                  "axis": int(rng.integers(0, self.np_of(a).ndim + 1))})
        if op == "squeeze":
            c = self.arrays(lambda a: 1 in a.shape)
            if not c:
                return False
            a = pick(c)
            ones = [k for k, n in enumerate(self.np_of(a).shape) if n == 1]
            return self.try_call({"op": op, "a": a, "axis": [pick(ones)]})
        if op == "broadcast_to":
            a = pick(anyarr)
            sh = self.np_of(a).shape
            new = tuple(int(rng.integers(2, 4)) if n == 1 else n for n in sh)
            if rng.random() < 0.5:
                new = (int(rng.integers(1, 3)),) + new
            return self.try_call({"op": op, "a": a, "shape": list(new)})
        if op == "pad":
            c = self.arrays(lambda a: a.ndim >= 1 and a.dtype.kind == "f")
            if not c:
                return False
            a = pick(c)
            nd = self.np_of(a).ndim
            width = [[int(rng.integers(0, 3)), int(rng.integers(0, 3))] for _ in range(nd)]
            return self.try_call({"op": "pad", "a": a, "width": width,
                                  "cval": pick([0, 1.5, -2])})
        if op == "basic_index":
            c = self.arrays(lambda a: a.ndim >= 1)
            if not c:
                return False
            a = pick(c)
            sh = self.np_of(a).shape
            k = int(rng.integers(1, len(sh) + 1))
            items = []
            for ax in range(k):
                its = _reduced_items(sh[ax])
                if sh[ax] == 0:
                    its = [i for i in its if i["t"] == "slice"]
                items.append(pick(its))
            return self.try_call({"op": "index", "a": a, "idx": items})
        if op == "adv_index":
            c = self.arrays(lambda a: a.ndim >= 1 and 0 not in a.shape)
            if not c:
                return False
            a = pick(c)
            sh = self.np_of(a).shape
            k = int(rng.integers(1, len(sh) + 1))
            base = pick([(2,), (3,), (2, 2), (1,), ()])
            items, have_arr = [], False
            for ax in range(k):
                kind = pick(["arr", "arr", "int", "slice"])
                n = sh[ax]
                if kind == "arr":
                    ish = base if rng.random() < 0.7 else tuple(1 for _ in base)
                    data = rng.integers(-n, n, size=ish).astype(np.int64)
                    ref = self.add_input(ish, "i8", "dw", data)
                    items.append({"t": "arr", "n": ref})
                    have_arr = True
                elif kind == "int":
                    items.append({"t": "int", "v": int(rng.integers(-n, n))})
                else:
                    items.append(pick([i for i in _reduced_items(n) if i["t"] == "slice"]))
            if not have_arr:
                return False
            return self.try_call({"op": "index", "a": a, "idx": items})
        if op == "einsum":
            spec, shapes = pick(EINSUMS)
            args = []
            for s in shapes:
                c = self.arrays(lambda a, s=s: a.shape == tuple(s) and a.dtype.kind in "fc")
                if not c or rng.random() < 0.2:
                    args.append(self.add_input(tuple(s), "f8"))
                else:
                    args.append(pick(c))
            return self.try_call({"op": "einsum", "spec": spec, "args": args})
        if op in ("matmul", "dot"):
            c = self.arrays(lambda a: a.ndim >= 1 and a.dtype.kind == "f")
            if not c:
                return False
            a = pick(c)
            sa = self.np_of(a).shape
            part = [b for b in c if (self.np_of(b).shape[0] if self.np_of(b).ndim == 1
                                     else self.np_of(b).shape[-2]) == sa[-1]
                    and (op == "matmul" or self.np_of(b).ndim <= 2)]
            if not part or (op == "dot" and len(sa) > 2):
                return False
            return self.try_call({"op": op, "a": a, "b": pick(part)})
        if op in ("zeros", "ones"):
            return self.try_call({"op": op, "shape": list(pick(_SHAPES[:12])),
                                  "dtype": pick(self.dtypes)})
        if op == "full":
            d = pick([t for t in self.dtypes if t[0] in "fi"] or ["f8"])
            fill = {"py": "float", "v": "2.5"} if d[0] == "f" else {"py": "int", "v": "7"}
            return self.try_call({"op": op, "shape": list(pick(_SHAPES[:12])), "fill": fill,
                                  "dtype": d})
        if op == "arange":
            return self.try_call({"op": op, "args": [int(rng.integers(1, 6))],
                                  "dtype": pick(["i8", "f8", "i4"])})
        if op == "eye":
            n = int(rng.integers(1, 4))
            return self.try_call({"op": op, "n": n, "m": int(rng.integers(1, 4)),
                                  "k": int(rng.integers(-1, 2)), "dtype": "f8"})
        if op in ("zeros_like", "ones_like"):
            c = self.arrays(isfloat)
            if not c:
                return False
            call = {"op": op, "a": pick(c)}
            if rng.random() < 0.4:             # dtype= other than the argument's
                call["dtype"] = pick(["i4", "f4", "i8", "b1", "f8"])
            return self.try_call(call)
        raise ValueError(op)

    def finalize(self, pid: str, nouts: int) -> dict:
        order = [k for k, it in enumerate(self.items) if it["kind"] == "input"] + \
                [k for k, it in enumerate(self.items) if it["kind"] == "call"]
        remap = {old + 1: new + 1 for new, old in enumerate(order)}

        def fix(o: Any) -> Any:
            if isinstance(o, dict):
                return {k: (remap[v] if k in ("a", "b", "c", "n", "x", "data", "cols", "rows")
                            and isinstance(v, int) and not isinstance(v, bool)
                            and k != "n" or (k == "n" and o.get("t") == "arr")
                            else fix(v)) if not (k in ("arrays", "args")
                                                 and isinstance(v, list)
                                                 and all(isinstance(z, int) for z in v))
                        else [remap[z] for z in v]
                        for k, v in o.items()}
            if isinstance(o, list):
                return [fix(v) for v in o]
            return o
        inputs = [self.items[k]["desc"] for k in order if self.items[k]["kind"] == "input"]
        calls = []
        for k in order:
            it = self.items[k]
            if it["kind"] != "call":
                continue
            c = it["desc"]
            if c["op"] in ("arange",):
                calls.append(dict(c))      # "args" of arange are numbers, not refs
            elif c["op"] == "eye":
                calls.append(dict(c))
            elif c["op"] == "lpcall":      # bindings: kernel argument -> ref | scalar
                calls.append({**c, "bind": {
                    k: (remap[v] if isinstance(v, int) and not isinstance(v, bool) else v)
                    for k, v in c["bind"].items()}})
            else:
                calls.append(fix(c))
        ncall = len(calls)
        total = len(inputs) + ncall
        # outputs: prefer late values; sometimes an input; sometimes the same value twice
        cands = list(range(len(inputs) + 1, total + 1))
        outs: dict[str, int] = {}
        picks = [total] + [self.pick(cands) for _ in range(nouts - 1)]
        if nouts > 1 and self.rng.random() < 0.15:
            picks[-1] = int(self.rng.integers(1, len(inputs) + 1))
        for j, ref in enumerate(picks):
            outs[f"out{j}"] = int(ref)
        return {"id": pid, "inputs": inputs, "calls": calls, "outs": outs}


def _bcast_ok(a: tuple, b: tuple) -> bool:
    try:
        np.broadcast_shapes(a, b)
        return True
    except ValueError:
        return False


def random_program(rng: np.random.Generator, pid: str, ncalls: int,
                   ops: list[str] | None = None,
                   dtypes: tuple[str, ...] = ("f8", "f8", "f8", "f4", "i4", "i8", "b1", "c16"),
                   nouts: int | None = None, ninputs: int | None = None) -> dict:
    g = _Gen(rng, dtypes)
    ops = ops or ALL_OPS
    for _ in range(ninputs or int(rng.integers(1, 4))):
        shape = g.pick(_SHAPES)
        d = g.pick(dtypes)
        if rng.random() < 0.2 and d[0] == "f":
            g.add_input(shape, d, "dw")
        else:
            g.add_input(shape, d, "ph")
    # make sure the basic ingredients exist
    made, tries = 0, 0
    while made < ncalls and tries < ncalls * 25:
        tries += 1
        before = len(g.items)
        if g.step(ops):
            made += sum(1 for it in g.items[before:] if it["kind"] == "call")
        else:
            # a failed composite step may have added inputs only; keep them
            pass
    if made == 0:
        g.try_call({"op": "add", "a": 1, "b": 1})
    return g.finalize(pid, nouts or int(rng.integers(1, 4)))
