"""Reflective *structural* export of pytato objects for PtEq / PtKey
(DESIGN section 3 and appendix B).

Unlike ptverif.export (which exports the *meaning* of a graph for PtSem) this
exporter knows nothing about node kinds: every "entity" (array, container of
named arrays, function definition, send, sparse matrix, axis, reduction
descriptor) becomes one node

    {"kind": <class name>, "f": [[<field name>, <value>], ...]}

with ALL of ``dataclasses.fields`` in declaration order, and every field
value is encoded by ``val`` below.  Entities are memoised by object identity,
so the same Python object is one node, and two distinct-but-equal objects are
two nodes (which TLC then finds structurally equal).  A value the exporter
does not know how to encode is a machinery error naming the field: never
silence.

Values (tagged; payload field names differ per tag so that TLC never has to
compare an integer with a string):

    {"t":"n","n":pos}          reference to entity node (1-based)
    {"t":"none"} {"t":"b","b":"True"} {"t":"i","i":"3"} {"t":"f","f":"0.5"}
    {"t":"s","s":"x"} {"t":"y","y":"<hex>"}
    {"t":"tup","e":[...]}       tuple / list (ordered)
    {"t":"set","e":[...]}       frozenset (elements sorted by canonical JSON)
    {"t":"map","e":[[k,v],...]} mapping (entries sorted by canonical JSON of k)
    {"t":"rec","c":cls,"e":[[field, v],...]}   non-entity dataclass instance
    {"t":"dt","s":"<f8"} {"t":"type","s":"mod.Class"} {"t":"enum","s":...}
    {"t":"np","s":"float64:1.0"}                numpy scalar
    {"t":"obj","s":"mod.Class"}                 stateless object (reduction ops)
    {"t":"tu","s":"<digest of kernel dump>"}    loopy translation unit
    {"t":"data","oid":"k","sha":..,"dshape":[..],"ddtype":..}  wrapped data:
          oid = identity of the data object (small serial number, as string),
          sha/dshape/ddtype = contents, shape and dtype (for PtKey's Canon)
"""
from __future__ import annotations

import dataclasses
import enum
import hashlib
import json
from typing import Any

import numpy as np

from .common import MachineryError


def _entity_classes() -> tuple[type, ...]:
    from pytato.array import (
        AbstractResultWithNamedArrays,
        Array,
        Axis,
        ReductionDescriptor,
        SparseMatrix,
    )
    from pytato.distributed.nodes import DistributedSend
    from pytato.function import FunctionDefinition
    return (Array, AbstractResultWithNamedArrays, FunctionDefinition, DistributedSend,
            SparseMatrix, Axis, ReductionDescriptor)


def canon_json(v: Any) -> str:
    return json.dumps(v, sort_keys=True)


class FamilyExporter:
    """Exports several roots into ONE node list (so that TLC can compare any
    two of them)."""

    def __init__(self, sorted_maps: bool = False) -> None:
        # sorted_maps: visit mapping entries in the order of their canonical keys,
        # so that node numbering does not depend on insertion order (C17)
        self.sorted_maps = sorted_maps
        self.nodes: list[dict] = []
        self.pos: dict[int, int] = {}
        self.keep: list[Any] = []
        self.data_ids: dict[int, int] = {}
        self._entities = _entity_classes()
        from pytato.array import Axis, ReductionDescriptor
        self._inline = (Axis, ReductionDescriptor)
        self._tu_keys: dict[int, str] = {}

    # -- entities
    def node(self, x: Any, where: str = "root") -> int:
        if id(x) in self.pos:
            return self.pos[id(x)]
        if not isinstance(x, self._entities):
            raise MachineryError(f"not an entity: {type(x).__name__} at {where}")
        if not dataclasses.is_dataclass(x):
            raise MachineryError(f"entity {type(x).__name__} is not a dataclass")
        kind = type(x).__name__
        flds = []
        for f in dataclasses.fields(x):
            flds.append([f.name, self.val(getattr(x, f.name), f"{kind}.{f.name}")])
        self.nodes.append({"kind": kind, "f": flds})
        self.keep.append(x)
        self.pos[id(x)] = len(self.nodes)
        return len(self.nodes)

    # -- values
    def val(self, v: Any, where: str) -> dict:
        from collections.abc import Mapping, Set
        if isinstance(v, self._inline):
            # axes and reduction descriptors have no identity of their own: they are
            # nodes only when they are the object under comparison (a root)
            return {"t": "rec", "c": type(v).__name__,
                    "e": [[f.name, self.val(getattr(v, f.name), f"{where}.{f.name}")]
                          for f in dataclasses.fields(v)]}
        if isinstance(v, self._entities):
            return {"t": "n", "n": self.node(v, where)}
        if v is None:
            return {"t": "none"}
        if isinstance(v, (bool, np.bool_)):
            return {"t": "b", "b": str(bool(v))}
        if isinstance(v, np.generic):
            if isinstance(v, np.integer):
                return {"t": "i", "i": str(int(v))}
            return {"t": "np", "s": f"{v.dtype.str}:{v!r}"}
        if isinstance(v, int):
            return {"t": "i", "i": str(v)}
        if isinstance(v, (float, complex)):
            return {"t": "f", "f": repr(v)}
        if isinstance(v, str):
            return {"t": "s", "s": v}
        if isinstance(v, bytes):
            return {"t": "y", "y": v.hex()}
        if isinstance(v, enum.Enum):
            return {"t": "enum", "s": f"{type(v).__qualname__}.{v.name}"}
        if isinstance(v, np.dtype):
            return {"t": "dt", "s": v.str if v.fields is None else str(v.descr)}
        if isinstance(v, type):
            return {"t": "type", "s": f"{v.__module__}.{v.__qualname__}"}
        if isinstance(v, np.ndarray):
            oid = self.data_ids.setdefault(id(v), len(self.data_ids) + 1)
            self.keep.append(v)
            a = np.ascontiguousarray(v)
            return {"t": "data", "oid": str(oid),
                    "sha": hashlib.sha256(a.tobytes()).hexdigest()[:24],
                    "dshape": [str(int(s)) for s in v.shape], "ddtype": v.dtype.str}
        if isinstance(v, (tuple, list)):
            return {"t": "tup", "e": [self.val(e, where + "[]") for e in v]}
        if isinstance(v, Mapping):
            if self.sorted_maps:
                keyed = sorted(((self.val(k, where + ".key"), x) for k, x in v.items()),
                               key=lambda kx: canon_json(kx[0]))
                return {"t": "map", "e": [[k, self.val(x, where + "[..]")]
                                          for k, x in keyed]}
            ents = [[self.val(k, where + ".key"), self.val(x, where + f"[{k!r}]")]
                    for k, x in v.items()]
            ents.sort(key=lambda kv: canon_json(kv[0]))
            return {"t": "map", "e": ents}
        if isinstance(v, Set):
            els = [self.val(e, where + "{}") for e in v]
            els.sort(key=canon_json)
            return {"t": "set", "e": els}
        try:
            import loopy as lp
            if isinstance(v, lp.TranslationUnit):
                k = self._tu_keys.get(id(v))
                if k is None:
                    # the identity of a translation unit: digest of an order-preserving,
                    # set-sorting dump of its kernels.  NOT a persistent-hash key: key
                    # builders cache digests on the objects they visit, so a key taken
                    # here could be contaminated by the key builder under test.
                    from .proclib import kernel_text
                    k = hashlib.sha256(kernel_text(v, {}).encode()).hexdigest()[:24]
                    self._tu_keys[id(v)] = k
                    self.keep.append(v)
                return {"t": "tu", "s": k}
        except ImportError:      # pragma: no cover
            pass
        from pytato.reductions import ReductionOperation
        if isinstance(v, ReductionOperation) and not (
                set(vars(v)) - {"_pytools_persistent_hash_digest"}):
            return {"t": "obj", "s": f"{type(v).__module__}.{type(v).__qualname__}"}
        if dataclasses.is_dataclass(v) and not isinstance(v, type):
            cls = f"{type(v).__module__}.{type(v).__qualname__}"
            return {"t": "rec", "c": cls,
                    "e": [[f.name, self.val(getattr(v, f.name), f"{where}.{f.name}")]
                          for f in dataclasses.fields(v)]}
        raise MachineryError(
            f"cannot export value of type {type(v).__module__}.{type(v).__name__} "
            f"found in field {where}")


def reachable_entities(root: Any) -> list[Any]:
    """Every entity reachable from *root* through dataclass fields (reflective)."""
    ents = _entity_classes()
    seen: dict[int, Any] = {}

    def walk(v: Any) -> None:
        from collections.abc import Mapping, Set
        if isinstance(v, ents):
            if id(v) in seen:
                return
            seen[id(v)] = v
            for f in dataclasses.fields(v):
                walk(getattr(v, f.name))
        elif isinstance(v, (tuple, list)) or (isinstance(v, Set) and not isinstance(v, str)):
            for e in v:
                walk(e)
        elif isinstance(v, Mapping):
            for k, e in v.items():
                walk(k)
                walk(e)
        elif dataclasses.is_dataclass(v) and not isinstance(v, type):
            for f in dataclasses.fields(v):
                walk(getattr(v, f.name))
    walk(root)
    return list(seen.values())


def stale_hash_caches(root: Any) -> list[str]:
    """Class names of reachable entities that carry a cached ``_hash_value``."""
    out = []
    for e in reachable_entities(root):
        d = getattr(e, "__dict__", {})
        if "_hash_value" in d:
            out.append(type(e).__name__)
    return out
