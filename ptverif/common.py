"""Shared plumbing for every check: scratch space, seeds, evidence files,
replay files, the known-findings protocol and the exit-code contract.

Exit codes: 0 property held on everything explored (possibly with
KNOWN-FINDING lines), 1 at least one VIOLATION line was printed, 2 the
machinery itself failed (TLC crashed, export error, oracle disagreement).
"""
from __future__ import annotations

import atexit
import hashlib
import json
import os
import shutil
import sys
import tempfile
import time
from dataclasses import dataclass, field
from typing import Any

VERIF = os.path.dirname(os.path.dirname(os.path.abspath(__file__)))
REPO = os.environ.get("PTVERIF_REPO", "/repo")
SPEC_DIR = os.path.join(VERIF, "spec")
# (mutation experiments against a scratch worktree must not overwrite the
# evidence of /repo: PTVERIF_OUT redirects evidence and replay files)
_OUT = os.environ.get("PTVERIF_OUT") or VERIF
EVIDENCE_DIR = os.path.join(_OUT, "evidence")
REPLAY_DIR = os.path.join(_OUT, "replay")
FINDINGS_FILE = os.path.join(VERIF, "known_findings.jsonl")
NCPU = min(16, os.cpu_count() or 1)


class MachineryError(Exception):
    """The check could not be carried out (never a verdict on pytato)."""


# --------------------------------------------------------------------------
# scratch

_scratch: str | None = None


# Statement coverage of pytato under the checks (a development aid, off unless
# COVERAGE_PROCESS_START names a coverage.py configuration): which lines of the
# code under test no check executes at all.
if os.environ.get("COVERAGE_PROCESS_START"):
    try:
        import coverage as _coverage
        _coverage.process_startup()
    except Exception:      # noqa: BLE001
        pass

def scratch() -> str:
    """A private scratch directory, removed at exit.  Never under /verif or
    /repo; TMPDIR and XDG_CACHE_HOME are pointed into it so that loopy's
    tmp_loopy* build directories and pytools' persistent dicts vanish too."""
    global _scratch
    if _scratch is None:
        base = os.environ.get("VERIF_SCRATCH") or "/var/tmp"
        os.makedirs(base, exist_ok=True)
        _scratch = tempfile.mkdtemp(prefix="ptverif.", dir=base)
        os.makedirs(os.path.join(_scratch, "tmp"), exist_ok=True)
        os.makedirs(os.path.join(_scratch, "cache"), exist_ok=True)
        os.environ["TMPDIR"] = os.path.join(_scratch, "tmp")
        tempfile.tempdir = os.path.join(_scratch, "tmp")
        os.environ["XDG_CACHE_HOME"] = os.path.join(_scratch, "cache")
        pid = os.getpid()

        def _cleanup(path: str = _scratch, owner: int = pid) -> None:
            if os.getpid() == owner and not os.environ.get("VERIF_KEEP_SCRATCH"):
                shutil.rmtree(path, ignore_errors=True)
        atexit.register(_cleanup)
    return _scratch


def seed() -> int:
    try:
        return int(os.environ.get("VERIF_SEED", "0"))
    except ValueError:
        return 0


def ensure_repo_on_path() -> None:
    """Import pytato from REPO (default /repo; PTVERIF_REPO selects a scratch
    worktree for mutation experiments) in this process and in children."""
    if REPO not in sys.path:
        sys.path.insert(0, REPO)
    pp = [p for p in os.environ.get("PYTHONPATH", "").split(os.pathsep) if p]
    for d in (VERIF, REPO):
        if d in pp:
            pp.remove(d)
        pp.insert(0, d)
    os.environ["PYTHONPATH"] = os.pathsep.join(pp)


def sha(obj: Any) -> str:
    return hashlib.sha256(
        json.dumps(obj, sort_keys=True, default=str).encode()).hexdigest()[:16]


# --------------------------------------------------------------------------
# known findings

def load_findings(prop: str) -> tuple[list[dict], list[dict]]:
    """-> (open findings, fixed entries) for *prop*.  Read-only."""
    open_, fixed = [], []
    if os.path.exists(FINDINGS_FILE):
        with open(FINDINGS_FILE) as f:
            for line in f:
                line = line.strip()
                if not line or line.startswith("#"):
                    continue
                rec = json.loads(line)
                if rec.get("property") != prop:
                    continue
                (fixed if rec.get("status") == "fixed" else open_).append(rec)
    return open_, fixed


# --------------------------------------------------------------------------
# the result of one check run

@dataclass
class Run:
    prop: str
    tier: str
    level: str
    t0: float = field(default_factory=time.time)
    violations: list[dict] = field(default_factory=list)
    known_hits: dict[str, int] = field(default_factory=dict)
    coverage: dict[str, Any] = field(default_factory=dict)
    assumptions: list[str] = field(default_factory=list)
    samples: list[Any] = field(default_factory=list)
    _seen_keys: set = field(default_factory=set)
    _findings: list[dict] | None = None

    # -- counting helpers
    def add(self, key: str, n: int = 1) -> None:
        self.coverage[key] = self.coverage.get(key, 0) + n

    def sample(self, s: Any, cap: int = 6) -> None:
        if len(self.samples) < cap:
            self.samples.append(s)

    # -- findings
    def findings(self) -> list[dict]:
        if self._findings is None:
            self._findings = load_findings(self.prop)[0]
        return self._findings

    def violation(self, key: str, what: str, record: Any = None,
                  observed: Any = None, expected: Any = None,
                  sig: dict | None = None) -> None:
        """Report one failing case.  *key* identifies the failing input /
        call site / history (stable across runs); *sig* is a dict of
        attributes that known-findings entries match on (all items of an
        entry's "match" dict must be equal in *sig*)."""
        sig = dict(sig or {})
        sig.setdefault("key", key)
        for fnd in self.findings():
            m = fnd.get("match", {})
            if m and all(sig.get(k) == v for k, v in m.items()):
                fid = fnd["id"]
                self.known_hits[fid] = self.known_hits.get(fid, 0) + 1
                return
        if key in self._seen_keys:
            return
        self._seen_keys.add(key)
        self.violations.append({"key": key, "what": what, "record": record,
                                "observed": observed, "expected": expected,
                                "sig": sig})

    # -- finishing
    def finish(self) -> int:
        os.makedirs(EVIDENCE_DIR, exist_ok=True)
        wall = time.time() - self.t0
        for fnd in self.findings():
            n = self.known_hits.get(fnd["id"], 0)
            if n:
                print(f"KNOWN-FINDING: property={self.prop} {fnd['id']}: "
                      f"{fnd['what']} ({n} case(s) this run)")
        paths = []
        if self.violations:
            d = os.path.join(REPLAY_DIR, self.prop)
            os.makedirs(d, exist_ok=True)
            for v in self.violations[:50]:
                p = os.path.join(d, sha(v["key"]) + ".json")
                with open(p, "w") as f:
                    json.dump({"property": self.prop, "tier": self.tier,
                               "seed": seed(), **v,
                               "cmd": f"/venv/bin/python checks/run.py "
                                      f"{self.prop} --replay {p}"},
                              f, indent=1, default=str)
                paths.append(p)
                print(f"VIOLATION property={self.prop} replay={p}")
                print(f"  {v['what']}"[:600])
            if len(self.violations) > 50:
                print(f"  ... and {len(self.violations) - 50} more violations")
            groups: dict[str, int] = {}
            for v in self.violations:
                g = json.dumps({k: x for k, x in v["sig"].items()
                                if k not in ("key", "id")}, sort_keys=True, default=str)
                groups[g] = groups.get(g, 0) + 1
            print("violations grouped by signature:")
            for g, n in sorted(groups.items(), key=lambda kv: -kv[1])[:40]:
                print(f"  {n:6d}  {g}")
        cov = dict(self.coverage)
        cov.setdefault("samples", self.samples or ["(none recorded)"])
        cov["known_findings_hit"] = dict(self.known_hits)
        ev = {
            "property_id": self.prop,
            "tier": self.tier,
            "seed": seed(),
            "level": self.level,
            "coverage": cov,
            "assumptions": self.assumptions,
            "wall_s": round(wall, 2),
            "violations": len(self.violations),
        }
        with open(os.path.join(EVIDENCE_DIR, self.prop + ".json"), "w") as f:
            json.dump(ev, f, indent=1, default=str)
        status = "VIOLATED" if self.violations else "held"
        print(f"[{self.prop}/{self.tier}] {status}; wall={wall:.1f}s; "
              + ", ".join(f"{k}={v}" for k, v in cov.items()
                          if isinstance(v, (int, float, bool))))
        return 1 if self.violations else 0


# --------------------------------------------------------------------------
# crash-robust parallel map (generated code is executed in worker processes;
# a kernel that reads out of bounds may kill its worker)

def _one_in_child(func: Any, item: Any, conn: Any) -> None:
    try:
        conn.send(("ok", func([item])[0]))
    except BaseException as ex:      # noqa: BLE001
        conn.send(("exc", repr(ex)))
    finally:
        conn.close()


def robust_map(func: Any, items: list, *, nproc: int = NCPU, chunk: int | None = None,
               crashed: Any = None, timeout: float = 600) -> list:
    """func maps a LIST of items to a list of results (same order).  Runs
    chunks in a process pool; if a worker dies (segfault in generated code) or
    a chunk exceeds *timeout*, the affected items are re-run one per process
    and those that kill / hang their process get crashed(item, reason) as
    result (default: {"id": item["id"], "crashed": reason})."""
    import multiprocessing as mp
    from concurrent.futures import ProcessPoolExecutor, TimeoutError as FTimeout
    from concurrent.futures.process import BrokenProcessPool
    if not items:
        return []
    if crashed is None:
        def crashed(item: Any, reason: str) -> Any:
            return {"id": item.get("id") if isinstance(item, dict) else None,
                    "crashed": reason}
    k = chunk or max(1, len(items) // (nproc * 4))
    chunks = [items[i:i + k] for i in range(0, len(items), k)]
    results: dict[int, list] = {}
    redo: list[int] = []
    try:
        with ProcessPoolExecutor(max_workers=nproc) as ex:
            futs = {i: ex.submit(func, c) for i, c in enumerate(chunks)}
            for i, f in futs.items():
                try:
                    results[i] = f.result(timeout=timeout)
                except (BrokenProcessPool, FTimeout):
                    redo.append(i)
                    for j, g in futs.items():
                        if j not in results and j not in redo:
                            try:
                                results[j] = g.result(timeout=1)
                            except Exception:      # noqa: BLE001
                                redo.append(j)
                    break
            if redo:
                for p in list(getattr(ex, "_processes", {}).values()):
                    try:
                        p.kill()
                    except Exception:      # noqa: BLE001
                        pass
    except BrokenProcessPool:
        redo = [i for i in range(len(chunks)) if i not in results]
    for i in sorted(set(redo)):
        out = []
        for item in chunks[i]:
            parent, child = mp.Pipe(duplex=False)
            pr = mp.Process(target=_one_in_child, args=(func, item, child))
            pr.start()
            child.close()
            res: Any = None
            if parent.poll(timeout):
                try:
                    kind, val = parent.recv()
                    res = val if kind == "ok" else crashed(item, "exception in isolated run: "
                                                           + str(val)[:300])
                except EOFError:
                    res = None
            pr.join(5)
            if pr.is_alive():
                pr.kill()
                pr.join()
                res = crashed(item, f"no result within {timeout}s (hung)")
            elif res is None:
                res = crashed(item, f"worker process died (exit code {pr.exitcode})")
            out.append(res)
        results[i] = out
    return [r for i in range(len(chunks)) for r in results[i]]
