"""Whole-program families for C18: a program of the C17 list (as data), built
twice, pickled here and in another process, and changed in ONE node found by
a reflective walk (a tag, an axis tag, a placeholder name / dtype, one element
or the dtype of wrapped data, a communication tag, a roll shift, a reshape
order).  Records have the shape of eqlib.eval_family's, so spec/PtKey.tla
judges them the same way.
"""
from __future__ import annotations

import base64
import dataclasses
import pickle
from typing import Any

import numpy as np

from . import eqlib
from .common import MachineryError
from .eqexport import FamilyExporter, _entity_classes, reachable_entities


def build_root(p: dict) -> Any:
    import pytato as pt
    if p["kind"] == "dist":
        from . import distharness
        return distharness.build_rank(p["prog"], p.get("rank", 0))[0]
    from . import proclib
    return pt.make_dict_of_named_arrays(proclib.build_outputs(p))


def substitute(root: Any, target: Any, new: Any) -> Any:
    """*root* with the node *target* (by identity) replaced by *new*; every
    node on a path to it is rebuilt with dataclasses.replace, nothing else."""
    ents = _entity_classes()
    memo: dict[int, Any] = {}

    def rv(v: Any) -> Any:
        from collections.abc import Mapping
        if isinstance(v, ents):
            return rn(v)
        if isinstance(v, tuple):
            nv = tuple(rv(e) for e in v)
            return v if all(a is b for a, b in zip(nv, v)) else nv
        if isinstance(v, Mapping):
            items = [(k, rv(e)) for k, e in v.items()]
            if all(a[1] is b for a, b in zip(items, v.values())):
                return v
            return dict(items) if type(v) is dict else eqlib.cdict(items)
        if dataclasses.is_dataclass(v) and not isinstance(v, type) \
                and type(v).__module__.startswith("pytato"):
            ch = {}
            for f in dataclasses.fields(v):
                old = getattr(v, f.name)
                nw = rv(old)
                if nw is not old:
                    ch[f.name] = nw
            return dataclasses.replace(v, **ch) if ch else v
        return v

    def rn(x: Any) -> Any:
        if x is target:
            return new
        if id(x) in memo:
            return memo[id(x)]
        ch = {}
        for f in dataclasses.fields(x):
            old = getattr(x, f.name)
            nw = rv(old)
            if nw is not old:
                ch[f.name] = nw
        res = eqlib.replace(x, **ch) if ch else x
        memo[id(x)] = res
        return res
    return rn(root)


def candidate_mutations(root: Any) -> list[tuple[int, str]]:
    """(index of the entity in the reflective walk, what) for every single-node
    change the harness knows how to make."""
    from pytato.array import (
        Array,
        Axis,
        DataWrapper,
        Placeholder,
        ReductionDescriptor,
        Reshape,
        Roll,
    )
    from pytato.distributed.nodes import DistributedRecv, DistributedSend
    from . import usertags
    out = []
    for i, e in enumerate(reachable_entities(root)):
        if isinstance(e, (Axis, ReductionDescriptor)):
            continue
        names = {f.name for f in dataclasses.fields(e)}
        if "tags" in names:
            out += [(i, "tags"), (i, "tags3")]
            try:        # through the public API, on a node of an already keyed graph
                e.tagged(usertags.BazTag(40))
                out += [(i, "api:tagged"), (i, "api:retagged")]
            except Exception:       # noqa: BLE001  (this class cannot be re-tagged)
                pass
        if "axes" in names and isinstance(e, Array) and len(e.axes) > 0:
            out += [(i, "axes"), (i, "axtags3")]
            try:
                e.with_tagged_axis(0, usertags.BazTag(40))
                out.append((i, "api:axis"))
            except Exception:       # noqa: BLE001
                pass
        if isinstance(e, Placeholder):
            out += [(i, "name"), (i, "dtype")]
        if isinstance(e, DataWrapper) and isinstance(e.data, np.ndarray) and e.data.size:
            out += [(i, "data:elem"), (i, "data:copy")]
            if e.data.dtype.itemsize == 8:
                out.append((i, "data:dtype"))
            if e.data.ndim >= 2 and not np.array_equal(
                    e.data, np.ascontiguousarray(e.data).reshape(-1).reshape(
                        e.data.shape, order="F")):
                # memory layout: the same values stored Fortran-ordered (same Canon),
                # and the same BYTES read Fortran-ordered (other values: other Canon)
                out += [(i, "data:forder"), (i, "data:fbytes")]
        if isinstance(e, Roll):
            out.append((i, "shift"))
        if isinstance(e, Reshape):
            out.append((i, "order"))
        if isinstance(e, (DistributedSend, DistributedRecv)):
            out.append((i, "comm_tag"))
    return out


def mutate(root: Any, idx: int, what: str) -> Any:
    from pytato.array import Axis

    from . import usertags
    e = reachable_entities(root)[idx]
    if what == "tags":
        t = eqlib.foo() if eqlib.foo() not in e.tags else usertags.BazTag(99)
        new = eqlib.replace(e, tags=e.tags | {t})
    elif what == "axes":
        t = eqlib.foo() if eqlib.foo() not in e.axes[0].tags else usertags.BazTag(99)
        new = eqlib.replace(e, axes=(Axis(e.axes[0].tags | {t}), *e.axes[1:]))
    elif what == "tags3":
        from . import eqtags
        new = eqlib.replace(e, tags=e.tags | eqtags.several(3, "p"))
    elif what == "axtags3":
        from . import eqtags
        new = eqlib.replace(e, axes=(Axis(e.axes[0].tags | eqtags.several(3, "q")),
                                     *e.axes[1:]))
    elif what == "api:tagged":
        new = e.tagged(usertags.BazTag(41))
    elif what == "api:retagged":
        # tag, key the intermediate object, tag again and remove the first tag
        t1 = e.tagged(usertags.BazTag(42))
        eqlib.keyof(t1)
        new = t1.tagged(usertags.BazTag(43)).without_tags(usertags.BazTag(42))
    elif what == "api:axis":
        new = e.with_tagged_axis(0, usertags.BazTag(44))
    elif what == "name":
        new = eqlib.replace(e, name=e.name + "_renamed")
    elif what == "dtype":
        new = eqlib.replace(e, dtype=np.dtype(np.float32 if e.dtype != np.float32
                                              else np.float64))
    elif what == "data:copy":          # same contents in another object: same Canon
        new = eqlib.replace(e, data=e.data.copy())
    elif what == "data:elem":
        d = e.data.copy()
        flat = d.reshape(-1)
        flat[0] = flat[0] + 1 if d.dtype.kind != "b" else ~flat[0]
        new = eqlib.replace(e, data=d)
    elif what == "data:dtype":         # identical bytes, other dtype
        other = np.int64 if e.data.dtype.kind == "f" else np.float64
        new = eqlib.replace(e, data=e.data.copy().view(other))
    elif what == "data:forder":
        new = eqlib.replace(e, data=np.asfortranarray(e.data.copy()))
    elif what == "data:fbytes":
        new = eqlib.replace(e, data=np.ascontiguousarray(e.data).reshape(-1).copy().reshape(
            e.data.shape, order="F"))
    elif what == "shift":
        new = eqlib.replace(e, shift=e.shift + 1)
    elif what == "order":
        new = eqlib.replace(e, order="F" if e.order == "C" else "C")
    elif what == "comm_tag":
        new = eqlib.replace(e, comm_tag=("changed", e.comm_tag))
    else:
        raise MachineryError(f"unknown program mutation {what}")
    return substitute(root, e, new), type(e).__name__


def pick_mutations(root: Any, nmut: int, pid: str) -> list[tuple[int, str]]:
    cands = candidate_mutations(root)
    import zlib
    rng = np.random.default_rng(zlib.crc32(pid.encode()))
    # every kind of change at least once, then fill up at random
    chosen: list[tuple[int, str]] = []
    by_what: dict[str, list] = {}
    for c in cands:
        by_what.setdefault(c[1], []).append(c)
    whats = sorted(by_what)
    rot = zlib.crc32(pid.encode()) % max(1, len(whats))
    for what in whats[rot:] + whats[:rot]:       # another kind of change first per program
        lst = by_what[what]
        chosen.append(lst[int(rng.integers(len(lst)))])
    rest = [c for c in cands if c not in chosen]
    rng.shuffle(rest)
    chosen += [tuple(c) for c in rest]
    return chosen[:nmut + 6]


def h_pickles(programs: list[dict]) -> dict[str, str]:
    out = {}
    for p in programs:
        o = build_root(p)
        eqlib.safe_hash(o)
        eqlib.keyof(o)
        out[p["id"]] = base64.b64encode(pickle.dumps(o)).decode()
    return out


def h_progfams(programs: list[dict], nmut: int, xblobs: dict[str, str]) -> list[dict]:
    recs = []
    for p in programs:
        base = build_root(p)
        key_first = eqlib.keyof(base)
        objs = [base, build_root(p), pickle.loads(pickle.dumps(base)),
                pickle.loads(base64.b64decode(xblobs[p["id"]]))]
        names = ["base", "rebuild", "pick", "xpick"]
        for idx, what in pick_mutations(base, nmut, p["id"]):
            m, cls = mutate(base, idx, what)
            objs.append(m)
            names.append(f"mut:{cls}.{what}#{idx}")
        n = len(objs)
        # prediction: the four unchanged members have one canonical form; a
        # changed member differs from them, except data:copy (same contents);
        # changed members among each other are left to TLC
        same = [nm in ("base", "rebuild", "pick", "xpick") or ".data:copy#" in nm
                or ".data:forder#" in nm      # same values, other memory layout
                for nm in names]
        canon = [[bool(same[i] and same[j]) or i == j for j in range(n)] for i in range(n)]
        known = [[bool(same[i] or same[j]) or i == j for j in range(n)] for i in range(n)]
        ex = FamilyExporter()
        roots = [ex.node(o) for o in objs]
        keys = [eqlib.keyof(o) for o in objs]
        pkeys = []
        for o in objs:
            try:
                pkeys.append(eqlib.keyof(pickle.loads(pickle.dumps(o))))
            except Exception as exn:       # noqa: BLE001
                pkeys.append(f"error:{type(exn).__name__}")
        recs.append({"fam": "prog:" + p["id"], "kind": "program", "ctx": [p["id"]],
                     "names": names, "nodes": ex.nodes, "roots": roots, "key": keys,
                     "pkey": pkeys, "key_base_first": key_first,
                     "canonM": canon, "strictM": canon, "known": known})
    return recs


HANDLERS = {"pickles": h_pickles, "progfams": h_progfams}
