"""Tag assignments for C07: tags are attached IN PLACE to nodes of an
existing DAG (every user of the node sees the tagged node), chosen by a
seeded rule."""
from __future__ import annotations

from typing import Any

import numpy as np

KINDS = ["stored", "inlined", "subst", "prefix", "named", "user", "axis", "redn"]


def apply(outs: dict[str, Any], spec: dict) -> tuple[dict[str, Any], dict]:
    """spec = {"seed": int, "kinds": [...], "p": probability}.  Returns the
    tagged outputs and a summary {kind: count}."""
    import pytato as pt
    from pytato.tags import ImplInlined, ImplStored, Named, PrefixNamed
    from pytato.target.loopy import ImplSubstitution

    from . import usertags

    rng = np.random.default_rng(spec["seed"])
    kinds = spec["kinds"]
    p = spec.get("p", 0.5)
    counts: dict[str, int] = {}
    fresh = [0]

    def bump(k: str) -> None:
        counts[k] = counts.get(k, 0) + 1

    def f(x: Any) -> Any:
        if not isinstance(x, pt.Array) or isinstance(x, pt.InputArgumentBase):
            if isinstance(x, (pt.Placeholder, pt.DataWrapper)) and "user" in kinds \
                    and rng.random() < p / 2:
                bump("user_on_input")
                return x.tagged(usertags.FooTag())
            return x
        if isinstance(x, pt.NamedArray):
            # a result of a loopy call is a non-input array like any other
            if "user" in kinds and rng.random() < p / 2:
                bump("user_on_named")
                return x.tagged(usertags.FooTag())
            return x
        if rng.random() >= p:
            return x
        k = kinds[int(rng.integers(len(kinds)))]
        if k == "stored":
            bump(k)
            return x.tagged(ImplStored())
        if k == "inlined":
            bump(k)
            return x.tagged(ImplInlined())
        if k == "subst":
            # substitution rules cannot hold reductions with temporaries
            bump(k)
            return x.tagged(ImplSubstitution())
        if k == "prefix":
            bump(k)
            return x.tagged((ImplStored(), PrefixNamed("pfx")))
        if k == "named":
            bump(k)
            fresh[0] += 1
            return x.tagged((ImplStored(), Named(f"named_tmp_{fresh[0]}")))
        if k == "user":
            bump(k)
            return x.tagged((usertags.FooTag(), usertags.BazTag(int(rng.integers(3)))))
        if k == "axis":
            if x.ndim == 0:
                return x
            bump(k)
            # the axis is named by a non-negative or by the equivalent NEGATIVE index (both
            # address axes[iaxis]); the result is an array of the same rank with one Axis
            # per axis, the tag on the axis that was meant
            ax = int(rng.integers(x.ndim))
            y = x.with_tagged_axis(ax - x.ndim if rng.random() < 0.5 else ax, usertags.BarTag())
            if len(y.axes) != y.ndim or not y.axes[ax].tags_of_type(usertags.BarTag):
                raise ValueError(f"with_tagged_axis({ax - x.ndim} / {ax}) on a rank-{x.ndim} "
                                 f"array returns {len(y.axes)} axes, tag on "
                                 f"{[k for k, a in enumerate(y.axes) if a.tags]}")
            return y
        if k == "redn":
            if isinstance(x, pt.IndexLambda) and x.var_to_reduction_descr:
                bump(k)
                v = sorted(x.var_to_reduction_descr)[0]
                return x.with_tagged_reduction(v, usertags.FooTag())
            if isinstance(x, pt.Einsum) and x.redn_axis_to_redn_descr:
                return x
            return x
        return x

    expr = pt.transform.deduplicate(pt.make_dict_of_named_arrays(outs))
    new = pt.transform.map_and_copy(expr, f)
    return {k: new[k].expr for k in outs}, counts


def strip_all(outs: dict[str, Any]) -> dict[str, Any]:
    """All tags removed from arrays, axes and reduction descriptors."""
    import pytato as pt
    from pytato.array import Axis, ReductionDescriptor

    def f(x: Any) -> Any:
        if not isinstance(x, pt.Array) or isinstance(x, pt.NamedArray):
            return x
        kw: dict[str, Any] = {}
        if x.tags:
            kw["tags"] = frozenset()
        if any(ax.tags for ax in x.axes):
            kw["axes"] = tuple(Axis(frozenset()) for _ in x.axes)
        if isinstance(x, pt.IndexLambda) and any(
                d.tags for d in x.var_to_reduction_descr.values()):
            from constantdict import constantdict
            kw["var_to_reduction_descr"] = constantdict(
                {k: ReductionDescriptor(frozenset()) for k in x.var_to_reduction_descr})
        return x.copy(**kw) if kw else x

    expr = pt.transform.deduplicate(pt.make_dict_of_named_arrays(outs))
    new = pt.transform.map_and_copy(expr, f)
    return {k: new[k].expr for k in outs}
