"""Function-definition events of the real cached mappers, for validation against
spec/PtFnCache.tla (module PtFnCacheTrace).

Observation is from OUTSIDE (no hook in /repo): for the duration of one call the three
``rec_function_definition`` implementations of pytato.transform (Mapper, CachedMapper,
CachedWalkMapper) are wrapped; an event is logged per spec action:

    ["hit", g]      CachedMapper / CachedWalkMapper answered from the function cache /
                    the visited set (the base implementation was not reached)
    ["enter", g]    Mapper.rec_function_definition dispatches to map_function_definition
    ["return", g]   ... which returned

g is the number of the definition in a REFLECTIVE walk over dataclass fields (classes of
``==``; callees numbered after their callers), which also yields the call structure
``calls[f]`` = the definitions body f calls directly.
"""
from __future__ import annotations

import dataclasses
from typing import Any, Callable


# --------------------------------------------------------------------------
# reflective call structure

def _is_fn(o: Any) -> bool:
    from pytato.function import FunctionDefinition
    return isinstance(o, FunctionDefinition)


def call_structure(root: Any, by: str = "eq") -> tuple[list[Any], list[list[int]]]:
    """-> (definitions by number 1.., calls) with calls[f] for f = 0 (the caller's
    graph), 1..nf; numbered so that every callee's number exceeds its callers'."""
    from pytato.function import Call
    defs: list[Any] = []                 # representatives of the classes of ==
    raw_calls: dict[int, set[int]] = {}  # class index (0-based, -1 = top) -> callees

    def cls_of(d: Any) -> int:
        for k, e in enumerate(defs):
            if e is d or (by == "eq" and e == d):
                return k
        defs.append(d)
        return len(defs) - 1

    def walk_body(objs: list[Any], ns: int) -> None:
        seen: set[int] = set()
        callees = raw_calls.setdefault(ns, set())
        stack = list(objs)
        while stack:
            o = stack.pop()
            if o is None or isinstance(o, (str, int, float, complex, bool, bytes, type)):
                continue
            if id(o) in seen:
                continue
            seen.add(id(o))
            if _is_fn(o):
                continue                 # entered through Call.function below
            if isinstance(o, Call):
                g = cls_of(o.function)
                first = g not in raw_calls
                callees.add(g)
                if first:
                    walk_body(list(o.function.returns.values()), g)
            if isinstance(o, (tuple, list, frozenset, set)):
                stack.extend(o)
            elif hasattr(o, "items") and callable(o.items):
                try:
                    stack.extend(v for _, v in o.items())
                except Exception:      # noqa: BLE001
                    pass
            elif dataclasses.is_dataclass(o) and not isinstance(o, type):
                for f in dataclasses.fields(o):
                    try:
                        stack.append(getattr(o, f.name))
                    except Exception:      # noqa: BLE001
                        pass
            if hasattr(o, "_data") and isinstance(getattr(o, "_data"), dict):
                stack.extend(o._data.values())
            if hasattr(o, "_container"):
                stack.append(o._container)
    walk_body([root], -1)
    # topological numbering: callers first
    order: list[int] = []
    state: dict[int, int] = {}

    def dfs(k: int) -> None:
        if state.get(k) == 2:
            return
        state[k] = 1
        for g in sorted(raw_calls.get(k, ())):
            dfs(g)
        state[k] = 2
        order.append(k)
    dfs(-1)
    order = [k for k in reversed(order) if k != -1]
    number = {k: i + 1 for i, k in enumerate(order)}
    number[-1] = 0
    calls = [[] for _ in range(len(order) + 1)]
    for k, cs in raw_calls.items():
        if k in number:
            calls[number[k]] = sorted(number[g] for g in cs)
    return [defs[k] for k in order], calls


# --------------------------------------------------------------------------
# observation

class Observed:
    def __init__(self) -> None:
        self.events: list[tuple[str, Any]] = []
        self.exc: BaseException | None = None


def _all_mapper_classes() -> list[type]:
    import pytato.analysis                    # noqa: F401  (load the subclasses)
    import pytato.transform as T
    import pytato.transform.calls            # noqa: F401
    import pytato.transform.materialize      # noqa: F401
    import pytato.transform.metadata         # noqa: F401
    out, todo = [], [T.Mapper]
    while todo:
        c = todo.pop()
        if c in out:
            continue
        out.append(c)
        todo.extend(c.__subclasses__())
    return out


def observe(fn: Callable[[Any], Any], root: Any) -> Observed:
    """Events carry the FAMILY they belong to: a mapper object met before keeps its
    family; a mapper met for the first time while a body is being traversed by a mapper
    of the SAME class joins that family (a clone_for_callee clone -- or a fresh mapper
    that should have been one); any other mapper starts a family of its own, rooted in
    the body that is open at that moment (0: the caller's graph)."""
    import pytato.transform as T
    obs = Observed()
    marks: list[dict] = []
    open_frames: list[dict] = []         # bodies being traversed: {"fam", "cls", "expr"}
    fam_of: dict[int, int] = {}
    keep: list[Any] = []                 # keeps mapper objects alive: ids stay unique
    obs.families = []                    # type: ignore[attr-defined]  # [{"root": expr | None}]

    def family(m: Any) -> int:
        if id(m) in fam_of:
            return fam_of[id(m)]
        keep.append(m)
        if open_frames and type(m) is open_frames[-1]["cls"]:
            fam_of[id(m)] = open_frames[-1]["fam"]
        else:
            obs.families.append({"root": open_frames[-1]["expr"] if open_frames else None})
            fam_of[id(m)] = len(obs.families) - 1
        return fam_of[id(m)]
    originals: list[tuple[type, Any]] = []

    def base_wrapper(orig: Any) -> Any:
        def base(self: Any, expr: Any, *a: Any, **kw: Any) -> Any:
            mine = marks[-1] if marks and marks[-1]["self"] is self \
                and marks[-1]["expr"] is expr and not marks[-1]["entered"] else None
            if mine is None:
                return orig(self, expr, *a, **kw)      # an uncached mapper: not observed
            mine["entered"] = True
            fam = mine["fam"]
            obs.events.append(("enter", expr, fam))
            open_frames.append({"fam": fam, "cls": type(self), "expr": expr})
            try:
                res = orig(self, expr, *a, **kw)
            finally:
                open_frames.pop()
            obs.events.append(("return", expr, fam))
            return res
        return base

    def wrap(orig: Any) -> Any:
        def w(self: Any, expr: Any, *a: Any, **kw: Any) -> Any:
            if marks and marks[-1]["self"] is self and marks[-1]["expr"] is expr \
                    and not marks[-1]["entered"]:
                # the same call one level up the MRO (a generated rec_function_definition
                # of an optimised class calling the one it overrides)
                return orig(self, expr, *a, **kw)
            m = {"self": self, "expr": expr, "entered": False, "fam": family(self)}
            marks.append(m)
            try:
                res = orig(self, expr, *a, **kw)
            finally:
                marks.pop()
            if not m["entered"]:
                obs.events.append(("hit", expr, m["fam"]))
            return res
        return w
    for c in _all_mapper_classes():
        if "rec_function_definition" in c.__dict__:
            orig = c.__dict__["rec_function_definition"]
            originals.append((c, orig))
            setattr(c, "rec_function_definition",
                    base_wrapper(orig) if c is T.Mapper else wrap(orig))
    try:
        fn(root)
    except BaseException as ex:      # noqa: BLE001
        obs.exc = ex
    finally:
        for c, orig in originals:
            setattr(c, "rec_function_definition", orig)
    return obs


def record(rid: str, fn: Callable[[Any], Any], root: Any) -> dict:
    """-> {"status": ..., "records": TLC records}: per mapper family TWO records, the
    definitions numbered by classes of == (id .../eq) and by object identity (.../id): a
    family keys its function cache one way or the other (NodeCountMapper with
    count_duplicates=True keys by id), and is accepted if either reading is a behaviour
    of the specification."""
    obs = observe(fn, root)
    if obs.exc is not None:
        return {"status": "raises:" + type(obs.exc).__name__, "records": [],
                "msg": str(obs.exc)[:160]}
    if not obs.events:
        return {"status": "does_not_enter_functions", "records": []}
    recs = []
    for by in ("eq", "id"):
        defs, calls = call_structure(root, by)

        def num(d: Any, defs: list = defs, by: str = by) -> int:
            for k, e in enumerate(defs):
                if e is d or (by == "eq" and e == d):
                    return k + 1
            return -1     # a definition the reflective walk does not know (a rebuilt body
            #               inside a transformation): such families are not judged
        for k, fam in enumerate(obs.families):        # type: ignore[attr-defined]
            evs = [{"ev": ev, "g": num(d)} for ev, d, f in obs.events if f == k]
            root_no = 0 if fam["root"] is None else num(fam["root"])
            if not evs or root_no < 0 or any(e["g"] < 0 for e in evs):
                continue
            # the family's top frame is the body it was started in
            fcalls = [list(c) for c in calls]
            fcalls[0] = list(calls[root_no])
            recs.append({"id": f"{rid}#{k}/{by}", "nf": len(defs), "calls": fcalls,
                         "events": evs})
    return {"status": "observed" if recs else "only_rebuilt_definitions", "records": recs}


# --------------------------------------------------------------------------
# graphs

def nested_witnesses() -> dict[str, Any]:
    """call DAGs of definitions: Fibonacci-shaped nesting (f_k calls f_{k-1} and f_{k-2}),
    a diamond (two bodies call one definition), a definition called at two sites of one
    body and by the caller, and the deterministic function witnesses of the mapper
    harness."""
    import numpy as np

    import pytato as pt

    from . import mapperharness as H
    x = pt.make_placeholder("x", (4,), np.float64)
    y = pt.make_placeholder("y", (4,), np.float64)

    def definition(f: Callable[[Any], Any]) -> Any:
        return pt.trace_call(f, x)._container.function

    def call(d: Any, a: Any) -> Any:
        return d(**{"in__pt_0": a})
    W: dict[str, Any] = dict(H.function_witnesses())
    ds = [definition(lambda a: a * 2.0)]
    ds.append(definition(lambda a: call(ds[0], a + 1.0)))
    for k in range(5):
        p1, p2 = ds[-1], ds[-2]
        ds.append(definition(lambda a, p1=p1, p2=p2, k=k: call(p1, a + float(k)) + call(
            p2, a * 3.0)))
    W["fib7"] = pt.make_dict_of_named_arrays({"out": call(ds[-1], x)})
    W["fib7_and_leaf"] = pt.make_dict_of_named_arrays(
        {"out": call(ds[-1], x) + call(ds[0], y), "mid": call(ds[3], y)})
    leaf = definition(lambda a: pt.sin(a))
    left = definition(lambda a: call(leaf, a) + 1.0)
    right = definition(lambda a: call(leaf, a * 2.0) - call(leaf, a))
    W["diamond"] = pt.make_dict_of_named_arrays({"out": call(left, x) * call(right, y)})
    W["diamond_leaf_first"] = pt.make_dict_of_named_arrays(
        {"a": call(leaf, x), "b": call(right, y), "c": call(left, x)})
    return W
