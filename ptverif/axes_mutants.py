"""Hand mutants for X01 (notes/axes.md section 4).  Usage:
    git -C /repo worktree add --detach /var/tmp/wt-axes HEAD
    /venv/bin/python ptverif/axes_mutants.py [name prefixes]
    git -C /repo worktree remove --force /var/tmp/wt-axes
Each mutant is one (file, old, new) replacement applied to the
scratch worktree, X01 quick is run against it (evidence redirected with
PTVERIF_OUT, never into /verif), the worktree file is
restored."""
import json, os, subprocess, sys, time
WT = "/var/tmp/wt-axes"
MD = "pytato/transform/metadata.py"
LW = "pytato/transform/lower_to_index_lambda.py"
MUTANTS = [
 ("M1-revert-74f77a7-leak", MD,
  "            exclude_nodes=ignored_vars | (known_tag_vars - {var}))",
  "            exclude_nodes=ignored_vars)"),
 ("M2-revert-9ae611b-combine", MD,
  "                out.setdefault(name, set()).update(subscripts)",
  "                out[name] = set(subscripts)"),
 ("M3-ignore-tag-not-honoured", MD,
  "        if isinstance(ax, int)\n",
  "        if isinstance(ax, str)\n"),
 ("M4-no-length-check", MD,
  "                            if are_shape_components_equal(\n                                    idx_lambda.shape[idx_lambda_axis_index],\n                                    idx_lambda.bindings[vname].shape[iaxis]):",
  "                            if True or are_shape_components_equal(\n                                    idx_lambda.shape[idx_lambda_axis_index],\n                                    idx_lambda.bindings[vname].shape[iaxis]):"),
 ("M5-no-reduction-equation", MD,
  "                        elif ind_name in idx_lambda.var_to_reduction_descr:",
  "                        elif ind_name in idx_lambda.bindings:"),
 ("M6-expand-dims-tag-read-from-operand", MD,
  "        expand_dims_tags = expr.tags_of_type(ExpandedDimsReshape)",
  "        expand_dims_tags = expr.array.tags_of_type(ExpandedDimsReshape)"),
 ("M7-holder-equated-with-sent-data", MD,
  "                self.get_var_for_axis(expr.passthrough_data, idim),",
  "                self.get_var_for_axis(expr.send.data, idim),"),
 ("M8-tag_t-filter-dropped", MD,
  "            for tag in axis.tags_of_type(self.tag_t):",
  "            for tag in axis.tags:"),
 ("M9-redn-descrs-always-tagged", MD,
  "        if self.tag_corresponding_redn_descr:",
  "        if self.tag_corresponding_redn_descr or True:"),
 ("M10-attach-keyed-by-copied-node", MD,
  "                iaxis, self.axis_to_tags.get((expr, iaxis), []))",
  "                iaxis, self.axis_to_tags.get((rec_expr, iaxis), []))"),
 ("M11-ignore-tag-var-not-excluded", MD,
  "        if isinstance(tag, AxisIgnoredForPropagationTag)\n    } | {",
  "        if False\n    } | {"),
 ("M12-only-first-output-visited", MD,
  "        for _, subexpr in sorted(expr._data.items()):\n            self.rec(subexpr)",
  "        for _, subexpr in sorted(expr._data.items())[:1]:\n            self.rec(subexpr)"),
 ("M13-stale-visited-check-by-type", MD,
  "        if expr in self._visited_nodes:",
  "        if type(expr) in {type(e) for e in self._visited_nodes} and expr.ndim == 0:"),
 ("L1-transpose-lowered-with-inverse-perm", LW,
  "            indices[to_index] = prim.Variable(f\"_{from_index}\")",
  "            indices[from_index] = prim.Variable(f\"_{to_index}\")"),
 ("L2-adv-index-block-offset-dropped", LW,
  "                            (1,)*i_adv_indices[0]+adv_idx_shape))",
  "                            adv_idx_shape))"),
 ("L3-einsum-broadcast-axis-gets-index-variable", LW,
  "                    subscript_indices.append(0)\n                    continue",
  "                    pass"),
]
only = sys.argv[1:]
os.makedirs("/var/tmp/scr-axes/mut", exist_ok=True)
results = {}
for name, path, old, new in MUTANTS:
    if only and not any(name.startswith(o) for o in only):
        continue
    full = os.path.join(WT, path)
    src = open(full).read()
    if src.count(old) != 1:
        print(name, "PATTERN NOT UNIQUE/FOUND", src.count(old)); results[name] = "not applied"; continue
    open(full, "w").write(src.replace(old, new))
    try:
        out = f"/var/tmp/out-axes/{name}"
        env = dict(os.environ, PTVERIF_REPO=WT, PTVERIF_OUT=out, VERIF_SCRATCH="/var/tmp/scr-axes")
        t0 = time.time()
        p = subprocess.run(["/venv/bin/python", "checks/run.py", "X01", "quick"], cwd="/verif",
                           env=env, capture_output=True, text=True)
        log = p.stdout + p.stderr
        open(f"/var/tmp/scr-axes/mut/{name}.log", "w").write(log)
        groups = {}
        grab = False
        for line in log.splitlines():
            if line.startswith("violations grouped by signature"):
                grab = True; continue
            if grab and line.startswith("  ") and "{" in line:
                n, js = line.strip().split(None, 1)
                sig = json.loads(js)
                key = sig.get("clause", "?") + ("/" + sig.get("exc", "") if sig.get("exc") else "")
                groups[key] = groups.get(key, 0) + int(n)
            elif grab and not line.startswith("  "):
                grab = False
        mf = [l for l in log.splitlines() if l.startswith("MACHINERY")]
        results[name] = {"exit": p.returncode, "clauses": groups, "machinery": mf[:1],
                         "wall": round(time.time() - t0)}
        print(name, json.dumps(results[name]), flush=True)
    finally:
        open(full, "w").write(src)
json.dump(results, open("/var/tmp/scr-axes/mut/results.json", "w"), indent=1)
