"""The catalogue behind C04 / C18: for every node kind a builder of a base
instance, an alternative value for EVERY dataclass field, the edge kinds
through which a child is put under a parent, and the evaluation of one
*family* (PtEqGen case) on the real objects.

The generator (spec/PtEqGen.tla) decides which (kind, context, member)
combinations exist; this module only knows how to build them.  A kind, field,
edge or member the catalogue cannot build is a MachineryError naming it.
"""
from __future__ import annotations

import base64
import dataclasses
import pickle
from typing import Any, Callable

import numpy as np

from .common import MachineryError
from .eqexport import FamilyExporter, stale_hash_caches

F8 = np.dtype(np.float64)
F4 = np.dtype(np.float32)
I8 = np.dtype(np.int64)


# --------------------------------------------------------------------------
# per-process environment: things that must be the *same object* for every
# member of every family in this process

class Env:
    def __init__(self) -> None:
        self.data = np.arange(4, dtype=np.float64) + 0.5       # the wrapped data
        self.data_other = np.arange(4, dtype=np.float64) * 3 + 1.0
        self._tus: dict[str, Any] = {}

    def tu(self, which: str) -> Any:
        """"a": the kernel, "a2": the same kernel built independently,
        "b": a different kernel."""
        if which not in self._tus:
            import loopy as lp
            coeff = {"a": 2, "a2": 2, "b": 3}[which]
            t = lp.make_kernel(
                "{[i]: 0<=i<4}",
                f"""
                out[i] = {coeff}*a[i] + b[i]
                out2[i] = a[i]
                """,
                [lp.GlobalArg("a", np.float64, shape=(4,)),
                 lp.GlobalArg("b", np.float64, shape=(4,)),
                 lp.GlobalArg("out", np.float64, shape=(4,), is_output=True),
                 lp.GlobalArg("out2", np.float64, shape=(4,), is_output=True)],
                name="knl", lang_version=(2018, 2))
            self._tus[which] = t
        return self._tus[which]

    def tu_with_callee(self, factor: int) -> Any:
        """a translation unit of TWO kernels: the entry point "knl" (same arguments as
        tu("a")) calls "scale", and only the CALLEE depends on *factor*"""
        key = f"callee{factor}"
        if key not in self._tus:
            import loopy as lp
            scale = lp.make_function(
                "{[i]: 0<=i<4}", f"y[i] = {factor}*x[i]",
                [lp.GlobalArg("x", dtype=np.float64, shape=(4,)),
                 lp.GlobalArg("y", dtype=np.float64, shape=(4,), is_output=True)],
                name="scale", lang_version=(2018, 2))
            entry = lp.make_kernel(
                "{[j]: 0<=j<4}",
                """
                [j]: out[j] = scale([j]: a[j])
                out2[j] = a[j] + b[j]
                """,
                [lp.GlobalArg("a", np.float64, shape=(4,)),
                 lp.GlobalArg("b", np.float64, shape=(4,)),
                 lp.GlobalArg("out", np.float64, shape=(4,), is_output=True),
                 lp.GlobalArg("out2", np.float64, shape=(4,), is_output=True)],
                name="knl", lang_version=(2018, 2))
            self._tus[key] = lp.merge([entry, scale])
        return self._tus[key]


_env: Env | None = None


def env() -> Env:
    global _env
    if _env is None:
        _env = Env()
    return _env


# --------------------------------------------------------------------------
# small constructors

def ph(name: str = "x", shape: tuple = (4,), dtype: Any = F8) -> Any:
    import pytato as pt
    return pt.make_placeholder(name, shape, dtype)


def dax(n: int) -> tuple:
    from pytato.array import Axis
    return tuple(Axis(frozenset()) for _ in range(n))


def foo() -> Any:
    from . import usertags
    return usertags.FooTag()


def bar() -> Any:
    from . import usertags
    return usertags.BarTag()


NOTAGS: frozenset = frozenset()


def cdict(items: Any) -> Any:
    from constantdict import constantdict
    return constantdict(items)


def rev(m: Any) -> Any:
    """The same mapping with the opposite insertion order (same mapping type)."""
    items = list(m.items())[::-1]
    return dict(items) if type(m) is dict else cdict(items)


def red_expr(inner_op: str = "mul") -> Any:
    import pymbolic.primitives as p

    from pytato.reductions import SumReductionOperation
    from pytato.scalar_expr import Reduce
    i, r0, r1 = p.Variable("_0"), p.Variable("_r0"), p.Variable("_r1")
    a = p.Variable("_in0")[i, r0, r1]
    b = p.Variable("_in1")[i, r0, r1]
    inner = a * b if inner_op == "mul" else a + b
    return Reduce(inner, SumReductionOperation(), cdict({"_r0": (0, 3), "_r1": (0, 2)}))


def csr_matrix(**kw: Any) -> Any:
    from pytato.array import CSRMatrix
    args = dict(shape=(4, 4), dtype=F8, elem_values=ph("ev", (6,)),
                elem_col_indices=ph("ci", (6,), I8), row_starts=ph("rs", (5,), I8),
                axes=dax(2), tags=NOTAGS)
    args.update(kw)
    return CSRMatrix(**args)


def fdef(roll_shift: int = 1) -> Any:
    import pytato as pt
    from pytato.function import FunctionDefinition, ReturnType
    pa, pb = ph("pa"), ph("pb")
    return FunctionDefinition(
        frozenset({"pa", "pb"}), ReturnType.DICT_OF_ARRAYS,
        cdict({"r0": pt.stack([pa, pb]), "r1": pt.roll(pa, roll_shift)}),
        tags=NOTAGS)


def call(function: Any = None, second: str = "y") -> Any:
    from pytato.function import Call
    return Call(function if function is not None else fdef(),
                cdict({"pa": ph("x"), "pb": ph(second)}), tags=NOTAGS)


def loopy_call(which: str = "a", second: str = "y") -> Any:
    from pytato.loopy import LoopyCall
    return LoopyCall(env().tu(which), cdict({"a": ph("x"), "b": ph(second)}), "knl",
                     tags=NOTAGS)


def dict_of(second: str = "y") -> Any:
    from pytato.array import DictOfNamedArrays
    return DictOfNamedArrays({"a": ph("x"), "b": ph(second)}, tags=NOTAGS)


# --------------------------------------------------------------------------
# kinds: base builder (rebuilt = called again; `which` selects the loopy TU)

def _base(kind: str, rebuilt: bool = False) -> Any:
    import pytato as pt
    from pytato.array import Axis, IndexLambda, ReductionDescriptor
    from pytato.distributed.nodes import (
        make_distributed_recv,
        make_distributed_send,
        staple_distributed_send,
    )
    if kind == "Placeholder":
        return ph("x")
    if kind == "SizeParam":
        return pt.make_size_param("n")
    if kind == "DataWrapper":
        return pt.make_data_wrapper(env().data)
    if kind == "IndexLambda":
        return IndexLambda(expr=red_expr(), shape=(4,), dtype=F8,
                           bindings=cdict({"_in0": ph("x", (4, 3, 2)),
                                           "_in1": ph("y", (4, 3, 2))}),
                           axes=dax(1), tags=NOTAGS,
                           var_to_reduction_descr=cdict({
                               "_r0": ReductionDescriptor(frozenset()),
                               "_r1": ReductionDescriptor(frozenset())}))
    if kind == "Einsum":
        return pt.einsum("ijl,jlk->ik", ph("x", (2, 3, 4)), ph("y", (3, 4, 5)))
    if kind == "Stack":
        return pt.stack([ph("x"), ph("y")], axis=0)
    if kind == "Concatenate":
        return pt.concatenate([ph("x"), ph("y")], axis=0)
    if kind == "Roll":
        return pt.roll(ph("x", (4, 3)), 1, 0)
    if kind == "AxisPermutation":
        return pt.transpose(ph("x", (4, 3, 2)), (1, 0, 2))
    if kind == "Reshape":
        return pt.reshape(ph("x", (4, 3)), (3, 4), order="C")
    if kind == "BasicIndex":
        return ph("x", (4, 3))[1:3, 0]
    if kind == "AdvancedIndexInContiguousAxes":
        return ph("x", (4, 3))[ph("i", (2,), I8)]
    if kind == "AdvancedIndexInNoncontiguousAxes":
        return ph("x", (4, 3, 2))[ph("i", (2,), I8), :, ph("j", (2,), I8)]
    if kind == "NamedArray":
        return dict_of()["a"]
    if kind == "DictOfNamedArrays":
        return dict_of()
    if kind == "FunctionDefinition":
        return fdef()
    if kind == "Call":
        return call()
    if kind == "NamedCallResult":
        return call()["r0"]
    if kind == "LoopyCall":
        return loopy_call("a2" if rebuilt else "a")
    if kind == "LoopyCallResult":
        return loopy_call("a2" if rebuilt else "a")["out"]
    if kind == "DistributedSend":
        return make_distributed_send(ph("x"), dest_rank=1, comm_tag=10)
    if kind == "DistributedSendRefHolder":
        return staple_distributed_send(ph("x"), 1, 10, stapled_to=ph("y"))
    if kind == "DistributedRecv":
        return make_distributed_recv(src_rank=1, comm_tag=10, shape=(4,), dtype=F8)
    if kind == "CSRMatmul":
        return csr_matrix() @ ph("x", (4, 3))
    if kind == "CSRMatrix":
        return csr_matrix()
    if kind == "Axis":
        return Axis(frozenset())
    if kind == "ReductionDescriptor":
        return ReductionDescriptor(frozenset())
    raise MachineryError(f"the catalogue has no builder for node kind {kind}")


# kind -> field -> function(base object) -> alternative value
def _alt(kind: str, field: str, o: Any) -> Any:
    import pytato as pt
    from pytato.array import Axis, NormalizedSlice, ReductionDescriptor
    from pytato.function import ReturnType

    # fields with one meaning everywhere
    if field == "tags":
        return o.tags | {foo()}
    if field == "non_equality_tags":
        return frozenset({bar()})
    if field == "axes":
        if len(o.axes) == 0:
            return (Axis(frozenset()),)
        return (Axis(frozenset({foo()})), *o.axes[1:])
    if field == "dtype":
        return F4
    if field == "name":
        return {"Placeholder": "y", "SizeParam": "m", "NamedArray": "b",
                "NamedCallResult": "r1", "LoopyCallResult": "out2"}[kind]
    if field == "shape":
        return {"Placeholder": (5,), "DataWrapper": (2, 2), "IndexLambda": (5,),
                "DistributedRecv": (5,), "CSRMatrix": (5, 4)}[kind]
    k = (kind, field)
    if k == ("DataWrapper", "data"):
        return env().data_other
    if k == ("IndexLambda", "expr"):
        return red_expr("add")
    if k == ("IndexLambda", "bindings"):
        return cdict({"_in0": o.bindings["_in0"], "_in1": ph("z", (4, 3, 2))})
    if k == ("IndexLambda", "var_to_reduction_descr"):
        return cdict({"_r0": ReductionDescriptor(frozenset({foo()})),
                      "_r1": o.var_to_reduction_descr["_r1"]})
    if k == ("Einsum", "access_descriptors"):
        return o.access_descriptors[::-1]
    if k == ("Einsum", "args"):
        return (o.args[0], ph("z", (3, 4, 5)))
    if k == ("Einsum", "redn_axis_to_redn_descr"):
        items = list(o.redn_axis_to_redn_descr.items())
        items[0] = (items[0][0], ReductionDescriptor(frozenset({foo()})))
        return cdict(items)
    if field == "arrays":
        return (o.arrays[0], ph("z"))
    if field == "axis":
        return 1
    if field == "array":
        return ph("z", o.array.shape)
    if k == ("Roll", "shift"):
        return 2
    if k == ("AxisPermutation", "axis_permutation"):
        return (0, 2, 1)
    if k == ("Reshape", "newshape"):
        return (2, 6)
    if k == ("Reshape", "order"):
        return "F"
    if k == ("BasicIndex", "indices"):
        return (NormalizedSlice(0, 3, 1), 0)
    if k == ("AdvancedIndexInContiguousAxes", "indices"):
        return (ph("i2", (2,), I8), o.indices[1])
    if k == ("AdvancedIndexInNoncontiguousAxes", "indices"):
        return (o.indices[0], o.indices[1], ph("j2", (2,), I8))
    if k == ("NamedArray", "_container"):
        return dict_of("z")
    if k == ("DictOfNamedArrays", "_data"):
        return {"a": o._data["a"], "b": ph("z")}
    if k == ("FunctionDefinition", "parameters"):
        return o.parameters | {"pc"}
    if k == ("FunctionDefinition", "return_type"):
        return ReturnType.TUPLE_OF_ARRAYS
    if k == ("FunctionDefinition", "returns"):
        return cdict({"r0": o.returns["r0"], "r1": pt.roll(ph("pa"), 2)})
    if k == ("Call", "function"):
        return fdef(2)
    if k == ("Call", "bindings"):
        return cdict({"pa": o.bindings["pa"], "pb": ph("z")})
    if k == ("NamedCallResult", "_container"):
        return call(second="z")
    if k == ("LoopyCall", "translation_unit"):
        return env().tu("b")
    if k == ("LoopyCall", "bindings"):
        return cdict({"a": o.bindings["a"], "b": ph("z")})
    if k == ("LoopyCall", "entrypoint"):
        return "knl2"
    if k == ("LoopyCallResult", "_container"):
        return loopy_call("a", "z")
    if k == ("DistributedSend", "data"):
        return ph("z")
    if field == "dest_rank" or field == "src_rank":
        return 2
    if field == "comm_tag":
        return 11
    if k == ("DistributedSendRefHolder", "send"):
        return dataclasses.replace(o.send, dest_rank=2)
    if k == ("DistributedSendRefHolder", "passthrough_data"):
        return ph("z")
    if k == ("CSRMatmul", "matrix"):
        return csr_matrix(elem_values=ph("ev2", (6,)))
    if k == ("CSRMatmul", "reduction_var"):
        return "_r1"
    if k == ("CSRMatmul", "reduction_descr"):
        return ReductionDescriptor(frozenset({foo()}))
    if k == ("CSRMatrix", "elem_values"):
        return ph("ev2", (6,))
    if k == ("CSRMatrix", "elem_col_indices"):
        return ph("ci2", (6,), I8)
    if k == ("CSRMatrix", "row_starts"):
        return ph("rs2", (5,), I8)
    raise MachineryError(
        f"the catalogue has no alternative value for field {kind}.{field}")


def replace(o: Any, **changes: Any) -> Any:
    """dataclasses.replace, except for the one class whose __init__ does not
    take its fields."""
    from pytato.array import DictOfNamedArrays
    if isinstance(o, DictOfNamedArrays):
        data = changes.pop("_data", o._data)
        tags = changes.pop("tags", o.tags)
        if changes:
            raise MachineryError(f"cannot replace {sorted(changes)} of DictOfNamedArrays")
        return DictOfNamedArrays(data, tags=tags)
    return dataclasses.replace(o, **changes)


def _perm(kind: str, o: Any) -> Any:
    """The same node with every mapping-valued field rebuilt in the opposite
    insertion order."""
    if kind == "IndexLambda":
        return replace(o, bindings=rev(o.bindings),
                       var_to_reduction_descr=rev(o.var_to_reduction_descr))
    if kind == "Einsum":
        return replace(o, redn_axis_to_redn_descr=rev(o.redn_axis_to_redn_descr))
    if kind == "DictOfNamedArrays":
        return replace(o, _data=rev(o._data))
    if kind == "FunctionDefinition":
        return replace(o, returns=rev(o.returns))
    if kind in ("Call", "LoopyCall"):
        return replace(o, bindings=rev(o.bindings))
    raise MachineryError(f"no permuted member for kind {kind}")


def _data_member(member: str) -> Any:
    """DataWrapper variants for C18 (and, by identity, for C04)."""
    import pytato as pt
    d = env().data
    if member == "data:copy":
        return pt.make_data_wrapper(d.copy())
    if member == "data:elem":
        e = d.copy()
        e[2] += 1.0
        return pt.make_data_wrapper(e)
    if member == "data:dtype":          # identical bytes, other dtype
        return pt.make_data_wrapper(d.copy().view(np.int64))
    if member == "data:shape":          # identical bytes, other shape
        return pt.make_data_wrapper(d.copy().reshape(2, 2))
    raise MachineryError(f"unknown data member {member}")


# --------------------------------------------------------------------------
# contexts

def wrap(edge: str, c: Any) -> Any:
    """Put *c* under a fresh parent through the edge kind *edge*."""
    import pymbolic.primitives as p

    import pytato as pt
    from pytato.array import (
        AdvancedIndexInContiguousAxes,
        AdvancedIndexInNoncontiguousAxes,
        AxisPermutation,
        BasicIndex,
        Concatenate,
        CSRMatmul,
        DictOfNamedArrays,
        Einsum,
        EinsumElementwiseAxis,
        EinsumReductionAxis,
        IndexLambda,
        NamedArray,
        NormalizedSlice,
        Placeholder,
        ReductionDescriptor,
        Reshape,
        Roll,
        Stack,
    )
    from pytato.distributed.nodes import DistributedSend, DistributedSendRefHolder
    from pytato.function import Call, FunctionDefinition, NamedCallResult, ReturnType
    from pytato.loopy import LoopyCall, LoopyCallResult
    from pytato.reductions import SumReductionOperation
    from pytato.scalar_expr import Reduce
    e = edge
    if e == "IndexLambda.bindings":
        return IndexLambda(expr=p.Variable("_in0")[p.Variable("_0")] + 1, shape=(4,),
                           dtype=F8, bindings=cdict({"_in0": c}), axes=dax(1),
                           tags=NOTAGS, var_to_reduction_descr=cdict({}))
    if e == "IndexLambda.shape":
        return IndexLambda(expr=0, shape=(c,), dtype=F8, bindings=cdict({}),
                           axes=dax(1), tags=NOTAGS, var_to_reduction_descr=cdict({}))
    if e == "Stack.arrays":
        return Stack(arrays=(c, ph("sib")), axis=0, axes=dax(2), tags=NOTAGS)
    if e == "Concatenate.arrays":
        return Concatenate(arrays=(ph("sib"), c), axis=0, axes=dax(1), tags=NOTAGS)
    if e == "Roll.array":
        return Roll(array=c, shift=1, axis=0, axes=dax(1), tags=NOTAGS)
    if e == "AxisPermutation.array":
        return AxisPermutation(array=c, axis_permutation=(0,), axes=dax(1), tags=NOTAGS)
    if e == "Reshape.array":
        return Reshape(array=c, newshape=(4,), order="C", axes=dax(1), tags=NOTAGS)
    if e == "Reshape.newshape":
        return Reshape(array=ph("big"), newshape=(c,), order="C", axes=dax(1),
                       tags=NOTAGS)
    if e == "BasicIndex.array":
        return BasicIndex(array=c, indices=(NormalizedSlice(0, 4, 1),), axes=dax(1),
                          tags=NOTAGS)
    if e == "BasicIndex.indices.slice":
        return BasicIndex(array=ph("big"), indices=(NormalizedSlice(0, c, 1),),
                          axes=dax(1), tags=NOTAGS)
    if e == "AdvancedIndexInContiguousAxes.indices":
        return AdvancedIndexInContiguousAxes(
            array=ph("big", (4, 3)), indices=(c, NormalizedSlice(0, 3, 1)),
            axes=dax(2), tags=NOTAGS)
    if e == "AdvancedIndexInNoncontiguousAxes.indices":
        return AdvancedIndexInNoncontiguousAxes(
            array=ph("big", (4, 3, 2)),
            indices=(ph("i0", (2,), I8), NormalizedSlice(0, 3, 1), c),
            axes=dax(2), tags=NOTAGS)
    if e == "Einsum.args":
        return Einsum(access_descriptors=((EinsumElementwiseAxis(0),),
                                          (EinsumElementwiseAxis(0),)),
                      args=(c, ph("sib")), redn_axis_to_redn_descr=cdict({}),
                      axes=dax(1), tags=NOTAGS)
    if e == "DictOfNamedArrays._data":
        return DictOfNamedArrays({"r": c, "s": ph("sib")}, tags=NOTAGS)["r"]
    if e == "Call.bindings":
        f = FunctionDefinition(frozenset({"pa", "pb"}), ReturnType.ARRAY,
                               cdict({"_": pt.stack([ph("pa"), ph("pb")])}), tags=NOTAGS)
        return Call(f, cdict({"pa": c, "pb": ph("sib")}), tags=NOTAGS)["_"]
    if e == "FunctionDefinition.returns":
        f = FunctionDefinition(frozenset({"pa"}), ReturnType.ARRAY, cdict({"_": c}),
                               tags=NOTAGS)
        return NamedCallResult(Call(f, cdict({"pa": ph("sib")}), tags=NOTAGS), "_",
                               axes=dax(1), tags=NOTAGS)
    if e == "LoopyCall.bindings":
        return LoopyCall(env().tu("a"), cdict({"a": c, "b": ph("sib")}), "knl",
                         tags=NOTAGS)["out"]
    if e == "DistributedSend.data":
        return DistributedSendRefHolder(
            send=DistributedSend(data=c, dest_rank=1, comm_tag=7, tags=NOTAGS),
            passthrough_data=ph("sib"))
    if e == "DistributedSendRefHolder.passthrough_data":
        return DistributedSendRefHolder(
            send=DistributedSend(data=ph("sib"), dest_rank=1, comm_tag=7, tags=NOTAGS),
            passthrough_data=c)
    if e == "CSRMatmul.array":
        return CSRMatmul(matrix=csr_matrix(), array=c, axes=dax(2), tags=NOTAGS)
    if e == "CSRMatrix.elem_values":
        return CSRMatmul(matrix=csr_matrix(elem_values=c), array=ph("sib", (4, 3)),
                         axes=dax(2), tags=NOTAGS)
    if e == "CSRMatrix.row_starts":
        return CSRMatmul(matrix=csr_matrix(row_starts=c), array=ph("sib", (4, 3)),
                         axes=dax(2), tags=NOTAGS)
    if e == "Placeholder.shape":
        return Placeholder(shape=(c,), dtype=F8, name="p", axes=dax(1), tags=NOTAGS)
    # lifts of non-array kinds
    if e == "NamedArray._container":
        return NamedArray(c, "a", axes=dax(1), tags=NOTAGS)
    if e == "NamedCallResult._container":
        return NamedCallResult(c, "r0", axes=dax(2), tags=NOTAGS)
    if e == "LoopyCallResult._container":
        return LoopyCallResult(_container=c, name="out", axes=dax(1), tags=NOTAGS)
    if e == "Call.function":
        cl = Call(c, cdict({nm: ph("b_" + nm) for nm in sorted(c.parameters)}),
                  tags=NOTAGS)
        return NamedCallResult(cl, "r0", axes=dax(2), tags=NOTAGS)
    if e == "DistributedSendRefHolder.send":
        return DistributedSendRefHolder(send=c, passthrough_data=ph("sib"))
    if e == "CSRMatmul.matrix":
        return CSRMatmul(matrix=c, array=ph("sib", (4, 3)), axes=dax(2), tags=NOTAGS)
    if e == "Placeholder.axes":
        return Placeholder(shape=(4,), dtype=F8, name="p", axes=(c,), tags=NOTAGS)
    if e == "IndexLambda.axes":
        return IndexLambda(expr=0, shape=(4,), dtype=F8, bindings=cdict({}), axes=(c,),
                           tags=NOTAGS, var_to_reduction_descr=cdict({}))
    if e == "IndexLambda.var_to_reduction_descr":
        i, r0 = p.Variable("_0"), p.Variable("_r0")
        ex = Reduce(p.Variable("_in0")[i, r0], SumReductionOperation(),
                    cdict({"_r0": (0, 3)}))
        return IndexLambda(expr=ex, shape=(4,), dtype=F8,
                           bindings=cdict({"_in0": ph("sib", (4, 3))}), axes=dax(1),
                           tags=NOTAGS, var_to_reduction_descr=cdict({"_r0": c}))
    if e == "Einsum.redn_axis_to_redn_descr":
        return Einsum(access_descriptors=((EinsumElementwiseAxis(0),
                                           EinsumReductionAxis(0)),),
                      args=(ph("sib", (4, 3)),),
                      redn_axis_to_redn_descr=cdict({EinsumReductionAxis(0): c}),
                      axes=dax(1), tags=NOTAGS)
    if e == "CSRMatmul.reduction_descr":
        return CSRMatmul(matrix=csr_matrix(), array=ph("sib", (4, 3)), axes=dax(2),
                         tags=NOTAGS, reduction_descr=c)
    if e == "ReductionDescriptor":      # pragma: no cover
        return ReductionDescriptor(frozenset())
    raise MachineryError(f"the catalogue cannot build edge kind {edge}")


def in_ctx(ctx: list[str], o: Any) -> Any:
    for e in ctx:
        o = wrap(e, o)
    return o


# --------------------------------------------------------------------------
# one family on the real objects

def build_member(kind: str, ctx: list[str], member: str, base0: Any,
                 extra: dict[str, Any]) -> Any:
    """base0: the depth-0 base object (already hashed); -> the member in context"""
    if member == "base":
        raise AssertionError
    if member == "rebuild":
        return in_ctx(ctx, _base(kind, rebuilt=True))
    if member == "foreign":
        # a non-array kind enters its context through a lift that only takes that
        # kind: the foreign object (an array) skips the lift
        from pytato.array import Array
        return in_ctx(ctx if isinstance(base0, Array) else ctx[1:], ph("foreign"))
    if member == "perm":
        return in_ctx(ctx, _perm(kind, base0))
    if member.startswith("mut:"):
        f = member[4:]
        return in_ctx(ctx, replace(base0, **{f: _alt(kind, f, base0)}))
    if member.startswith("data:"):
        return in_ctx(ctx, _data_member(member))
    if member.startswith("sym:"):
        # the shape replaced by a SYMBOLIC one; the variants are different
        # presentations of affine functions of one size parameter, some of them
        # semantically equal (n+1 / 1+n, 2*n / n+n): structure decides, not value
        import pytato as pt
        n = pt.make_size_param("n")
        comp = {"n+1": lambda: n + 1, "1+n": lambda: 1 + n, "2n": lambda: 2 * n,
                "n+n": lambda: n + n, "nt+1": lambda: n.tagged(foo()) + 1}[member[4:]]()
        return in_ctx(ctx, replace(base0, shape=(comp,)))
    if member.startswith("npi:"):
        f = member[4:]
        v = getattr(base0, f)
        nv = tuple(np.int64(e) if isinstance(e, int) else e for e in v) \
            if isinstance(v, tuple) else np.int64(v)
        return in_ctx(ctx, replace(base0, **{f: nv}))
    if member.startswith("tu:callee"):
        t = env().tu_with_callee(int(member[-1]))
        if kind == "LoopyCallResult":
            return in_ctx(ctx, replace(base0, _container=replace(
                base0._container, translation_unit=t)))
        return in_ctx(ctx, replace(base0, translation_unit=t))
    if member[:4] in ("sup:", "sub:"):
        f = member[4:]
        m = dict(getattr(base0, f))
        if member[:4] == "sub:":
            m.pop(sorted(m)[-1])
        else:
            extra_key = {"bindings": "_in9" if kind == "IndexLambda" else "zz_extra",
                         "var_to_reduction_descr": "_r9", "_data": "zz", "returns": "zz",
                         "redn_axis_to_redn_descr": None}[f]
            if f == "redn_axis_to_redn_descr":
                from pytato.array import EinsumReductionAxis, ReductionDescriptor
                m[EinsumReductionAxis(7)] = ReductionDescriptor(frozenset())
            else:
                m[extra_key] = next(iter(m.values())) if f != "bindings" else ph("z9", (4, 3, 2))
        if kind == "DictOfNamedArrays":
            return in_ctx(ctx, replace(base0, _data=m))
        return in_ctx(ctx, replace(base0, **{f: cdict(m)}))
    if member.startswith("tags") and member[4:].isdigit():
        # several tags of different classes with seed-dependent hashes
        from . import eqtags
        return in_ctx(ctx, replace(base0, tags=base0.tags | eqtags.several(int(member[4:]))))
    if member == "axtags3":
        from pytato.array import Axis

        from . import eqtags
        ax0 = base0.axes[0] if len(base0.axes) else Axis(frozenset())
        return in_ctx(ctx, replace(base0, axes=(Axis(ax0.tags | eqtags.several(3, "x")),
                                                *base0.axes[1:])))
    if member == "params5":
        return in_ctx(ctx, replace(base0, parameters=base0.parameters
                                   | {"pc", "pd", "pe"}))
    if member.startswith("der:"):
        return in_ctx(ctx, _derive(kind, member, base0))
    raise MachineryError(f"the catalogue cannot build member {member}")


def _derive(kind: str, member: str, base0: Any) -> Any:
    """Members obtained from the ALREADY HASHED AND KEYED base through the
    public derivation API (tagged / without_tags / with_tagged_axis / copy).
    Where the API refuses (e.g. tagging a NamedCallResult is illegal) the
    structurally identical object is built with dataclasses.replace, so the
    member always is what its alias says."""
    alias = ALIASES[member]
    try:
        if member == "der:tagged":
            return base0.tagged(foo())
        if member == "der:copy":
            return base0.copy(tags=base0.tags | {foo()})
        if member == "der:axis":
            return base0.with_tagged_axis(0, foo())
        if member == "der:untagged":
            t = base0.tagged(foo())
            safe_hash(t)
            keyof(t)               # the intermediate object is hashed and keyed too
            return t.without_tags(foo())
    except Exception:       # noqa: BLE001
        pass
    if alias == "base":
        return replace(base0, tags=frozenset(base0.tags))
    f = alias[4:]
    return replace(base0, **{f: _alt(kind, f, base0)})


# members added in Python; ALIASES: the generated member they must be
# structurally identical to (None / absent: different from every other member)
ALIASES = {"der:tagged": "mut:tags", "der:copy": "mut:tags", "der:axis": "mut:axes",
           "der:untagged": "base"}


def key_members(members: list[str]) -> list[str]:
    """Extra members for the persistent-key check, by the fields the kind has
    (read off the generator's member list)."""
    out = []
    if "mut:tags" in members:
        out += ["der:tagged", "der:untagged", "der:copy", "tags2", "tags3", "tags5"]
    if "mut:axes" in members:
        out += ["der:axis", "axtags3"]
    if "mut:parameters" in members:
        out += ["params5"]
    return out


SYM_MEMBERS = {k: ["sym:n+1", "sym:1+n", "sym:2n", "sym:n+n", "sym:nt+1"]
               for k in ("IndexLambda", "Placeholder", "DistributedRecv")}
# an INTEGER-valued field given as NumPy integers (np.int64(1) == 1, equal hash): the SAME
# node as the base for ==, hash, set / dict membership and the persistent key
for _k, _ms in {"Roll": ["npi:shift", "npi:axis"], "Stack": ["npi:axis"],
                "Concatenate": ["npi:axis"], "Reshape": ["npi:newshape"],
                "AxisPermutation": ["npi:axis_permutation"], "Placeholder": ["npi:shape"],
                "DistributedSend": ["npi:dest_rank", "npi:comm_tag"],
                "DistributedRecv": ["npi:src_rank", "npi:comm_tag", "npi:shape"]}.items():
    SYM_MEMBERS[_k] = SYM_MEMBERS.get(_k, []) + _ms
    for _m in _ms:
        ALIASES[_m] = "base"
# a MAPPING-valued field with one entry more ("sup:") or one entry fewer ("sub:") than the
# base, the common entries identical: different from the base in BOTH directions of ==
for _k, _ms in {"IndexLambda": ["sup:bindings", "sup:var_to_reduction_descr"],
                "DictOfNamedArrays": ["sup:_data", "sub:_data"],
                "FunctionDefinition": ["sup:returns", "sub:returns"],
                "Einsum": ["sup:redn_axis_to_redn_descr"],
                # (two-kernel translation units that differ in the CALLEE only)
                "LoopyCall": ["sup:bindings", "tu:callee2", "tu:callee3"],
                "LoopyCallResult": ["tu:callee2", "tu:callee3"]}.items():
    SYM_MEMBERS[_k] = SYM_MEMBERS.get(_k, []) + _ms


def safe_hash(o: Any) -> str:
    try:
        return str(hash(o))
    except TypeError:
        return "unhashable"
    except Exception as ex:      # noqa: BLE001
        # (e.g. the member whose entrypoint names no kernel of the translation unit, once
        # the hash looks the entry kernel up: an observation, not a reason to die)
        return f"raises:{type(ex).__name__}"


def keyof(o: Any) -> str:
    from pytato.analysis import PytatoKeyBuilder
    try:
        return PytatoKeyBuilder()(o)
    except Exception as ex:      # noqa: BLE001
        return f"error:{type(ex).__name__}:{ex}"[:200]


def fam_id(kind: str, ctx: list[str]) -> str:
    return kind + "/" + ">".join(ctx)


def pickle_base(case: dict) -> str:
    """Phase 1: the base member in context, hashed (so that a cached hash
    exists when it is pickled) and keyed, pickled for another process."""
    kind, ctx = case["kind"], case["ctx"]
    o = in_ctx(ctx, _base(kind))
    safe_hash(o)
    for e in _reach(o):
        safe_hash(e)
    keyof(o)
    return base64.b64encode(pickle.dumps(o)).decode()


def _reach(o: Any) -> list[Any]:
    from .eqexport import reachable_entities
    return reachable_entities(o)


def eval_family(case: dict, members: list[str], xblob: str | None,
                want_keys: bool = True, want_nodes: bool = True) -> dict:
    """Build every member of the family on the real classes and record the
    whole verdict matrix plus the reflective export."""
    kind, ctx = case["kind"], case["ctx"]
    base0 = _base(kind)
    safe_hash(base0)              # mutants are derived from a hashed object
    objs: list[Any] = []
    unpickled: list[bool] = []
    base = in_ctx(ctx, base0)
    h_base = safe_hash(base)
    for e in _reach(base):        # every node of the base carries a cached hash now
        safe_hash(e)
    key_base = keyof(base) if want_keys else ""
    for m in members:
        if m == "base":
            o = base
        elif m == "pick":
            o = pickle.loads(pickle.dumps(base))
        elif m == "xpick":
            if xblob is None:
                raise MachineryError("no pickle from the neighbour process")
            o = pickle.loads(base64.b64decode(xblob))
        else:
            o = build_member(kind, ctx, m, base0, {})
        objs.append(o)
        unpickled.append(m in ("pick", "xpick"))
    # observations that must be made before anything hashes the unpickled objects
    stale = [stale_hash_caches(o) if u else [] for o, u in zip(objs, unpickled)]
    n = len(objs)
    raised: list[list[Any]] = []      # == / != that RAISED: [i, j, operator, exception]

    def cmp(i: int, j: int, neq: bool) -> bool:
        try:
            return bool(objs[i] != objs[j]) if neq else bool(objs[i] == objs[j])
        except Exception as exn:       # noqa: BLE001
            if len(raised) < 20:
                raised.append([i, j, "!=" if neq else "==",
                               f"{type(exn).__name__}: {exn}"[:160]])
            return neq
    eq = [[cmp(i, j, False) for j in range(n)] for i in range(n)]
    ne = [[cmp(i, j, True) for j in range(n)] for i in range(n)]
    hashes = [safe_hash(o) for o in objs]
    inset: list[list[bool]] = []
    indict: list[list[bool]] = []
    for i in range(n):
        if hashes[i] == "unhashable" or hashes[i].startswith("raises:"):
            inset.append([False] * n)
            indict.append([False] * n)
            continue
        s = {objs[i]}
        d = {objs[i]: 1}

        def member(j: int, use_dict: bool, i: int = i, s: Any = s, d: Any = d) -> bool:
            if hashes[j] == "unhashable" or hashes[j].startswith("raises:"):
                return False
            try:
                return d.get(objs[j]) == 1 if use_dict else objs[j] in s
            except Exception as exn:       # noqa: BLE001
                if len(raised) < 20:
                    raised.append([i, j, "in dict" if use_dict else "in set",
                                   f"{type(exn).__name__}: {exn}"[:160]])
                return False
        inset.append([member(j, False) for j in range(n)])
        indict.append([member(j, True) for j in range(n)])
    ex = FamilyExporter()
    roots = [ex.node(o) for o in objs]
    import hashlib
    import json
    sha = hashlib.sha256(json.dumps([ex.nodes, roots], sort_keys=True).encode()).hexdigest()
    rec: dict[str, Any] = {
        "fam": fam_id(kind, ctx), "kind": kind, "ctx": ctx, "names": members,
        "export_sha": sha, "nodes": ex.nodes if want_nodes else None, "roots": roots,
        "eq": eq, "ne": ne, "hash": hashes,
        "inset": inset, "indict": indict, "stale": stale,
        "hash_base_first": h_base,
        "base_cached": "_hash_value" in getattr(base, "__dict__", {}),
        "raised": raised,
    }
    if want_keys:
        keys = [keyof(o) for o in objs]
        # the key after a pickle round trip in this process
        pkeys = []
        for o in objs:
            try:
                pkeys.append(keyof(pickle.loads(pickle.dumps(o))))
            except Exception as exn:       # noqa: BLE001
                pkeys.append(f"error:{type(exn).__name__}")
        rec.update({"key": keys, "pkey": pkeys, "key_base_first": key_base})
    return rec


# --------------------------------------------------------------------------
# reflective cross-check of the specification's field table

ABSTRACT = {"Array", "IndexRemappingBase", "IndexBase", "InputArgumentBase",
            "SparseMatmul", "SparseMatrix", "AbstractResultWithNamedArrays",
            "_SuppliedAxesAndTagsMixin"}


def real_field_table() -> dict[str, list[str]]:
    """Every concrete entity class of the implementation with the names of
    its dataclass fields (walks __subclasses__, imports all pytato modules
    that define nodes)."""
    import pytato  # noqa: F401
    import pytato.distributed.nodes  # noqa: F401
    import pytato.function  # noqa: F401
    import pytato.loopy  # noqa: F401

    from .eqexport import _entity_classes
    out: dict[str, list[str]] = {}
    seen: set[type] = set()

    def walk(c: type) -> None:
        if c in seen:
            return
        seen.add(c)
        if c.__module__.startswith("pytato") and c.__name__ not in ABSTRACT:
            if not dataclasses.is_dataclass(c):
                raise MachineryError(f"node class {c.__name__} is not a dataclass")
            out[c.__name__] = [f.name for f in dataclasses.fields(c)]
        for s in c.__subclasses__():
            walk(s)
    for c in _entity_classes():
        walk(c)
    return out


def check_field_table(spec_table: dict[str, dict[str, str]]) -> None:
    real = real_field_table()
    problems = []
    for k, flds in sorted(real.items()):
        if k not in spec_table:
            problems.append(f"node kind {k} (fields {flds}) is unknown to PtEq!Fields")
            continue
        for f in flds:
            if f not in spec_table[k]:
                problems.append(f"field {k}.{f} is unknown to PtEq!Fields")
        for f in spec_table[k]:
            if f not in flds:
                problems.append(f"PtEq!Fields lists {k}.{f} which the class does not have")
    for k in spec_table:
        if k not in real:
            problems.append(f"PtEq!Fields lists kind {k} which the implementation lacks")
    if problems:
        raise MachineryError("specification and implementation disagree on the "
                             "node fields: " + "; ".join(problems))


HANDLERS: dict[str, Callable[..., Any]] = {}


# --------------------------------------------------------------------------
# worker-side handlers (ptverif.procpool / eqworker)

def h_pickles(cases: list[dict]) -> dict[str, str]:
    return {fam_id(c["kind"], c["ctx"]): pickle_base(c) for c in cases}


def h_families(cases: list[dict], members: dict[str, list[str]],
               xblobs: dict[str, str], want_keys: bool, want_nodes: bool = True
               ) -> list[dict]:
    out = []
    for c in cases:
        fid = fam_id(c["kind"], c["ctx"])
        out.append(eval_family(c, members[c["kind"]], xblobs.get(fid), want_keys,
                               want_nodes))
    return out


def h_field_table() -> dict[str, list[str]]:
    return real_field_table()


HANDLERS.update({"pickles": h_pickles, "families": h_families,
                 "field_table": h_field_table})


# --------------------------------------------------------------------------
# life cycle (PtEq section 5): subjects, mutations, and the event interpreter

def _subject(name: str) -> Any:
    import pytato as pt
    from pytato.distributed.nodes import make_distributed_recv, staple_distributed_send
    if name == "expr":
        x, z = ph("x", (4, 3)), ph("z", (3, 4))
        y = pt.sin(x) * pt.reshape(z, (4, 3), order="F")
        return pt.sum(y, axis=1) + pt.roll(pt.sum(x, axis=1), 1) + y[:, 0]
    if name == "dict":
        x = ph("x", (4, 3))
        s = pt.sin(x)
        return pt.make_dict_of_named_arrays({"a": s + 1, "b": s.T, "c": x[ph("i", (2,), I8)]})
    if name == "call":
        return call()["r0"]
    if name == "dist":
        r = make_distributed_recv(src_rank=1, comm_tag=3, shape=(4,), dtype=F8)
        return staple_distributed_send(r * 2, 1, 4, stapled_to=r + ph("x"))
    if name == "data":
        e = env()
        if not hasattr(e, "dw"):
            e.dw = pt.make_data_wrapper(e.data)       # one node per process
        return e.dw * ph("x") + pt.einsum("i,i->", e.dw, ph("y"))
    if name == "loopy":
        return loopy_call()["out"]
    if name == "csr":
        return csr_matrix() @ ph("x", (4, 3))
    raise MachineryError(f"unknown life-cycle subject {name}")


SUBJECTS = {   # name -> (hasData, caches: does hash(root) cache _hash_value)
    "expr": (False, True), "dict": (False, False), "call": (False, True),
    "dist": (False, True), "data": (True, True), "loopy": (False, True),
    "csr": (False, True),
}


def _mutate(name: str, o: Any, var: int) -> Any:
    """Mutation number *var* of subject *name*: exactly one field of one node
    changed (1: a field of the root; 2: a field of a node below the root)."""
    if var == 1:
        if name == "dist":       # the holder has no fields of its own but its children
            return replace(o, send=replace(o.send, dest_rank=2))
        if name == "call":       # (tags of a NamedCallResult are a separate finding)
            return replace(o, name="r1")
        return replace(o, tags=o.tags | {foo()})
    if var != 2:
        raise MachineryError(f"unknown mutation {var}")
    if name in ("expr", "data"):
        k = sorted(o.bindings)[0]
        child = o.bindings[k]
        nb = dict(o.bindings)
        nb[k] = replace(child, tags=child.tags | {foo()})
        return replace(o, bindings=cdict(nb))
    if name == "dict":
        d = dict(o._data)
        d["b"] = replace(d["b"], axis_permutation=(0, 1))
        return replace(o, _data=d)
    if name == "call":
        c = o._container
        nb = dict(c.bindings)
        nb["pb"] = replace(nb["pb"], name="w")
        return replace(o, _container=replace(c, bindings=cdict(nb)))
    if name == "dist":
        return replace(o, send=replace(o.send, comm_tag=5))
    if name == "loopy":
        c = o._container
        nb = dict(c.bindings)
        nb["b"] = replace(nb["b"], name="w")
        return replace(o, _container=replace(c, bindings=cdict(nb)))
    if name == "csr":
        return replace(o, matrix=replace(o.matrix, elem_values=ph("ev2", (6,))))
    raise MachineryError(f"no mutation 2 for {name}")


_LC: dict[str, Any] = {"bid": None, "objs": {}}


def h_lc(bid: str, subject: str, events: list[dict]) -> list[dict]:
    """Execute the events of one behaviour that belong to this process and
    return them completed with the observations."""
    if _LC["bid"] != bid:
        _LC["bid"] = bid
        _LC["objs"] = {}
    objs = _LC["objs"]

    def cached(o: Any) -> bool:
        return "_hash_value" in getattr(o, "__dict__", {})
    out = []
    for ev in events:
        ev = dict(ev)
        op = ev["op"]
        if op == "build":
            o = _subject(subject)
            if ev["var"]:
                o = _mutate(subject, o, ev["var"])
            objs[ev["new"]] = o
            ev["cached"] = cached(o)
        elif op == "mutate":
            o = _mutate(subject, objs[ev["obj"]], ev["var"])
            objs[ev["new"]] = o
            ev["cached"] = cached(o)
        elif op == "hash":
            o = objs[ev["obj"]]
            ev["h"] = safe_hash(o)
            ev["cached"] = cached(o)
        elif op == "pickle":
            o = objs[ev["obj"]]
            ev["cached"] = cached(o)
            ev["data"] = base64.b64encode(pickle.dumps(o)).decode()
        elif op == "unpickle":
            o = pickle.loads(base64.b64decode(ev.pop("data")))
            objs[ev["new"]] = o
            ev["cached"] = cached(o)
            ev["stale"] = stale_hash_caches(o)
        elif op == "compare":
            a, b = objs[ev["a"]], objs[ev["b"]]
            ev["eq"] = bool(a == b)
            ev["ne"] = bool(a != b)
        else:
            raise MachineryError(f"unknown life-cycle event {op}")
        out.append(ev)
    return out


HANDLERS["lc"] = h_lc


# --------------------------------------------------------------------------
# event traces of the real EqualityComparer (PtEqMemo / PtEqCheck rel "memo")

def _ladder(n: int, style: str, shared: bool, leaf: str = "x", top_tag: bool = False
            ) -> Any:
    """A DAG of depth n in which every level uses the level below twice
    (2^n paths, n + 1 nodes when shared)."""
    import pytato as pt

    def build(k: int) -> Any:
        if k == 0:
            return ph(leaf, (2, 2), np.int64 if style in ("aidx", "bidx") else F8)
        a = build(k - 1)
        b = a if shared else build(k - 1)
        kind = style if style != "mix" else ("add", "stack", "mm", "where")[k % 4]
        if kind == "aidx":
            # the level below is used as an ARRAY-VALUED INDEX and as an operand
            return ph("t", (4,), np.int64)[a] + b
        if kind == "bidx":
            # two index arrays in one (non-contiguous) advanced index
            return ph("u", (4, 3, 4), np.int64)[a, 0, b]
        if kind == "add":
            return a + b
        if kind == "stack":
            return pt.stack([a, b])[0]
        if kind == "mm":
            return a @ b
        return pt.where(pt.greater(a, 0), a, b)
    r = build(n)
    return r.tagged(foo()) if top_tag else r


def memo_cases(tier: str) -> list[dict]:
    out = []
    for style in ("add", "stack", "mm", "mix", "aidx", "bidx"):
        for n in ((3, 6, 12, 18) if tier == "thorough" else (3, 10)):
            for other in ("same", "leaf", "top"):
                out.append({"id": f"memo/{style}/{n}/shared/{other}", "style": style, "n": n,
                            "shared": [True, True], "other": other})
        for other in ("same", "leaf"):
            out.append({"id": f"memo/{style}/4/tree-vs-dag/{other}", "style": style, "n": 4,
                        "shared": [False, True], "other": other})
            out.append({"id": f"memo/{style}/4/tree/{other}", "style": style, "n": 4,
                        "shared": [False, False], "other": other})
    return out


def h_memo(cases: list[dict]) -> list[dict]:
    import pytato.equality as E
    orig = E.EqualityComparer
    log: list[dict] = []
    ncmp = [0]
    posmap: dict[int, int] = {}

    class Recorder(orig):          # type: ignore[misc, valid-type]
        def __init__(self) -> None:
            super().__init__()
            ncmp[0] += 1
            self._no = ncmp[0]

        def rec(self, e1: Any, e2: Any) -> bool:
            try:
                a, b = posmap[id(e1)], posmap[id(e2)]
            except KeyError:
                raise MachineryError("the comparer visited an object outside the "
                                     f"exported graphs: {type(e1).__name__}") from None
            if e1 is e2:
                log.append({"c": self._no, "ev": "same", "a": a, "b": b, "res": True})
                return super().rec(e1, e2)
            if e1.__class__ is not e2.__class__:
                log.append({"c": self._no, "ev": "kind", "a": a, "b": b, "res": False})
                return super().rec(e1, e2)
            hit = (id(e1), id(e2)) in self._cache
            if not hit:
                log.append({"c": self._no, "ev": "enter", "a": a, "b": b, "res": False})
            res = bool(super().rec(e1, e2))
            log.append({"c": self._no, "ev": "hit" if hit else "ret", "a": a, "b": b,
                        "res": res})
            return res
    out = []
    for c in cases:
        a = _ladder(c["n"], c["style"], c["shared"][0])
        b = _ladder(c["n"], c["style"], c["shared"][1],
                    leaf="y" if c["other"] == "leaf" else "x",
                    top_tag=c["other"] == "top")
        ex = FamilyExporter()
        roots = [ex.node(a), ex.node(b)]
        posmap.clear()
        posmap.update(ex.pos)
        log.clear()
        ncmp[0] = 0
        E.EqualityComparer = Recorder
        try:
            result = bool(a == b)
        finally:
            E.EqualityComparer = orig
        out.append({"id": c["id"], "rel": "memo", "nodes": ex.nodes, "roots": roots,
                    "evs": list(log), "result": result, "ncomparers": ncmp[0],
                    "paths": 2 ** c["n"]})
    return out


HANDLERS["memo"] = h_memo
