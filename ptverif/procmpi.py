"""Ranks as separate interpreter processes with DIFFERENT hash seeds (C09:
"interpreter hash seeds differing between ranks").  Only the partitioning
pipeline runs this way (find -> verify -> number); its collectives
(allreduce / bcast / gather / barrier) are relayed by the parent over pipes,
payloads travel pickled exactly as between real MPI ranks.

Parent:  pool = RankPool(nmax, seeds); rec = pool.run(prog); pool.close()
Child:   builds its own rank's DAG, runs the three stages with a PipeComm,
         exports the structure of its partition (distharness.export_rank_struct)
         and the communication ends of its DAG.
"""
from __future__ import annotations

import multiprocessing as mp
import os
import pickle
from multiprocessing.connection import wait
from typing import Any

import numpy as np

from .common import MachineryError


class _Abort(BaseException):
    pass


class PipeComm:
    def __init__(self, conn: Any, rank: int, size: int, seed: int):
        self.conn, self.rank, self.size, self.seed = conn, rank, size, seed
        self.seq = 0

    def Get_rank(self) -> int:
        return self.rank

    def Get_size(self) -> int:
        return self.size

    def _coll(self, kind: str, payload: Any, root: int | None) -> Any:
        self.seq += 1
        self.conn.send(("coll", kind, self.seq, pickle.dumps(payload), root))
        tag, data = self.conn.recv()
        if tag == "abort":
            raise _Abort(data)
        return data

    def barrier(self) -> None:
        self._coll("barrier", None, None)

    def bcast(self, obj: Any, root: int = 0) -> Any:
        data = self._coll("bcast", obj if self.rank == root else None, root)
        return obj if self.rank == root else pickle.loads(data)

    def gather(self, obj: Any, root: int = 0) -> Any:
        data = self._coll("gather", obj, root)
        return [pickle.loads(b) for b in data] if self.rank == root else None

    def allreduce(self, obj: Any, op: Any = None) -> Any:
        data = self._coll("allreduce", obj, None)
        order = [int(i) for i in np.random.default_rng(
            [self.seed, self.rank, self.seq]).permutation(self.size)]
        vals = [pickle.loads(data[r]) for r in order]
        fn = op.fn if hasattr(op, "fn") else op
        acc = vals[0]
        for v in vals[1:]:
            acc = fn(acc, v, None)
        return acc


def _child_main(conn: Any, rank: int, repo: str, verif: str) -> None:
    import sys
    for d in (repo, verif):
        if d not in sys.path:
            sys.path.insert(0, d)
    from ptverif import distharness as dh
    from ptverif import fakempi
    fakempi.install()
    from pytato.distributed.partition import find_distributed_partition
    from pytato.distributed.tags import number_distributed_tags
    from pytato.distributed.verify import verify_distributed_partition
    conn.send(("hello", rank, os.environ.get("PYTHONHASHSEED"), hash("ptverif")))
    state: dict[str, Any] = {}
    while True:
        msg = conn.recv()
        if msg[0] == "quit":
            return
        if msg[0] == "prog":
            prog, sd = msg[1], msg[2]
            state = {"prog": prog, "seed": sd, "sym": None, "num": None, "next": None}
            try:
                state["dag"] = dh.build_rank(prog, rank)[0]
                conn.send(("built", None))
            except Exception as ex:      # noqa: BLE001
                conn.send(("built", f"{type(ex).__name__}: {ex}"))
            continue
        if msg[0] == "stage":
            stage = msg[1]
            comm = PipeComm(conn, rank, state["prog"]["nranks"], state["seed"])
            st = {"status": "ok", "exc": "", "msg": "", "reason": ""}
            try:
                if stage == "find":
                    state["sym"] = find_distributed_partition(comm, state["dag"])
                elif stage == "verify":
                    verify_distributed_partition(comm, state["sym"])
                elif stage == "number":
                    state["num"], state["next"] = number_distributed_tags(
                        comm, state["sym"], base_tag=msg[2])
            except _Abort as ex:
                st = {"status": "blocked", "exc": "", "msg": "", "reason": str(ex)}
            except Exception as ex:      # noqa: BLE001
                st = {"status": "raised", "exc": type(ex).__name__, "msg": str(ex)[:200],
                      "reason": ""}
            st["documented"] = st["exc"] in dh.DOCUMENTED
            conn.send(("stage_done", st))
            continue
        if msg[0] == "export":
            try:
                prog = state["prog"]
                userin = sorted(nd["name"] for nd in prog["ranks"][rank]["nodes"]
                                if nd["k"] == "in")
                rec, _ = dh.export_rank_struct(prog, rank, state["dag"], state["sym"],
                                               state["num"], state["next"], userin)
                tokens = dh.sym_tags_of(prog)
                sends, recvs = dh.comm_ends([state["dag"]])
                ends = {"sends": [{"rank": rank, "dst": s["dst"],
                                   "sym": dh._tagtok(tokens, s["tag"]), "deps": s["deps"]}
                                  for s in sends],
                        "recvs": [{"rank": rank, "src": v["src"],
                                   "sym": dh._tagtok(tokens, v["tag"])} for v in recvs]}
                conn.send(("export", rec, ends, None))
            except Exception as ex:      # noqa: BLE001
                import traceback
                conn.send(("export", None, None,
                           f"{type(ex).__name__}: {ex}\n{traceback.format_exc()[-800:]}"))


class RankPool:
    def __init__(self, nmax: int, seeds: list[int], repo: str, verif: str):
        self.nmax = nmax
        self.conns: list[Any] = []
        self.procs: list[Any] = []
        self.hello: list[tuple] = []
        ctx = mp.get_context("spawn")
        old = os.environ.get("PYTHONHASHSEED")
        try:
            for r in range(nmax):
                a, b = ctx.Pipe()
                os.environ["PYTHONHASHSEED"] = str(seeds[r])
                p = ctx.Process(target=_child_main, args=(b, r, repo, verif), daemon=True)
                p.start()
                self.conns.append(a)
                self.procs.append(p)
        finally:
            if old is None:
                os.environ.pop("PYTHONHASHSEED", None)
            else:
                os.environ["PYTHONHASHSEED"] = old
        for a in self.conns:
            if not a.poll(120):
                raise MachineryError("rank process did not start")
            self.hello.append(a.recv())

    def close(self) -> None:
        for a in self.conns:
            try:
                a.send(("quit",))
            except Exception:      # noqa: BLE001
                pass
        for p in self.procs:
            p.join(5)
            if p.is_alive():
                p.terminate()

    def _relay(self, n: int, timeout: float = 120) -> list[dict]:
        """Serve collectives until every rank reported the end of the stage."""
        conns = self.conns[:n]
        waiting: dict[int, tuple] = {}
        done: dict[int, dict] = {}
        while len(done) < n:
            live = [c for r, c in enumerate(conns) if r not in done and r not in waiting]
            if live:
                ready = wait(live, timeout)
                if not ready:
                    raise MachineryError("rank process hung in a stage")
                for c in ready:
                    r = conns.index(c)
                    msg = c.recv()
                    if msg[0] == "coll":
                        waiting[r] = msg
                    elif msg[0] == "stage_done":
                        done[r] = msg[1]
                    else:
                        raise MachineryError(f"unexpected message {msg[0]}")
            if len(waiting) + len(done) < n:
                continue
            if not waiting:
                break
            if done:
                why = "peer_raised" if any(d["status"] == "raised" for d in done.values()) \
                    else "peer_returned"
                for r in list(waiting):
                    conns[r].send(("abort", why))
                    del waiting[r]
                continue
            kinds = {(m[1], m[2], m[4]) for m in waiting.values()}
            if len(kinds) != 1:
                for r in list(waiting):
                    conns[r].send(("abort", "collective_mismatch"))
                    del waiting[r]
                continue
            kind, _seq, root = next(iter(kinds))
            payloads = [waiting[r][3] for r in range(n)]
            for r in range(n):
                if kind == "barrier":
                    data: Any = None
                elif kind == "bcast":
                    data = payloads[root]
                elif kind == "gather":
                    data = payloads if r == root else None
                else:
                    data = payloads
                conns[r].send(("ok", data))
            waiting.clear()
        return [done[r] for r in range(n)]

    def run(self, prog: dict, seed: int = 0, base_tag: int = 42) -> dict:
        n = prog["nranks"]
        if n > self.nmax:
            raise MachineryError("program has more ranks than the pool")
        for r in range(n):
            self.conns[r].send(("prog", prog, seed))
        for r in range(n):
            tag, err = self.conns[r].recv()
            if err:
                raise MachineryError(f"rank {r} could not build its DAG: {err}")
        stages: dict[str, list[dict]] = {"find": [], "verify": [{} for _ in range(n)],
                                         "number": [{} for _ in range(n)]}
        for r in range(n):
            self.conns[r].send(("stage", "find"))
        stages["find"] = self._relay(n)
        out: dict[str, Any] = {"id": prog["id"], "n": n, "stages": stages,
                               "seeds": [h[2] for h in self.hello[:n]]}
        if not all(s["status"] == "ok" for s in stages["find"]):
            return out
        for r in range(n):
            self.conns[r].send(("stage", "verify"))
        stages["verify"] = self._relay(n)
        for r in range(n):
            self.conns[r].send(("stage", "number", base_tag))
        stages["number"] = self._relay(n)
        if not all(s["status"] == "ok" for s in stages["number"]):
            return out
        ranks, sends, recvs = [], [], []
        for r in range(n):
            self.conns[r].send(("export",))
        for r in range(n):
            tag, rec, ends, err = self.conns[r].recv()
            if err:
                raise MachineryError(f"rank {r} could not export: {err}")
            ranks.append(rec)
            off = len(recvs)
            sends += [dict(e, deps=[d + off for d in e["deps"]]) for e in ends["sends"]]
            recvs += ends["recvs"]
        out["inst"] = {"id": prog["id"], "n": n, "ranks": ranks, "base_tag": base_tag,
                       "ends": {"n": n, "sends": sends, "recvs": recvs},
                       "verify": [("ok" if s.get("status") == "ok" else
                                   (s.get("exc") or s.get("status", "?")))
                                  for s in stages["verify"]]}
        return out
