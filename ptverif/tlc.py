"""Running TLC and reading what it says.

Three entry points:
  run_tlc(...)          one TLC invocation, parsed summary
  validate_records(...) shard a batch of JSON records over N TLC processes
                        running a validation module (use E of DESIGN 2.1)
  generate(...)         run a generator module and collect the behaviours it
                        prints (use G)
"""
from __future__ import annotations

import json
import os
import re
import subprocess
import time
from concurrent.futures import ThreadPoolExecutor
from dataclasses import dataclass, field
from typing import Any, Iterable

from .common import NCPU, SPEC_DIR, MachineryError, scratch

JAR = "/opt/veriftools/tla/tla2tools.jar"
CP = JAR + ":/opt/veriftools/tla/CommunityModules-deps.jar"


@dataclass
class TLCResult:
    rc: int
    out: str
    wall: float
    generated: int = 0
    distinct: int = 0
    depth: int = 0
    printed: list[str] = field(default_factory=list)
    violated: list[str] = field(default_factory=list)   # invariant / property names
    deadlock: bool = False
    error: str | None = None      # evaluation / parse error text (machinery)
    coverage: dict[str, int] = field(default_factory=dict)

    @property
    def ok(self) -> bool:
        return (self.error is None and not self.violated and not self.deadlock
                and self.rc == 0)


_counter = [0]


def run_tlc(module: str, cfg: str, *, env: dict[str, str] | None = None,
            workers: int | str = 1, args: Iterable[str] = (),
            timeout: float = 600, java_opts: Iterable[str] = (),
            heap: str = "2g", spec_dir: str = SPEC_DIR,
            coverage: bool = False) -> TLCResult:
    """cfg: path (absolute, or relative to spec_dir) of the .cfg file."""
    _counter[0] += 1
    meta = os.path.join(scratch(), f"tlc{os.getpid()}_{_counter[0]}_{time.time_ns()}")
    # -Xss: TLC evaluates RECURSIVE operators on the Java stack; the default
    # thread stack overflows on folds over a few dozen elements (reported as an
    # error of TLCEval with an empty message)
    cmd = ["java", "-XX:+UseParallelGC", f"-Xmx{heap}", "-Xss64m", *java_opts, "-cp", CP,
           "tlc2.TLC", "-metadir", meta, "-noGenerateSpecTE",
           "-workers", str(workers), "-config", cfg, *args]
    if coverage:
        cmd += ["-coverage", "1"]
    cmd.append(module)
    e = dict(os.environ)
    e.update(env or {})
    t0 = time.time()
    try:
        p = subprocess.run(cmd, cwd=spec_dir, env=e, capture_output=True,
                           text=True, timeout=timeout)
        out, rc = p.stdout + p.stderr, p.returncode
    except subprocess.TimeoutExpired as ex:
        out = (ex.stdout or b"").decode(errors="replace") if isinstance(
            ex.stdout, bytes) else (ex.stdout or "")
        rc = 124
    finally:
        import shutil
        shutil.rmtree(meta, ignore_errors=True)
    res = TLCResult(rc=rc, out=out, wall=time.time() - t0)
    _parse(res)
    if rc == 124:
        res.error = f"TLC timed out after {timeout}s"
    return res


_RE_STATES = re.compile(
    r"(\d+) states generated, (\d+) distinct states found")
_RE_DEPTH = re.compile(r"The depth of the complete state graph search is (\d+)")
_RE_INV = re.compile(r"Error: Invariant (\S+) is violated")
_RE_PROP = re.compile(r"Error: (?:Action|Temporal) propert(?:y|ies) (\S+)? ?.*violated")
_RE_COV = re.compile(r"^<(\w+) line \d+, col \d+ to line \d+, col \d+ of module \w+>"
                     r"(?:: (\d+):(\d+))", re.M)


def _parse(res: TLCResult) -> None:
    out = res.out
    for m in _RE_STATES.finditer(out):
        res.generated, res.distinct = int(m.group(1)), int(m.group(2))
    m = _RE_DEPTH.search(out)
    if m:
        res.depth = int(m.group(1))
    res.violated = _RE_INV.findall(out)
    if "Temporal properties were violated" in out:
        res.violated.append("<temporal>")
    if re.search(r"Error: Action property \S+", out):
        res.violated += re.findall(r"Error: Action property (\S+)", out)
    if "Error: Deadlock reached" in out:
        res.deadlock = True
    pending: list[str] = []
    for line in out.splitlines():
        if pending:
            # TLC's pretty printer wraps long tuples over several lines:
            # join them again (brackets balanced) and undo the padding
            pending.append(line.strip())
            joined = " ".join(pending)
            if joined.count("<<") <= joined.count(">>"):
                res.printed.append(joined.replace("<< ", "<<").replace(" >>", ">>"))
                pending = []
            continue
        if line.startswith("<<") and line.count("<<") > line.count(">>"):
            pending = [line.strip()]
            continue
        if line.startswith("<<") or line.startswith('"'):
            res.printed.append(line)
    for m in _RE_COV.finditer(out):
        res.coverage[m.group(1)] = res.coverage.get(m.group(1), 0) + int(m.group(3))
    # evaluation errors, parse errors, missing files, assertion failures
    errs = []
    for pat in (r"Error: TLC threw an unexpected exception.*",
                r"Error: Evaluating.*", r"Error: The .*",
                r"Error: Attempted.*", r"Error: In evaluation.*",
                r"\*\*\* Errors:.*", r"Error: Parsing.*", r"Fatal errors.*",
                r"Error: TLC encountered.*", r"Error: The first argument of Assert.*",
                r"Error: .*not enumerable.*", r"Error: Too many possible next.*",
                r"java\.lang\.\w+(Error|Exception).*",
                r"Error: Failed to.*", r"Error: Unknown.*", r"Error: Found.*",
                r"Error: Configuration file.*", r"TLC threw.*"):
        errs += re.findall(pat, out)
    if errs:
        i = out.find(errs[0])
        res.error = out[i:i + 1500]
    elif res.rc not in (0, 12, 13, 11) and not res.violated and not res.deadlock:
        # TLC exit codes: 12 safety violation, 13 liveness, 11 deadlock
        res.error = f"TLC exit code {res.rc}: " + out[-1500:]


# --------------------------------------------------------------------------
# E: validation of exported records

_RE_VERDICT = re.compile(r'^<<"V", ("(?:[^"\\]|\\.)*"|-?\d+), "([^"]*)"(?:, (.*))?>>$')


@dataclass
class Validation:
    verdicts: dict[str, str]            # record id -> "ok" or failing clause
    detail: dict[str, str]
    states: int = 0
    transitions: int = 0
    wall: float = 0.0
    runs: int = 0


def validate_records(module: str, cfg: str, records: list[dict], *,
                     shards: int | None = None, timeout: float = 900,
                     env: dict[str, str] | None = None,
                     heap: str = "2g") -> Validation:
    """Every record must carry a unique string "id".  The validation module
    prints exactly one line <<"V", id, clause>> per record, clause = "ok" or
    the name of the first failing clause.  A record without a verdict line is
    a machinery failure (TLC aborted while evaluating it)."""
    if not records:
        return Validation({}, {})
    ids = [r["id"] for r in records]
    if len(set(ids)) != len(ids):
        raise MachineryError("duplicate record ids in batch")
    shards = shards or min(NCPU, max(1, len(records) // 20))
    chunks = [records[i::shards] for i in range(shards)]
    chunks = [c for c in chunks if c]
    files = []
    for i, c in enumerate(chunks):
        p = os.path.join(scratch(), f"batch_{os.getpid()}_{time.time_ns()}_{i}.json")
        with open(p, "w") as f:
            json.dump(c, f)
        files.append(p)

    def one(p: str) -> TLCResult:
        e = dict(env or {})
        e["BATCH_FILE"] = p
        return run_tlc(module, cfg, env=e, workers=1, timeout=timeout, heap=heap)

    t0 = time.time()
    with ThreadPoolExecutor(max_workers=len(files)) as ex:
        results = list(ex.map(one, files))
    val = Validation({}, {}, wall=time.time() - t0, runs=len(files))
    for p, c, res in zip(files, chunks, results):
        for line in res.printed:
            m = _RE_VERDICT.match(line.strip())
            if m:
                rid = json.loads(m.group(1)) if m.group(1).startswith('"') \
                    else m.group(1)
                # keep the first non-ok verdict if a record reports several
                if val.verdicts.get(rid, "ok") == "ok":
                    val.verdicts[rid] = m.group(2)
                    if m.group(3):
                        val.detail[rid] = m.group(3)
        val.states += res.distinct
        val.transitions += res.generated
        missing = [r["id"] for r in c if r["id"] not in val.verdicts]
        if missing or res.error:
            keep = os.path.join(scratch(), "failed_batch.json")
            os.replace(p, keep)
            raise MachineryError(
                f"TLC gave no verdict for {len(missing)} record(s) "
                f"(first: {missing[:3]}) in {module}; batch kept at {keep}\n"
                f"{res.error or res.out[-2000:]}")
        os.unlink(p)
    return val


# --------------------------------------------------------------------------
# G: behaviours printed by a generator module

def parse_printed_json(res: TLCResult, tag: str) -> list[Any]:
    """Lines of the form <<"TAG", "<json string>">> -> decoded objects."""
    out = []
    pre = f'<<"{tag}", '
    for line in res.printed:
        line = line.strip()
        if line.startswith(pre) and line.endswith(">>"):
            body = line[len(pre):-2]
            try:
                s = json.loads(body)          # TLA+ string literal ~ JSON string
                out.append(json.loads(s))
            except json.JSONDecodeError as ex:
                raise MachineryError(f"cannot parse generator line: {line[:200]}") from ex
    return out


def sany(path: str) -> tuple[bool, str]:
    p = subprocess.run(["java", "-cp", CP, "tla2sany.SANY", path],
                       cwd=os.path.dirname(path), capture_output=True, text=True)
    out = p.stdout + p.stderr
    bad = ("Could not" in out or "*** Errors" in out or "Fatal" in out
           or "Abort" in out or "error" in out.lower() and "0 error" not in out.lower()
           and "Semantic errors" in out)
    return (p.returncode == 0 and not bad), out
