"""Programs for the distributed family: conversion of DistComm behaviours
(abstract communication structure printed by TLC) into per-rank DAG skeletons
("prog", see distharness), the fixed library of named topologies, and the
TLC generator runs."""
from __future__ import annotations

import json
import os
import zlib
from typing import Any, Iterable

from . import disttags, tlc
from .common import MachineryError, scratch, seed


# --------------------------------------------------------------------------
# DistComm behaviour -> prog

def comm_to_prog(b: dict, pid: str, tagkind: str = "str") -> dict:
    n = b["n"]
    ranks = []
    for r in range(n):
        nodes: list[dict] = []

        def add(nd: dict) -> int:
            nodes.append(nd)
            return len(nodes) - 1
        holders: set[tuple] = set()

        def hold(data_: int, dst: int, tag: int, pas: int) -> int:
            """A holder node; two holders that would be equal in every field
            (one node for pytato) are kept apart by one more operation on the
            pass-through, so that every send end of the behaviour exists."""
            if (data_, dst, tag, pas) in holders:
                pas = add({"k": "op", "args": [pas]})
            holders.add((data_, dst, tag, pas))
            return add({"k": "hold", "data": data_, "dst": dst, "tag": tag, "pass": pas})
        x = add({"k": "in", "name": f"x{r}"})
        mode, staple = b["stored"][r], b["staple"][r]
        base = x
        if mode in (1, 3):
            base = add({"k": "op", "args": [x], "st": 1})
        raw: dict[int, int] = {}
        wrapped: dict[int, int] = {}
        for j, rv in enumerate(b["recvs"], 1):
            if rv["dst"] != r or not rv["on"] or not rv["reach"]:
                continue
            raw[j] = add({"k": "recv", "src": rv["src"], "tag": rv["tag"], "v": rv["v"]})
            wrapped[j] = add({"k": "op", "args": [raw[j]], "st": 1}) if mode in (2, 3) \
                else raw[j]
        data: dict[int, int] = {}
        mine_all = {i: s for i, s in enumerate(b["sends"], 1) if s["src"] == r}

        def alive(i: int) -> bool:
            s = mine_all[i]
            return s.get("alive", s["on"])

        def hosted(j: int) -> list[int]:
            return [i for i, s in mine_all.items() if s.get("inside", 0) == j and alive(i)]

        def build_data(i: int) -> int:
            """The array send i sends; holders placed inside its data are
            operands of it (their value is their pass-through, the base)."""
            if i in data:
                return data[i]
            s = mine_all[i]
            deps = [j for j in s["deps"] if j in raw]
            kids = hosted(i)
            if s["share"] and s["share"] in mine_all and not kids:
                data[i] = build_data(s["share"])
            elif s["kind"] == "in" and not kids:
                data[i] = x
            elif s["kind"] == "fwd" and len(deps) == 1 and not kids:
                data[i] = raw[deps[0]]
            else:
                inner = [hold(build_data(c), mine_all[c]["dst"], mine_all[c]["tag"], base)
                         for c in kids]
                data[i] = add({"k": "op", "args": inner + [base] + [wrapped[j] for j in deps]})
            return data[i]
        for i in mine_all:
            build_data(i)
        feeds = [wrapped[j] for j, rv in enumerate(b["recvs"], 1)
                 if j in raw and rv["use"] in ("out", "both")]
        top = [(i, s) for i, s in mine_all.items() if alive(i) and not s.get("inside", 0)]
        mine = [(i, s) for i, s in top if not s.get("par")]
        # holders in parallel: operands of the output expression, each on the base
        feeds = [hold(data[i], s["dst"], s["tag"], base) for i, s in top if s.get("par")] + feeds
        if staple == 0:
            h = add({"k": "op", "args": [base] + feeds})
            for i, s in mine:
                h = hold(data[i], s["dst"], s["tag"], h)
            out = h
        else:
            h = base
            for i, s in mine:
                h = hold(data[i], s["dst"], s["tag"], h)
            out = add({"k": "op", "args": [h] + feeds})
        outs = [["out", out]]
        # an extra overall output that is a materialised array other parts read too
        eo = (b.get("eo") or [0] * n)[r]
        if eo == 1 or (eo == 2 and base == x):
            outs.append(["x_unchanged", x])
        elif eo == 2:
            outs.append(["stored_base", base])
        for j, rv in enumerate(b["recvs"], 1):
            if j in raw and rv["use"] in ("asout", "both"):
                outs.append([f"r{j}", raw[j]])
        ranks.append({"nodes": nodes, "outs": outs})
    return {"id": pid, "nranks": n, "tagkind": tagkind, "ranks": ranks,
            "gen": {k: b[k] for k in ("faults", "wf", "why", "affected", "expect", "levels",
                                      "abs") if k in b},
            "comm": {"sends": b["sends"], "recvs": b["recvs"], "stored": b["stored"],
                     "staple": b["staple"], "eo": b.get("eo")}}


def behaviour_id(b: dict) -> str:
    core = {k: b.get(k) for k in ("n", "sends", "recvs", "stored", "staple", "eo", "faults")}
    return format(zlib.crc32(json.dumps(core, sort_keys=True).encode()), "08x")


def pick_tagkind(pid: str) -> str:
    return disttags.KINDS[zlib.crc32(pid.encode()) % len(disttags.KINDS)]


# --------------------------------------------------------------------------
# running the generator

def gen_cfg(**consts: Any) -> str:
    d = {"MaxRanks": 3, "MaxOps": 3, "NTags": 2, "Variants": False, "MaxFaults": 0,
         "EmitValid": True, "MinOps": 0, "Exhaustive": True}
    d.update(consts)
    body = "CONSTANTS\n" + "\n".join(
        f"  {k} = {str(v).upper() if isinstance(v, bool) else v}" for k, v in d.items())
    body += "\nINIT Init\nNEXT Next\nINVARIANT Emit\nINVARIANT ModelOK\nCHECK_DEADLOCK FALSE\n"
    os.makedirs(scratch(), exist_ok=True)
    p = os.path.join(scratch(), f"DistComm_{zlib.crc32(body.encode()):08x}.cfg")
    with open(p, "w") as f:
        f.write(body)
    return p


def generate(label: str, simulate: int = 0, depth: int = 80, timeout: float = 900,
             **consts: Any) -> tuple[list[dict], dict]:
    """-> (behaviours, stats).  Exhaustive BFS unless simulate > 0."""
    cfg = gen_cfg(**consts)
    args: list[str] = []
    if simulate:
        args = ["-simulate", f"num={simulate}", "-depth", str(depth),
                "-seed", str(seed() * 7919 + zlib.crc32(label.encode()) % 100000)]
    res = tlc.run_tlc("DistComm", cfg, workers=1, args=args, timeout=timeout, heap="3g",
                      env={"JAVA_TOOL_OPTIONS": "-XX:ParallelGCThreads=2"})
    if res.error or res.violated:
        raise MachineryError(f"DistComm generator failed ({label}): "
                             f"{res.error or res.violated}\n{res.out[-1500:]}")
    bs = tlc.parse_printed_json(res, "B")
    seen, out = set(), []
    for b in bs:
        k = behaviour_id(b)
        if k in seen:
            continue
        seen.add(k)
        b["_id"] = f"{label}/{k}"
        out.append(b)
    return out, {"label": label, "emitted": len(bs), "distinct": len(out),
                 "tlc_states": res.distinct, "tlc_generated": res.generated,
                 "wall_s": round(res.wall, 1), "simulate": simulate, "consts": consts}


def progs_from(bs: Iterable[dict]) -> list[dict]:
    return [comm_to_prog(b, b["_id"], pick_tagkind(b["_id"])) for b in bs]


# --------------------------------------------------------------------------
# the library of named topologies (prog level)

class _B:
    """Tiny builder for one rank."""

    def __init__(self) -> None:
        self.nodes: list[dict] = []
        self.outs: list[list] = []

    def inp(self, name: str = "x", shape: list[int] | None = None) -> int:
        nd = {"k": "in", "name": name}
        if shape is not None:
            nd["shape"] = shape
        self.nodes.append(nd)
        return len(self.nodes) - 1

    def dw(self, *vals: int) -> int:
        self.nodes.append({"k": "dw", "vals": list(vals)})
        return len(self.nodes) - 1

    def recv(self, src: int, tag: int, v: int = 0, shape: list[int] | None = None) -> int:
        nd = {"k": "recv", "src": src, "tag": tag, "v": v}
        if shape is not None:
            nd["shape"] = shape
        self.nodes.append(nd)
        return len(self.nodes) - 1

    def op(self, *args: int, st: int = 0) -> int:
        self.nodes.append({"k": "op", "args": list(args), "st": st})
        return len(self.nodes) - 1

    def hold(self, data: int, dst: int, tag: int, pas: int) -> int:
        self.nodes.append({"k": "hold", "data": data, "dst": dst, "tag": tag, "pass": pas})
        return len(self.nodes) - 1

    def out(self, name: str, idx: int) -> None:
        self.outs.append([name, idx])

    def done(self) -> dict:
        return {"nodes": self.nodes, "outs": self.outs}


def _prog(pid: str, ranks: list[_B], tagkind: str = "str", **feat: Any) -> dict:
    return {"id": pid, "nranks": len(ranks), "tagkind": tagkind,
            "ranks": [b.done() for b in ranks], "features": feat}


def library(tagkinds: Iterable[str] = ("str",)) -> list[dict]:
    out: list[dict] = []
    for tk in tagkinds:
        out += list(_library(tk))
    return out


def _library(tk: str) -> Iterable[dict]:
    sfx = "" if tk == "str" else f"@{tk}"

    # no communication at all, 1..3 ranks
    for n in (1, 2, 3):
        rs = []
        for r in range(n):
            b = _B()
            x = b.inp()
            b.out("out", b.op(x))
            rs.append(b)
        yield _prog(f"lib/nocomm{n}{sfx}", rs, tk)

    # ring: everybody sends op(x) to the right neighbour, n = 2..4
    for n in (2, 3, 4):
        rs = []
        for r in range(n):
            b = _B()
            x = b.inp()
            d = b.op(x)
            rv = b.recv((r - 1) % n, 1)
            o = b.op(x, rv)
            b.out("out", b.hold(d, (r + 1) % n, 1, o))
            rs.append(b)
        yield _prog(f"lib/ring{n}{sfx}", rs, tk)

    # token ring: the token goes once around, every hop depends on the previous one
    for n in (2, 3, 4):
        rs = []
        for r in range(n):
            b = _B()
            x = b.inp()
            if r == 0:
                d = b.op(x)
                back = b.recv(n - 1, n)
                o = b.op(x, back)
                b.out("out", b.hold(d, 1, 1, o))
            else:
                rv = b.recv(r - 1, r)
                d = b.op(x, rv)
                o = b.op(rv)
                b.out("out", b.hold(d, (r + 1) % n, r + 1, o))
            rs.append(b)
        yield _prog(f"lib/token{n}{sfx}", rs, tk)

    # star: rank 0 scatters, the others answer with data depending on what they got
    for n in (3, 4):
        rs = []
        b = _B()
        x = b.inp()
        backs = [b.recv(r, 10 + r) for r in range(1, n)]
        o = b.op(x, *backs)
        for r in range(1, n):
            o = b.hold(b.op(x), r, r, o)
        b.out("out", o)
        rs.append(b)
        for r in range(1, n):
            b = _B()
            x = b.inp()
            rv = b.recv(0, r)
            o = b.op(x, rv)
            b.out("out", b.hold(b.op(rv), 0, 10 + r, o))
            rs.append(b)
        yield _prog(f"lib/star{n}{sfx}", rs, tk)

    # chain 0 -> 1 -> 2 -> 3
    for n in (3, 4):
        rs = []
        for r in range(n):
            b = _B()
            x = b.inp()
            if r == 0:
                o = b.hold(b.op(x), 1, 1, b.op(x))
            elif r < n - 1:
                rv = b.recv(r - 1, 1)
                o = b.hold(b.op(x, rv), r + 1, 1, b.op(rv))
            else:
                rv = b.recv(r - 1, 1)
                o = b.op(x, rv)
            b.out("out", o)
            rs.append(b)
        yield _prog(f"lib/chain{n}{sfx}", rs, tk)

    # several results sent to one peer
    b0, b1 = _B(), _B()
    x = b0.inp()
    o = b0.op(x)
    for t in (1, 2, 3):
        o = b0.hold(b0.op(x), 1, t, o)
    b0.out("out", o)
    y = b1.inp()
    rvs = [b1.recv(0, t) for t in (3, 1, 2)]
    b1.out("out", b1.op(y, *rvs))
    yield _prog(f"lib/multisend{sfx}", [b0, b1], tk)

    # sent data that depends on received data (one round trip)
    b0, b1 = _B(), _B()
    x = b0.inp()
    back = b0.recv(1, 2)
    b0.out("out", b0.hold(b0.op(x), 1, 1, b0.op(x, back)))
    y = b1.inp()
    rv = b1.recv(0, 1)
    b1.out("out", b1.hold(b1.op(rv), 0, 2, b1.op(y, rv)))
    yield _prog(f"lib/roundtrip{sfx}", [b0, b1], tk)

    # the two-round ping-pong of PR 393
    b0, b1 = _B(), _B()
    x = b0.inp()
    r2 = b0.recv(1, 2)
    r4 = b0.recv(1, 4)
    o = b0.op(x, r4)
    o = b0.hold(b0.op(x), 1, 1, o)
    o = b0.hold(b0.op(r2), 1, 3, o)
    b0.out("out", o)
    y = b1.inp()
    r1 = b1.recv(0, 1)
    r3 = b1.recv(0, 3)
    o = b1.op(y, r3)
    o = b1.hold(b1.op(r1), 0, 2, o)
    o = b1.hold(b1.op(r3), 0, 4, o)
    b1.out("out", o)
    yield _prog(f"lib/pingpong2{sfx}", [b0, b1], tk)

    # three rounds: a rank with THREE receiving parts, each round's send computed from the
    # previous round's receive (all schedules of it are executed: a part whose receives
    # have completed must run although a later part's receives are complete, too)
    b0, b1 = _B(), _B()
    x = b0.inp()
    r2, r4, r6 = b0.recv(1, 2), b0.recv(1, 4), b0.recv(1, 6)
    o = b0.op(x, r6)
    o = b0.hold(b0.op(x), 1, 1, o)
    o = b0.hold(b0.op(r2), 1, 3, o)
    o = b0.hold(b0.op(r4), 1, 5, o)
    b0.out("out", o)
    y = b1.inp()
    r1, r3, r5 = b1.recv(0, 1), b1.recv(0, 3), b1.recv(0, 5)
    o = b1.op(y, r5)
    o = b1.hold(b1.op(r1), 0, 2, o)
    o = b1.hold(b1.op(r3), 0, 4, o)
    o = b1.hold(b1.op(r5), 0, 6, o)
    b1.out("out", o)
    yield _prog(f"lib/pingpong3{sfx}", [b0, b1], tk)
    # ... and a rank that only collects: three receives that arrive in any order, each
    # feeding a part of its own through a chain of dependent stored arrays
    b0, b1 = _B(), _B()
    x = b0.inp()
    o = b0.op(x)
    for t in (1, 2, 3):
        o = b0.hold(b0.op(x), 1, t, o)
    b0.out("out", o)
    y = b1.inp()
    ra, rb, rc = b1.recv(0, 1), b1.recv(0, 2), b1.recv(0, 3)
    s1 = b1.hold(b1.op(ra), 0, 11, b1.op(y))
    s2 = b1.hold(b1.op(rb, s1), 0, 12, b1.op(y, rb))
    b1.out("out", b1.op(rc, s2))
    b0.out("back", b0.op(b0.recv(1, 11), b0.recv(1, 12)))
    yield _prog(f"lib/collect3{sfx}", [b0, b1], tk)

    # rank 1 has three receiving parts A (t1), B (t2, reads A's stored result), C (t3); t1
    # and t2 reach it WITHOUT waiting for anything it sends (t2 goes the long way through
    # rank 2), t3 is only sent once rank 0 has B's reply: when t1 and t2 complete in ONE
    # Waitsome, B must run right after A although a receive is still outstanding
    b0, b1, b2 = _B(), _B(), _B()
    x = b0.inp()
    v = b0.recv(2, 21)
    back = b0.recv(1, 12)
    o = b0.op(x, back)
    o = b0.hold(b0.op(x), 1, 1, o)
    o = b0.hold(b0.op(x), 2, 20, o)
    o = b0.hold(b0.op(v), 1, 2, o)
    o = b0.hold(b0.op(back), 1, 3, o)
    b0.out("out", o)
    y = b1.inp()
    ra, rb, rc = b1.recv(0, 1), b1.recv(0, 2), b1.recv(0, 3)
    sa = b1.op(ra, y, st=1)
    ob = b1.hold(b1.op(rb, sa), 0, 12, b1.op(sa))
    b1.out("out", b1.op(rc, ob))
    z = b2.inp()
    u = b2.recv(0, 20)
    b2.out("out", b2.hold(b2.op(u), 0, 21, b2.op(z, u)))
    yield _prog(f"lib/stream_then_reply{sfx}", [b0, b1, b2], tk)

    # a receive used only through a send holder: computed from, then forwarded
    b0, b1, b2 = _B(), _B(), _B()
    x = b0.inp()
    b0.out("out", b0.hold(b0.op(x), 1, 1, b0.op(x)))
    y = b1.inp()
    rv = b1.recv(0, 1)
    b1.out("out", b1.hold(b1.op(rv), 2, 1, b1.op(y)))
    z = b2.inp()
    b2.out("out", b2.op(z, b2.recv(1, 1)))
    yield _prog(f"lib/relay_computed{sfx}", [b0, b1, b2], tk)

    # ... and forwarded unchanged (the received array itself is the sent array)
    b0, b1, b2 = _B(), _B(), _B()
    x = b0.inp()
    b0.out("out", b0.hold(b0.op(x), 1, 1, b0.op(x)))
    y = b1.inp()
    rv = b1.recv(0, 1)
    b1.out("out", b1.hold(rv, 2, 1, b1.op(y)))
    z = b2.inp()
    b2.out("out", b2.op(z, b2.recv(1, 1)))
    yield _prog(f"lib/relay_unchanged{sfx}", [b0, b1, b2], tk, forward_recv=True)

    # outputs that are inputs unchanged / received data unchanged; the same
    # array under two output names
    b0, b1 = _B(), _B()
    x = b0.inp()
    d = b0.op(x)
    b0.out("same_as_input", x)
    b0.out("out", b0.hold(d, 1, 1, b0.op(x)))
    y = b1.inp()
    rv = b1.recv(0, 1)
    b1.out("got", rv)
    b1.out("got_again", rv)
    o = b1.op(y)
    b1.out("a", o)
    b1.out("b", o)
    yield _prog(f"lib/outs_unchanged{sfx}", [b0, b1], tk)

    # an input sent unchanged, and an output that carries the name of the input
    b0, b1 = _B(), _B()
    x = b0.inp()
    b0.out("out", b0.hold(x, 1, 1, b0.op(x)))
    y = b1.inp()
    b1.out("out", b1.op(y, b1.recv(0, 1)))
    yield _prog(f"lib/send_input{sfx}", [b0, b1], tk)

    # a CHAIN of holders stapled directly onto each other whose INNER holder is also
    # referenced elsewhere: as another output, by another expression, as (part of) the data
    # of the outer send -- every send exists once, however many paths lead to its holder
    for variant in ("out", "expr", "data", "three"):
        b0, b1 = _B(), _B()
        x = b0.inp()
        inner = b0.hold(b0.op(x), 1, 1, b0.op(x))
        if variant == "data":
            outer = b0.hold(b0.op(inner), 1, 2, inner)
        else:
            outer = b0.hold(b0.op(x, x), 1, 2, inner)
        if variant == "three":
            mid = outer
            outer = b0.hold(b0.op(x), 1, 3, mid)
            b0.out("mid", mid)
        b0.out("out", outer)
        if variant in ("out", "three"):
            b0.out("inner", inner)
        elif variant == "expr":
            b0.out("other", b0.op(inner, x))
        y = b1.inp()
        tags = (1, 2, 3) if variant == "three" else (2, 1)
        b1.out("out", b1.op(y, *[b1.recv(0, t) for t in tags]))
        yield _prog(f"lib/chain_shared_inner_{variant}{sfx}", [b0, b1], tk)

    # one array sent to two peers under the same tag
    b0, b1, b2 = _B(), _B(), _B()
    x = b0.inp()
    d = b0.op(x)
    o = b0.hold(d, 1, 1, b0.op(x))
    o = b0.hold(d, 2, 1, o)
    b0.out("out", o)
    for b in (b1, b2):
        y = b.inp()
        b.out("out", b.op(y, b.recv(0, 1)))
    yield _prog(f"lib/one_array_two_peers{sfx}", [b0, b1, b2], tk)

    # periodic neighbour exchange on 1..4 ranks (1 rank: no neighbours)
    for n in (1, 2, 3, 4):
        rs = []
        for r in range(n):
            b = _B()
            x = b.inp()
            if n == 1:
                b.out("out", b.op(x))
            else:
                left, right = (r - 1) % n, (r + 1) % n
                fl = b.recv(left, 1)      # what the left neighbour sent rightwards
                fr = b.recv(right, 2)     # what the right neighbour sent leftwards
                o = b.op(x, fl, fr)
                o = b.hold(b.op(x), right, 1, o)
                o = b.hold(b.op(x), left, 2, o)
                b.out("out", o)
            rs.append(b)
        yield _prog(f"lib/periodic{n}{sfx}", rs, tk)

    # a materialised array used before and after a communication round
    b0, b1 = _B(), _B()
    x = b0.inp()
    t = b0.op(x, st=1)
    back = b0.recv(1, 2)
    o = b0.op(t, back)
    b0.out("out", b0.hold(b0.op(t), 1, 1, o))
    y = b1.inp()
    t1 = b1.op(y, st=1)
    rv = b1.recv(0, 1)
    w = b1.op(rv, t1, st=1)
    b1.out("out", b1.hold(b1.op(w), 0, 2, b1.op(w, t1)))
    yield _prog(f"lib/stored_across_rounds{sfx}", [b0, b1], tk)

    # diamond over four ranks
    bs = [_B() for _ in range(4)]
    x = bs[0].inp()
    o = bs[0].op(x)
    o = bs[0].hold(bs[0].op(x), 1, 1, o)
    o = bs[0].hold(bs[0].op(x), 2, 1, o)
    bs[0].out("out", o)
    for r in (1, 2):
        y = bs[r].inp()
        rv = bs[r].recv(0, 1)
        bs[r].out("out", bs[r].hold(bs[r].op(y, rv), 3, 1, bs[r].op(rv)))
    z = bs[3].inp()
    bs[3].out("out", bs[3].op(z, bs[3].recv(1, 1), bs[3].recv(2, 1)))
    yield _prog(f"lib/diamond{sfx}", bs, tk)

    # two dependency paths of different length into one send: rank 2 receives
    # in two consecutive rounds and its send must wait for the later one
    bs = [_B() for _ in range(4)]
    x = bs[0].inp()
    o = bs[0].op(x)
    o = bs[0].hold(bs[0].op(x), 1, 1, o)
    o = bs[0].hold(bs[0].op(x), 2, 1, o)
    bs[0].out("out", o)
    y = bs[1].inp()
    rv = bs[1].recv(0, 1)
    bs[1].out("out", bs[1].hold(bs[1].op(y, rv), 2, 1, bs[1].op(rv)))
    z = bs[2].inp()
    short, long_ = bs[2].recv(0, 1), bs[2].recv(1, 1)
    bs[2].out("out", bs[2].hold(bs[2].op(short, long_), 3, 1, bs[2].op(z, short)))
    w = bs[3].inp()
    bs[3].out("out", bs[3].op(w, bs[3].recv(2, 1)))
    yield _prog(f"lib/uneven_paths{sfx}", bs, tk)

    # an overall output that is a materialised array computed / available in an
    # early part and read again by a later part (after the reply arrived): the
    # input unchanged, an ImplStored intermediate, a data wrapper, received data
    def replier() -> _B:
        b = _B()
        y = b.inp()
        rv = b.recv(0, 1)
        b.out("out", b.hold(b.op(rv, y), 0, 2, b.op(y, rv)))
        return b
    b0 = _B()
    x = b0.inp()
    back = b0.recv(1, 2)
    b0.out("out", b0.hold(b0.op(x), 1, 1, b0.op(x, back)))
    b0.out("x_unchanged", x)
    yield _prog(f"lib/out_is_input_read_later{sfx}", [b0, replier()], tk)

    b0 = _B()
    x = b0.inp()
    m = b0.op(x, st=1)
    back = b0.recv(1, 2)
    b0.out("out", b0.hold(b0.op(m), 1, 1, b0.op(m, back)))
    b0.out("m", m)
    yield _prog(f"lib/out_is_stored_read_later{sfx}", [b0, replier()], tk)

    b0 = _B()
    x = b0.inp()
    d = b0.dw(5, 7)
    back = b0.recv(1, 2)
    b0.out("out", b0.hold(b0.op(d, x), 1, 1, b0.op(d, back)))
    b0.out("d", d)
    yield _prog(f"lib/out_is_data_read_later{sfx}", [b0, replier()], tk)

    b0, b1 = _B(), _B()
    x = b0.inp()
    got = b0.recv(1, 1)
    back = b0.recv(1, 3)
    b0.out("out", b0.hold(b0.op(got), 1, 2, b0.op(got, back, x)))
    b0.out("got", got)
    y = b1.inp()
    rv = b1.recv(0, 2)
    o = b1.hold(b1.op(y), 0, 1, b1.op(y, rv))
    b1.out("out", b1.hold(b1.op(rv), 0, 3, o))
    yield _prog(f"lib/out_is_recv_read_later{sfx}", [b0, b1], tk)

    # one array sent by several sends of one part, sends of another array
    # between them in holder order (both orders, 2-3 sends of the shared array,
    # other destination / same destination under two tags)
    def sink(*src_tag: tuple) -> _B:
        b = _B()
        y = b.inp()
        b.out("out", b.op(y, *[b.recv(s_, t_) for s_, t_ in src_tag]))
        return b
    b0 = _B()
    x = b0.inp()
    shared, other = b0.op(x), b0.op(x)
    o = b0.op(x)
    for data_, dst, tag in ((shared, 1, 1), (other, 1, 2), (shared, 2, 3)):
        o = b0.hold(data_, dst, tag, o)
    b0.out("out", o)
    yield _prog(f"lib/shared_array_interleaved{sfx}",
                [b0, sink((0, 1), (0, 2)), sink((0, 3))], tk)

    b0 = _B()
    x = b0.inp()
    shared, other = b0.op(x), b0.op(x)
    o = b0.op(x)
    for data_, dst, tag in ((other, 2, 1), (shared, 1, 1), (other, 1, 2), (shared, 1, 3)):
        o = b0.hold(data_, dst, tag, o)
    b0.out("out", o)
    yield _prog(f"lib/shared_arrays_alternating{sfx}",
                [b0, sink((0, 1), (0, 2), (0, 3)), sink((0, 1))], tk)

    b0 = _B()
    x = b0.inp()
    shared, other, third = b0.op(x), b0.op(x), x
    o = b0.op(x)
    for data_, dst, tag in ((shared, 1, 1), (other, 2, 1), (shared, 2, 2), (third, 1, 2),
                            (shared, 1, 3)):
        o = b0.hold(data_, dst, tag, o)
    b0.out("out", o)
    yield _prog(f"lib/shared_array_three_sends{sfx}",
                [b0, sink((0, 1), (0, 2), (0, 3)), sink((0, 1), (0, 2))], tk)

    # a send whose data contains the holder of another send (both must be sent):
    # same round / the inner send one round later (its data needs a receive
    # that the outer send does not need) / nesting depth 2
    b0, b1 = _B(), _B()
    x = b0.inp()
    inner = b0.hold(b0.op(x), 1, 2, x)
    b0.out("out", b0.hold(b0.op(inner, x), 1, 1, b0.op(x)))
    y = b1.inp()
    b1.out("out", b1.op(y, b1.recv(0, 1), b1.recv(0, 2)))
    yield _prog(f"lib/send_in_data{sfx}", [b0, b1], tk)

    b0, b1 = _B(), _B()
    x = b0.inp()
    back = b0.recv(1, 3)
    inner = b0.hold(b0.op(x, back), 1, 2, x)
    b0.out("out", b0.hold(b0.op(inner, x), 1, 1, b0.op(x)))
    y = b1.inp()
    o = b1.op(y, b1.recv(0, 1), b1.recv(0, 2))
    b1.out("out", b1.hold(b1.op(y), 0, 3, o))
    yield _prog(f"lib/send_in_data_later_round{sfx}", [b0, b1], tk)

    b0, b1 = _B(), _B()
    x = b0.inp()
    in2 = b0.hold(b0.op(x), 1, 3, x)
    in1 = b0.hold(b0.op(in2, x), 1, 2, x)
    b0.out("out", b0.hold(b0.op(in1, x), 1, 1, b0.op(x)))
    y = b1.inp()
    b1.out("out", b1.op(y, b1.recv(0, 1), b1.recv(0, 2), b1.recv(0, 3)))
    yield _prog(f"lib/send_in_data_depth2{sfx}", [b0, b1], tk)

    # two ranks talk, a third one only computes
    b0, b1, b2 = _B(), _B(), _B()
    x = b0.inp()
    b0.out("out", b0.hold(b0.op(x), 1, 1, b0.op(x)))
    y = b1.inp()
    b1.out("out", b1.op(y, b1.recv(0, 1)))
    z = b2.inp()
    b2.out("out", b2.op(z))
    yield _prog(f"lib/idle_rank{sfx}", [b0, b1, b2], tk)

    # holders below the computation, and a holder whose value nobody computes with
    b0, b1 = _B(), _B()
    x = b0.inp()
    h = b0.hold(b0.op(x), 1, 1, x)
    b0.out("out", b0.op(h, b0.recv(1, 2)))
    y = b1.inp()
    rv = b1.recv(0, 1)
    h = b1.hold(b1.op(y), 0, 2, rv)
    b1.out("out", h)
    yield _prog(f"lib/holders_below{sfx}", [b0, b1], tk)

    # messages of different shapes, a scalar among them
    b0, b1 = _B(), _B()
    x = b0.inp()
    o = b0.op(x)
    o = b0.hold(b0.op(x), 1, 1, o)
    b0.out("out", o)
    y = b1.inp()
    b1.out("out", b1.op(y, b1.recv(0, 1)))
    yield _prog(f"lib/basic{sfx}", [b0, b1], tk)


def has_forward_recv(prog: dict) -> bool:
    """Structural feature used as a signature item: some send's data is a
    receive node itself (received data forwarded unchanged)."""
    for rk in prog["ranks"]:
        for nd in rk["nodes"]:
            if nd["k"] == "hold" and rk["nodes"][nd["data"]]["k"] == "recv":
                return True
    return False


# --------------------------------------------------------------------------
# the specification's own partitioner (DistComm!AbsParts) as an instance

def abs_instance(b: dict, iid: str, base_tag: int = 42) -> dict | None:
    """The abstract partition DistComm derives for a well-formed behaviour,
    in the format of distharness.export_instance, so that DistPartition and
    DistExec judge the specification's own partitioner exactly as they judge
    the real one.  Data flow of the abstract program: a sent array reads the
    rank's input x and the receives it depends on; the single output reads x
    and every receive of the rank (computed in the last part)."""
    if not b.get("abs"):
        return None
    n = b["n"]
    msgs = sorted({tuple(m["m"]) for rk in b["abs"] for p in rk for m in p["sends"]}
                  | {tuple(m) for rk in b["abs"] for p in rk for m in p["recvs"]})
    tag = {m: base_tag + i for i, m in enumerate(msgs)}
    ids: dict[tuple, int] = {}

    def vid(rank: int, name: str) -> int:
        return ids.setdefault((rank, name), len(ids) + 1)

    def rname(m: tuple) -> str:
        return f"r_{m[0]}_{m[1]}_{m[2]}"

    def dname(m: tuple) -> str:
        return f"d_{m[0]}_{m[1]}_{m[2]}"
    ranks = []
    ends = {"n": n, "sends": [], "recvs": []}
    for r in range(n):
        parts, posted = [], []
        exp = {"x": vid(r, "x")}
        allrecv: list[str] = []
        nparts = len(b["abs"][r])
        for k, p in enumerate(b["abs"][r]):
            recvs, sends, exprs = [], [], {}
            for m in sorted(map(tuple, p["recvs"])):
                rec = {"name": rname(m), "src": m[0], "tag": tag[m], "sym": f"abs:{m[2]}",
                       "shape": [2], "dtype": "<i8"}
                recvs.append(rec)
                posted.append(rec)
                allrecv.append(rname(m))
                exp[rname(m)] = vid(m[0], dname(m))
                ends["recvs"].append({"rank": r, "src": m[0], "sym": f"abs:{m[2]}"})
            for s in sorted(p["sends"], key=lambda s: tuple(s["m"])):
                m = tuple(s["m"])
                reads = sorted(["x"] + [rname(tuple(q)) for q in s["reads"]])
                sends.append({"name": dname(m), "dst": m[1], "tag": tag[m], "sym": f"abs:{m[2]}",
                              "reads": reads, "ncomm": 0, "same": True, "shape": [2],
                              "dtype": "<i8"})
                exprs[dname(m)] = {"reads": reads, "ncomm": 0}
                exp[dname(m)] = vid(r, dname(m))
                ends["sends"].append({"rank": r, "dst": m[1], "sym": f"abs:{m[2]}",
                                      "deps": []})
            if k == nparts - 1:
                exprs["out"] = {"reads": sorted(["x"] + allrecv), "ncomm": 0}
                exp["out"] = vid(r, "out")
            ins = sorted({nm for e in exprs.values() for nm in e["reads"]})
            parts.append({"pid": k, "needed": [k - 1] if k else [],
                          "user_in": [nm for nm in ins if nm == "x"],
                          "part_in": [nm for nm in ins if nm != "x"], "ins": ins,
                          "outs": sorted(exprs), "recvs": recvs, "sends": sends,
                          "exprs": exprs})
        ranks.append({"rank": r, "parts": parts, "posted": posted, "userin": ["x"],
                      "overall": ["out"], "outnames": ["out"],
                      "known": sorted(nm for p in parts for nm in p["outs"]),
                      "exp": exp, "gout": {"out": exp["out"]}, "undefined": [],
                      "next_tag": base_tag + len(msgs)})
    return {"id": iid, "n": n, "ranks": ranks, "global_ok": True, "global_err": "",
            "ends": ends, "base_tag": base_tag, "verify": ["ok"] * n, "values": len(ids)}


def has_nested_holder(prog: dict) -> bool:
    """Structural feature used as a signature item: the data of some send
    contains the holder of another send."""
    for rk in prog["ranks"]:
        nodes = rk["nodes"]

        def below(i: int, seen: set) -> bool:
            if i in seen:
                return False
            seen.add(i)
            nd = nodes[i]
            if nd["k"] == "hold":
                return True
            return any(below(j, seen) for j in nd.get("args", []))
        for nd in nodes:
            if nd["k"] == "hold" and below(nd["data"], set()):
                return True
    return False
