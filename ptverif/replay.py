"""Programs as data ("behaviour lines", DESIGN appendix B) and three
interpreters for them:

  PtBackend    replays the calls through pytato's public API
  NpBackend    performs the same calls with NumPy on concrete operands
  SpecBackend  builds the specification-level graph (NumPy-level node kinds
               of PtSem) so that TLC can evaluate the program's meaning

A program is
  {"inputs": [{"name", "shape", "dtype", "kind": "ph"|"dw", ["range": [lo,hi]]}],
   "calls":  [{"op": ..., ...}],          # value k = inputs first, then calls
   "outs":   {"out0": k, ...}}
Operands are 1-based value numbers, or scalars {"py": "int"|"float"|"complex"
|"bool", "v": "<repr>"} / {"np": "<dtype code>", "v": "<repr>"}.
"""
from __future__ import annotations

import ast
from typing import Any

import numpy as np

from .export import OFF, P, Unsupported, cast_id, const, dt, func_id

DT = {"b1": np.bool_, "i1": np.int8, "i2": np.int16, "i4": np.int32, "i8": np.int64,
      "u1": np.uint8, "u2": np.uint16, "u4": np.uint32, "u8": np.uint64,
      "f4": np.float32, "f8": np.float64, "c8": np.complex64, "c16": np.complex128}

UNARY = {"sin", "cos", "tan", "exp", "log", "sqrt", "sinh", "cosh", "tanh",
         "arcsin", "arccos", "arctan", "log10", "abs", "isnan", "real", "imag",
         "conj", "neg", "logical_not", "pos"}
BINARY = {"add", "sub", "mul", "truediv", "floordiv", "mod", "pow",
          "lt", "le", "gt", "ge", "eq", "ne", "logical_and", "logical_or",
          "maximum", "minimum", "arctan2", "bitand", "bitor", "bitxor"}
REDUCE = {"sum", "prod", "amax", "amin", "all", "any"}


class Rejected(Exception):
    """The backend refused the call at construction time."""
    def __init__(self, exc: BaseException):
        super().__init__(f"{type(exc).__name__}: {exc}")
        self.exc = exc


def scalar(s: dict) -> Any:
    if "py" in s:
        v = ast.literal_eval(s["v"]) if s["v"] not in ("nan", "inf", "-inf") \
            else float(s["v"])
        return {"int": int, "float": float, "complex": complex, "bool": bool}[s["py"]](v)
    v = ast.literal_eval(s["v"]) if s["v"] not in ("nan", "inf", "-inf") \
        else float(s["v"])
    return DT[s["np"]](v)


def is_ref(o: Any) -> bool:
    return isinstance(o, int) and not isinstance(o, bool)


def _opt(o: list) -> Any:
    return None if not o else o[0]


def py_index(items: list[dict], get: Any) -> tuple:
    out = []
    for it in items:
        if it["t"] == "int":
            out.append(it["v"])
        elif it["t"] == "slice":
            out.append(slice(_opt(it["start"]), _opt(it["stop"]), _opt(it["step"])))
        elif it["t"] == "arr":
            out.append(get(it["n"]))
        elif it["t"] == "ell":
            out.append(Ellipsis)
        elif it["t"] == "newaxis":
            out.append(None)
        else:
            raise ValueError(it)
    return tuple(out)


# --------------------------------------------------------------------------

def _pad_arg(v: Any) -> Any:
    """pad_width / constant_values as written in a program: a number, a pair
    [before, after] (-> tuple) or one pair per axis (-> list of tuples)."""
    if isinstance(v, list):
        if v and all(isinstance(x, list) for x in v):
            return [tuple(x) for x in v]
        return tuple(v)
    return v


class Backend:
    """Common driver: run(prog) evaluates calls in order; a rejected call
    leaves a hole (None) and is recorded."""

    catch: tuple = (Exception,)

    def run(self, prog: dict, stop_on_reject: bool = True) -> list[Any]:
        self.prog = prog
        self.values: list[Any] = []
        self.rejections: dict[int, Rejected] = {}
        for inp in prog["inputs"]:
            self.values.append(self.make_input(inp))
        for call in prog["calls"]:
            try:
                self.values.append(self.call(call))
            except Rejected as r:
                self.rejections[len(self.values) + 1] = r
                self.values.append(None)
                if stop_on_reject:
                    break
        return self.values

    def get(self, k: Any) -> Any:
        if is_ref(k):
            v = self.values[k - 1]
            if v is None:
                raise Rejected(ValueError("operand was rejected"))
            return v
        return scalar(k)

    def outs(self) -> dict[str, Any]:
        return {k: self.values[v - 1] for k, v in self.prog["outs"].items()}

    def make_input(self, inp: dict) -> Any:
        raise NotImplementedError

    def call(self, c: dict) -> Any:
        try:
            return self._call(c)
        except Rejected:
            raise
        except self.catch as ex:         # noqa: BLE001
            raise Rejected(ex) from ex

    def _call(self, c: dict) -> Any:
        raise NotImplementedError


# --------------------------------------------------------------------------

class PtBackend(Backend):
    def __init__(self, data: dict[str, np.ndarray] | None = None):
        self.data = data or {}

    def make_input(self, inp: dict) -> Any:
        import pytato as pt
        if inp.get("kind", "ph") == "dw":
            arr = self.data.get(inp["name"])
            if arr is None:
                arr = np.zeros(inp["shape"], DT[inp["dtype"]])
            if inp.get("named"):
                return pt.make_data_wrapper(arr, name=inp["name"])
            return pt.make_data_wrapper(arr)
        return pt.make_placeholder(inp["name"], tuple(inp["shape"]), DT[inp["dtype"]])

    def _call(self, c: dict) -> Any:
        import pytato as pt
        op = c["op"]
        g = self.get
        if op in UNARY:
            a = g(c["a"])
            if op == "neg":
                return -a
            if op == "pos":
                return +a
            return getattr(pt, op)(a)
        if op in BINARY:
            a, b = g(c["a"]), g(c["b"])
            import operator as o
            f = {"add": o.add, "sub": o.sub, "mul": o.mul, "truediv": o.truediv,
                 "floordiv": o.floordiv, "mod": o.mod, "pow": o.pow,
                 "bitand": o.and_, "bitor": o.or_, "bitxor": o.xor,
                 "lt": pt.less, "le": pt.less_equal, "gt": pt.greater,
                 "ge": pt.greater_equal, "eq": pt.equal, "ne": pt.not_equal,
                 "logical_and": pt.logical_and, "logical_or": pt.logical_or,
                 "maximum": pt.maximum, "minimum": pt.minimum,
                 "arctan2": pt.arctan2}[op]
            r = f(a, b)
            if r is NotImplemented:
                raise TypeError("NotImplemented")
            return r
        if op == "where":
            return pt.where(g(c["c"]), g(c["a"]), g(c["b"]))
        if op == "astype":
            return g(c["a"]).astype(DT[c["dtype"]])
        if op in REDUCE:
            ax = c.get("axis")
            ax = tuple(ax) if isinstance(ax, list) else ax
            return getattr(pt, op)(g(c["a"]), axis=ax)
        if op == "einsum":
            return pt.einsum(c["spec"], *[g(a) for a in c["args"]])
        if op == "matmul":
            return g(c["a"]) @ g(c["b"])
        if op == "dot":
            return pt.dot(g(c["a"]), g(c["b"]))
        if op == "vdot":
            return pt.vdot(g(c["a"]), g(c["b"]))
        if op == "stack":
            return pt.stack([g(a) for a in c["arrays"]], axis=c["axis"])
        if op == "concatenate":
            return pt.concatenate([g(a) for a in c["arrays"]], axis=c["axis"])
        if op == "roll":
            return pt.roll(g(c["a"]), c["shift"], c.get("axis"))
        if op == "transpose":
            return pt.transpose(g(c["a"]), c.get("axes"))
        if op == "reshape":
            ns = c["newshape"]
            return pt.reshape(g(c["a"]), tuple(ns) if isinstance(ns, list) else ns,
                              order=c.get("order", "C"))
        if op == "expand_dims":
            ax = c["axis"]
            return pt.expand_dims(g(c["a"]), tuple(ax) if isinstance(ax, list) else ax)
        if op == "squeeze":
            ax = c.get("axis")
            return pt.squeeze(g(c["a"]), tuple(ax) if isinstance(ax, list) else ax) \
                if ax is not None else pt.squeeze(g(c["a"]))
        if op == "broadcast_to":
            return pt.broadcast_to(g(c["a"]), tuple(c["shape"]))
        if op == "pad":
            return pt.pad(g(c["a"]), _pad_arg(c["width"]),
                          constant_values=_pad_arg(c.get("cval", 0)))
        if op == "index":
            return g(c["a"])[py_index(c["idx"], g)]
        if op == "csr":
            m = pt.make_csr_matrix(tuple(c["shape"]), g(c["data"]), g(c["cols"]),
                                   g(c["rows"]))
            return m @ g(c["x"])
        if op == "full":
            return pt.full(tuple(c["shape"]), scalar(c["fill"]), DT[c["dtype"]])
        if op == "zeros":
            return pt.zeros(tuple(c["shape"]), DT[c["dtype"]])
        if op == "ones":
            return pt.ones(tuple(c["shape"]), DT[c["dtype"]])
        if op == "eye":
            return pt.eye(c["n"], c.get("m"), c.get("k", 0), DT[c["dtype"]])
        if op == "arange":
            return pt.arange(*c["args"], dtype=DT[c["dtype"]] if c.get("dtype") else None)
        if op in ("zeros_like", "ones_like"):
            f = pt.zeros_like if op == "zeros_like" else pt.ones_like
            if c.get("dtype"):                  # dtype= overrides the argument's
                # (an np.dtype INSTANCE, as the parameter is annotated)
                return f(g(c["a"]), dtype=np.dtype(DT[c["dtype"]]))
            return f(g(c["a"]))
        if op == "lpcall":
            # one Call object per "cid": several results of one call share it
            from pytato.loopy import call_loopy

            from . import lpkernels
            memo = self.__dict__.setdefault("_lp", {})
            key = (id(self.values), c["cid"])
            if key not in memo:
                knl = lpkernels.kernel(c["knl"], c["sizes"])
                memo[key] = call_loopy(knl, {k: g(v) for k, v in c["bind"].items()})
            return memo[key][c["res"]]
        if op == "tag":
            from . import usertags
            return g(c["a"]).tagged(usertags.make(c["tag"]))
        if op == "tag_axis":
            from . import usertags
            return g(c["a"]).with_tagged_axis(c["axis"], usertags.make(c["tag"]))
        raise Unsupported(f"op {op}")


class NpBackend(Backend):
    def __init__(self, data: dict[str, np.ndarray]):
        self.data = data

    def make_input(self, inp: dict) -> Any:
        return self.data[inp["name"]]

    def _call(self, c: dict) -> Any:
        op = c["op"]
        g = self.get
        if op in UNARY:
            a = g(c["a"])
            f = {"neg": np.negative, "pos": np.positive, "abs": np.abs}.get(op) \
                or getattr(np, op)
            return f(a)
        if op in BINARY:
            a, b = g(c["a"]), g(c["b"])
            f = {"add": np.add, "sub": np.subtract, "mul": np.multiply,
                 "truediv": np.true_divide, "floordiv": np.floor_divide,
                 "mod": np.mod, "pow": np.power, "lt": np.less, "le": np.less_equal,
                 "gt": np.greater, "ge": np.greater_equal, "eq": np.equal,
                 "ne": np.not_equal, "logical_and": np.logical_and,
                 "logical_or": np.logical_or, "maximum": np.maximum,
                 "minimum": np.minimum, "arctan2": np.arctan2,
                 "bitand": np.bitwise_and, "bitor": np.bitwise_or,
                 "bitxor": np.bitwise_xor}[op]
            return f(a, b)
        if op == "where":
            return np.where(g(c["c"]), g(c["a"]), g(c["b"]))
        if op == "astype":
            return np.asarray(g(c["a"])).astype(DT[c["dtype"]])
        if op in REDUCE:
            ax = c.get("axis")
            ax = tuple(ax) if isinstance(ax, list) else ax
            return getattr(np, op)(g(c["a"]), axis=ax)
        if op == "einsum":
            return np.einsum(c["spec"], *[g(a) for a in c["args"]])
        if op == "matmul":
            return np.matmul(g(c["a"]), g(c["b"]))
        if op == "dot":
            return np.dot(g(c["a"]), g(c["b"]))
        if op == "vdot":
            return np.vdot(g(c["a"]), g(c["b"]))
        if op == "stack":
            return np.stack([g(a) for a in c["arrays"]], axis=c["axis"])
        if op == "concatenate":
            return np.concatenate([g(a) for a in c["arrays"]], axis=c["axis"])
        if op == "roll":
            return np.roll(g(c["a"]), c["shift"], c.get("axis"))
        if op == "transpose":
            return np.transpose(g(c["a"]), c.get("axes"))
        if op == "reshape":
            ns = c["newshape"]
            return np.reshape(g(c["a"]), tuple(ns) if isinstance(ns, list) else ns,
                              order=c.get("order", "C"))
        if op == "expand_dims":
            ax = c["axis"]
            return np.expand_dims(g(c["a"]), tuple(ax) if isinstance(ax, list) else ax)
        if op == "squeeze":
            ax = c.get("axis")
            return np.squeeze(g(c["a"]), tuple(ax) if isinstance(ax, list) else ax)
        if op == "broadcast_to":
            return np.broadcast_to(g(c["a"]), tuple(c["shape"]))
        if op == "pad":
            return np.pad(g(c["a"]), _pad_arg(c["width"]),
                          constant_values=_pad_arg(c.get("cval", 0)))
        if op == "index":
            return g(c["a"])[py_index(c["idx"], g)]
        if op == "csr":
            data, cols, rows, x = g(c["data"]), g(c["cols"]), g(c["rows"]), g(c["x"])
            nrows = c["shape"][0]
            res = np.zeros((nrows,) + x.shape[1:], np.result_type(data, x))
            for i in range(nrows):
                for p in range(int(rows[i]), int(rows[i + 1])):
                    res[i] = res[i] + data[p] * x[int(cols[p])]
            return res
        if op == "full":
            return np.full(tuple(c["shape"]), scalar(c["fill"]), DT[c["dtype"]])
        if op == "zeros":
            return np.zeros(tuple(c["shape"]), DT[c["dtype"]])
        if op == "ones":
            return np.ones(tuple(c["shape"]), DT[c["dtype"]])
        if op == "eye":
            return np.eye(c["n"], c.get("m"), c.get("k", 0), DT[c["dtype"]])
        if op == "arange":
            return np.arange(*c["args"], dtype=DT[c["dtype"]] if c.get("dtype") else None)
        if op in ("zeros_like", "ones_like"):
            f = np.zeros_like if op == "zeros_like" else np.ones_like
            if c.get("dtype"):
                return f(g(c["a"]), dtype=DT[c["dtype"]])
            return f(g(c["a"]))
        if op in ("tag", "tag_axis"):
            return g(c["a"])
        if op == "lpcall":
            from . import lpkernels
            e = lpkernels.KERNELS[c["knl"]]
            spec = e["args"](**c["sizes"])
            vals = {}
            if set(c["bind"]) != set(spec):
                raise ValueError("lpcall: bindings do not match the kernel's arguments")
            for k, v in c["bind"].items():
                x = g(v)
                shape, d = spec[k]
                if shape is None:
                    if np.ndim(x) != 0:
                        raise ValueError("lpcall: scalar argument expected")
                    x = np.asarray(x).astype(DT[d])[()]
                else:
                    x = np.asarray(x)
                    if tuple(x.shape) != tuple(shape) or x.dtype != np.dtype(DT[d]):
                        raise ValueError("lpcall: argument shape/dtype mismatch")
                vals[k] = x
            return e["ref"](**vals)[c["res"]]
        raise Unsupported(f"op {op}")


# --------------------------------------------------------------------------

_BIN_SPEC = {"add": "add", "sub": "sub", "mul": "mul", "truediv": "quot",
             "floordiv": "fdiv", "mod": "mod", "pow": "pow", "lt": "lt", "le": "le",
             "gt": "gt", "ge": "ge", "eq": "eq", "ne": "ne", "logical_and": "and",
             "logical_or": "or", "bitand": "band", "bitor": "bor", "bitxor": "bxor"}
_UN_C99 = {"sin": "sin", "cos": "cos", "tan": "tan", "exp": "exp", "log": "log",
           "sqrt": "sqrt", "sinh": "sinh", "cosh": "cosh", "tanh": "tanh",
           "arcsin": "asin", "arccos": "acos", "arctan": "atan", "log10": "log10",
           "isnan": "isnan"}
_RED = {"sum": "sum", "prod": "product", "amax": "max", "amin": "min",
        "all": "all", "any": "any"}


class SpecBackend(Backend):
    """Builds the specification-level graph.  Shapes (and dtypes) of the
    spec nodes come from NumPy applied to dummy operands, i.e. this backend
    is the NumPy voice for metadata, and PtSem's shape rules re-check them."""

    def __init__(self) -> None:
        self.nodes: list[dict] = []
        self.np = None

    def run(self, prog: dict, stop_on_reject: bool = True) -> list[Any]:
        data = {i["name"]: np.zeros(i["shape"], DT[i["dtype"]]) for i in prog["inputs"]}
        for i in prog["inputs"]:
            if "range" in i:      # index arrays: keep dummy values in range
                data[i["name"]] = np.full(i["shape"], i["range"][0], DT[i["dtype"]])
        self.np = NpBackend(data)
        self.np.prog = prog
        self.np.values = []
        self.np.rejections = {}
        return super().run(prog, stop_on_reject)

    def _emit(self, nd: dict, npval: Any) -> int:
        npval = np.asarray(npval)
        nd["shape"] = [int(s) for s in npval.shape]
        nd["dtype"] = dt(npval.dtype)
        self.nodes.append(nd)
        return len(self.nodes)

    def make_input(self, inp: dict) -> Any:
        v = self.np.make_input(inp)
        self.np.values.append(v)
        return self._emit({"kind": "in", "name": inp["name"]}, v)

    def call(self, c: dict) -> Any:
        import warnings
        try:
            with warnings.catch_warnings():
                warnings.simplefilter("ignore")
                npv = self.np._call(c)
        except Unsupported:
            raise
        except Exception as ex:       # noqa: BLE001
            self.np.values.append(None)
            raise Rejected(ex) from ex
        self.np.values.append(npv)
        return self._emit(self._spec(c), npv)

    def operand(self, o: Any) -> dict:
        if is_ref(o):
            v = self.values[o - 1]
            if v is None:
                raise Rejected(ValueError("operand was rejected"))
            return {"n": v}
        return {"c": const(scalar(o))}

    def _spec(self, c: dict) -> dict:
        op = c["op"]
        g = self.get
        if op in _BIN_SPEC:
            return {"kind": "binop", "op": _BIN_SPEC[op], "x1": self.operand(c["a"]),
                    "x2": self.operand(c["b"])}
        if op == "neg":
            return {"kind": "binop", "op": "mul", "x1": {"c": const(-1)},
                    "x2": self.operand(c["a"])}
        if op in _UN_C99:
            return {"kind": "ucall", "f": func_id(_UN_C99[op]),
                    "args": [self.operand(c["a"])]}
        if op == "arctan2":
            return {"kind": "ucall", "f": func_id("atan2"),
                    "args": [self.operand(c["a"]), self.operand(c["b"])]}
        if op == "logical_not":
            return {"kind": "lnot", "x": self.operand(c["a"])}
        if op == "where":
            return {"kind": "where", "c": self.operand(c["c"]), "t": self.operand(c["a"]),
                    "e": self.operand(c["b"])}
        if op in _RED:
            a = self.np.get(c["a"])
            ax = c.get("axis")
            axes = list(range(a.ndim)) if ax is None else \
                sorted(x % a.ndim for x in (ax if isinstance(ax, list) else [ax]))
            return {"kind": "reduce", "op": _RED[op], "x": g(c["a"]), "axes": axes}
        if op in ("einsum", "matmul", "dot", "vdot"):
            return self._einsum(c)
        if op == "stack":
            nd = self.np.get(c["arrays"][0]).ndim + 1
            return {"kind": "stack", "arrays": [g(a) for a in c["arrays"]],
                    "axis": c["axis"] % nd}
        if op == "concatenate":
            nd = self.np.get(c["arrays"][0]).ndim
            return {"kind": "concat", "arrays": [g(a) for a in c["arrays"]],
                    "axis": c["axis"] % nd}
        if op == "roll":
            a = self.np.get(c["a"])
            if c.get("axis") is None:
                raise Unsupported("roll without axis")
            return {"kind": "roll", "a": g(c["a"]), "shift": c["shift"],
                    "axis": c["axis"] % a.ndim}
        if op == "transpose":
            a = self.np.get(c["a"])
            axes = c.get("axes")
            perm = list(range(a.ndim))[::-1] if axes is None else [x % a.ndim for x in axes]
            return {"kind": "perm", "a": g(c["a"]), "perm": perm}
        if op in ("reshape", "expand_dims", "squeeze"):
            return {"kind": "reshape", "a": g(c["a"]), "order": c.get("order", "C")}
        if op == "broadcast_to":
            return {"kind": "bcast", "x": {"n": g(c["a"])}}
        if op == "index":
            items = []
            for it in c["idx"]:
                if it["t"] == "arr":
                    items.append({"t": "arr", "n": g(it["n"])})
                elif it["t"] in ("int", "slice"):
                    items.append(dict(it))
                else:
                    raise Unsupported(f"index item {it['t']}")
            a = self.np.get(c["a"])
            # NumPy: trailing axes without an item are full slices
            n_consumed = len(items)
            items += [{"t": "slice", "start": [], "stop": [], "step": []}
                      for _ in range(a.ndim - n_consumed)]
            return {"kind": "index", "a": g(c["a"]), "idx": items}
        if op == "csr":
            return {"kind": "csr", "data": g(c["data"]), "cols": g(c["cols"]),
                    "rows": g(c["rows"]), "x": g(c["x"])}
        if op in ("full", "zeros", "ones"):
            fill = scalar(c["fill"]) if op == "full" else (0 if op == "zeros" else 1)
            return {"kind": "full", "fill": {"c": const(fill)}}
        if op == "astype":
            raise Unsupported("astype at spec level")
        if op in ("tag", "tag_axis"):
            return {"kind": "alias", "a": g(c["a"])}
        raise Unsupported(f"no specification-level meaning for op {op}")

    def _einsum(self, c: dict) -> dict:
        op = c["op"]
        if op == "einsum":
            spec, args = c["spec"], c["args"]
        else:
            a, b = self.np.get(c["a"]), self.np.get(c["b"])
            args = [c["a"], c["b"]]
            if op == "vdot" or (op == "dot" and a.ndim == 1 and b.ndim == 1):
                if op == "vdot":
                    raise Unsupported("vdot conjugates")
                spec = "i,i->"
            elif op == "matmul" or op == "dot":
                if a.ndim == 0 or b.ndim == 0:
                    raise Unsupported("scalar dot")
                if a.ndim == 1 and b.ndim >= 2:
                    lb = "abcdefgh"[:b.ndim - 2]
                    spec = f"i,{lb}ij->{lb}j"
                elif b.ndim == 1:
                    la = "abcdefgh"[:a.ndim - 1]
                    spec = f"{la}i,i->{la}"
                elif op == "dot" and (a.ndim > 2 or b.ndim > 2):
                    raise Unsupported("nd dot")
                else:
                    # matmul broadcasting of batch axes
                    nb = max(a.ndim, b.ndim) - 2
                    batch = "abcdefgh"[:nb]
                    la = batch[nb - (a.ndim - 2):] + "ij"
                    lb = batch[nb - (b.ndim - 2):] + "jk"
                    spec = f"{la},{lb}->{batch}ik"
            else:
                raise Unsupported(op)
        ins, out = spec.replace(" ", "").split("->")
        ins = ins.split(",")
        if "..." in spec:
            raise Unsupported("einsum ellipsis")
        red = sorted(set("".join(ins)) - set(out))
        acc = []
        for s in ins:
            acc.append([{"t": "e", "d": out.index(ch)} if ch in out
                        else {"t": "r", "d": red.index(ch)} for ch in s])
        return {"kind": "einsum", "args": [self.get(a) for a in args], "acc": acc,
                "nred": len(red)}

    def graph(self) -> dict:
        return {"nodes": self.nodes, "funcs": [],
                "outs": [{"name": k, "node": self.values[v - 1]}
                         for k, v in self.prog["outs"].items()]}


# --------------------------------------------------------------------------
# NumPy on encoded values: the third voice for pure index remapping

def np_on_tokens(prog: dict, val: dict[str, list[int]]) -> dict[str, list[int]] | None:
    """Run a pure-remapping program with NumPy on the encoded valuation
    (int64 arrays): values only move, so the result is what PtSem must
    compute.  Returns None if the program does arithmetic."""
    remap = {"stack", "concatenate", "roll", "transpose", "reshape", "expand_dims",
             "squeeze", "broadcast_to", "index", "tag", "tag_axis"}
    if any(c["op"] not in remap for c in prog["calls"]):
        return None
    data = {i["name"]: np.array(val[i["name"]], np.int64).reshape(i["shape"])
            for i in prog["inputs"]}
    b = NpBackend(data)
    b.run(prog)
    return {k: [int(z) for z in np.asarray(v).reshape(-1)] for k, v in b.outs().items()}


def np_einsum_mod(prog: dict, val: dict[str, list[int]]) -> dict[str, list[int]] | None:
    """einsum / matmul / csr programs evaluated by NumPy in exact integer
    arithmetic on the residues, reduced mod P afterwards."""
    ok = {"einsum", "matmul", "dot", "csr", "stack", "concatenate", "roll",
          "transpose", "reshape", "index"}
    if any(c["op"] not in ok for c in prog["calls"]):
        return None
    data = {}
    for i in prog["inputs"]:
        arr = np.array(val[i["name"]], dtype=object).reshape(i["shape"])
        exact = bool(arr.size) and all(int(z) < OFF for z in arr.reshape(-1))
        if exact or "range" in i or i["dtype"][0] in "iub":
            data[i["name"]] = arr.astype(np.int64)
        else:
            data[i["name"]] = (arr.astype(np.int64) - OFF) if arr.size else \
                arr.astype(np.int64)
    b = NpBackend(data)
    b.run(prog)
    res = {}
    for k, v in b.outs().items():
        res[k] = [OFF + int(z) % P for z in np.asarray(v).reshape(-1)]
    return res
