"""Executing programs (replay format) and comparing with NumPy: shared by the
execution-based checks C01, C07, C14, C16."""
from __future__ import annotations

import warnings
from typing import Any

import numpy as np

from . import replay as rp

# operations whose NumPy and C semantics agree on NaN / inf / -0.0 inputs
NAN_AWARE = {"add", "sub", "mul", "neg", "maximum", "minimum", "where", "isnan",
             "stack", "concatenate", "roll", "transpose", "reshape", "expand_dims",
             "squeeze", "broadcast_to", "index", "tag", "tag_axis", "zeros", "ones", "full",
             "zeros_like", "ones_like", "astype_f"}


def input_data(prog: dict, rng: np.random.Generator, kind: str) -> dict[str, np.ndarray]:
    """kind: "normal" | "injective" | "special" """
    data: dict[str, np.ndarray] = {}
    counter = 0
    for i in prog["inputs"]:
        shape, d = tuple(i["shape"]), i["dtype"]
        n = int(np.prod(shape, dtype=np.int64))
        if "data" in i:
            arr = np.array(i["data"], rp.DT[d]).reshape(shape)
        elif "range" in i:
            lo, hi = i["range"]
            arr = rng.integers(lo, hi + 1, size=shape).astype(rp.DT[d])
        elif d == "b1":
            arr = rng.integers(0, 2, size=shape).astype(np.bool_)
        elif d[0] in "iu":
            if kind == "injective":
                arr = (np.arange(n) + counter * 7 + 1).reshape(shape) % 23 - 11
                if d[0] == "u":
                    arr = np.abs(arr)
                arr = arr.astype(rp.DT[d])
            else:
                lo = 0 if d[0] == "u" else -4
                arr = rng.integers(lo, 5, size=shape).astype(rp.DT[d])
        elif d[0] == "c":
            arr = (rng.standard_normal(shape) + 1j * rng.standard_normal(shape)).astype(
                rp.DT[d])
        else:
            if kind == "injective":
                arr = (rng.permutation(n) + 1 + 1000 * counter).reshape(shape) / 8.0
            else:
                arr = rng.standard_normal(shape) * 1.5
            if kind == "special" and n:
                flat = arr.reshape(-1)
                specials = [np.nan, np.inf, -np.inf, -0.0, 0.0]
                for k in range(min(n, 3)):
                    flat[int(rng.integers(n))] = specials[int(rng.integers(len(specials)))]
                arr = flat.reshape(shape)
            arr = arr.astype(rp.DT[d])
        counter += 1
        data[i["name"]] = np.ascontiguousarray(arr) if arr.ndim else np.asarray(arr)
    # ONE data object under several inputs (wrapped by several DataWrapper nodes)
    for i in prog["inputs"]:
        if i.get("same_as"):
            data[i["name"]] = data[i["same_as"]]
    return data


def nan_aware(prog: dict) -> bool:
    for c in prog["calls"]:
        op = c["op"]
        if op == "astype" and c["dtype"][0] == "f":
            continue
        if op not in NAN_AWARE:
            return False
    return True


def nan_into_minmax_reduction(prog: dict, values: list) -> bool:
    """NumPy's amax / amin propagate NaN, loopy's max / min reductions (fmax-like)
    ignore it: does a NaN reach the operand of such a reduction in this run?"""
    for c in prog["calls"]:
        if c["op"] in ("amax", "amin") and rp.is_ref(c.get("a")):
            v = values[c["a"] - 1] if c["a"] - 1 < len(values) else None
            if v is not None:
                a = np.asarray(v)
                if a.dtype.kind in "fc" and a.size and bool(np.isnan(a).any()):
                    return True
    return False


def numpy_reference(prog: dict, data: dict[str, np.ndarray]) -> tuple[dict | None, list]:
    """-> (name -> ndarray, values of every call) or (None, ...) if NumPy rejects"""
    nb = rp.NpBackend(data)
    with warnings.catch_warnings():
        warnings.simplefilter("ignore")
        nb.run(prog)
    if nb.rejections:
        return None, nb.values
    return {k: np.asarray(v) for k, v in nb.outs().items()}, nb.values


def tolerance(dtype: np.dtype) -> float:
    if dtype.kind in "iub":
        return 0.0
    if dtype in (np.dtype(np.float32), np.dtype(np.complex64)):
        return 2e-4
    return 1e-9


def single_precision_involved(data: dict[str, np.ndarray], values: list) -> bool:
    """True if any input or NumPy intermediate is float32 / complex64: the
    two sides may then legitimately round at single precision at different
    places (e.g. where NumPy keeps float32 and pytato's declared dtype is
    float64), so the comparison uses the single-precision tolerance."""
    for v in list(data.values()) + [x for x in values if isinstance(x, (np.ndarray,
                                                                        np.generic))]:
        if np.asarray(v).dtype in (np.dtype(np.float32), np.dtype(np.complex64)):
            return True
    return False


def compare(got: np.ndarray, ref: np.ndarray, declared: np.dtype, scale: float,
            single: bool = False) -> str | None:
    """None if equal; otherwise a short description.  Integer / boolean
    results exactly, floating point within tol * (1 + scale) with NaNs
    compared positionally and +-0 identified."""
    got = np.asarray(got)
    ref = np.asarray(ref)
    if tuple(got.shape) != tuple(ref.shape):
        return f"shape {got.shape} vs NumPy {ref.shape}"
    if got.size == 0:
        return None
    if declared.kind in "iub" and ref.dtype.kind in "iub":
        if not np.array_equal(got.astype(np.int64), ref.astype(np.int64)):
            k = int(np.argmax(got.reshape(-1).astype(np.int64)
                              != ref.reshape(-1).astype(np.int64)))
            return (f"value mismatch at flat index {k}: {got.reshape(-1)[k]} vs NumPy "
                    f"{ref.reshape(-1)[k]}")
        return None
    tol = max(tolerance(declared), tolerance(ref.dtype) if ref.dtype.kind in "fc" else 0.0,
              2e-4 if single else 0.0)
    with warnings.catch_warnings():
        warnings.simplefilter("ignore")
        g = got.astype(np.complex128) if got.dtype.kind == "c" or ref.dtype.kind == "c" \
            else got.astype(np.float64)
        r = ref.astype(g.dtype)
        gn, rn = np.isnan(g), np.isnan(r)
        if not np.array_equal(gn, rn):
            k = int(np.argmax((gn != rn).reshape(-1)))
            return (f"NaN mismatch at flat index {k}: {g.reshape(-1)[k]} vs NumPy "
                    f"{r.reshape(-1)[k]}")
        gi, ri = np.isinf(g), np.isinf(r)
        # (a complex entry such as inf+nanj is both infinite and NaN: compare the parts)
        if not np.array_equal(gi, ri) \
                or not np.array_equal(g[gi].real, r[ri].real, equal_nan=True) \
                or not np.array_equal(g[gi].imag, r[ri].imag, equal_nan=True):
            return "infinity mismatch"
        fin = ~(gn | gi)
        if not fin.any():
            return None
        diff = np.abs(g[fin] - r[fin])
        bound = tol * (1.0 + scale + np.abs(r[fin]))
        if (diff > bound).any():
            k = int(np.argmax(diff - bound))
            return (f"value mismatch: {g[fin][k]} vs NumPy {r[fin][k]} "
                    f"(|diff| {diff[k]:.3g} > {bound[k]:.3g})")
    return None


def scale_of(data: dict[str, np.ndarray], values: list) -> float:
    """Largest finite magnitude among inputs and intermediate NumPy values."""
    m = 1.0
    with warnings.catch_warnings():
        warnings.simplefilter("ignore")
        for v in list(data.values()) + [x for x in values if isinstance(x, np.ndarray)]:
            if v.size and v.dtype.kind in "fciu":
                a = np.abs(v[np.isfinite(v)]) if v.dtype.kind in "fc" else np.abs(v)
                if a.size:
                    m = max(m, float(a.max()))
    return m


def int_overflow_risk(values: list, bits_small: bool = True) -> bool:
    """True if a NumPy integer intermediate is large enough that a narrower
    accumulator could overflow (pytato keeps int32 where NumPy accumulates in
    int64): signed overflow is undefined behaviour in C, outside the contract."""
    for v in values:
        if isinstance(v, (np.ndarray, np.generic)):
            a = np.asarray(v)
            if a.dtype.kind in "iu" and a.size:
                if int(np.abs(a.astype(np.int64)).max()) >= 2 ** 30:
                    return True
    return False
